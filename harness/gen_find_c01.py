"""Generator additions for the SOUNDNESS check of the pattern search (C01), on top of the frozen `findlib`.

* `decoy_groups`     — which atoms of a `findlib.planted_structure` case are decoys (the generator appends them after
                       the planted copies, in the order of `info["decoys"]`);
* `add_decoy`        — extra decoys: a rigid copy with ONE ELEMENT replaced (right geometry, wrong element: only the
                       element test of the extension loop rejects it), an extra mirror image, a permuted-element copy;
* `planted_at`       — one copy at a PRESCRIBED fractional origin and pose (systematic boundary grid);
* `valid_hints`      — axis / orientation hints: none, complete triples, partial ones (including index 0);
* `mk_pattern`.
"""
import math
from fractions import Fraction

import numpy as np

from . import core, findlib as fl

CHIRAL = {"chiral", "asym4", "asym5"}          # patterns whose mirror image is NOT an occurrence

# patterns with two SAME-ELEMENT atoms close together (not the axis pair, not the orientation point), with the
# tolerances for which the pair is between atol and 2·atol apart: one structure atom near their midpoint is then
# within atol of BOTH pattern sites — only the pair-distance screen (|d_pattern − 0| ≤ atol fails) keeps one atom from
# standing in for two. Registered in findlib's table for the C01 check only (this module is imported by c01.py alone).
CLOSE_PAIR = {"h2frame": [0.4, 0.5, 0.6, 0.8],      # H–H 0.75 ; 0.8: the tolerance exceeds the pair distance
              "twinF": [0.2, 0.3, 0.4]}             # F–F 0.375 ; 0.4 likewise
fl.PATTERNS.setdefault("h2frame", (["C", "O", "N", "H", "H"],
                                   [(0, 0, 0), (0, 0, 3.0), (2.0, 0, 0.5), (0.75, 0.375, 1.5), (0.75, -0.375, 1.5)]))
fl.PATTERNS.setdefault("twinF", (["C", "N", "O", "F", "F"],
                                 [(0, 0, 0), (0, 0, 2.5), (1.75, 0, 0.5), (0.75, 0.1875, 1.25), (0.75, -0.1875, 1.25)]))
ATOLS = [0.02, 0.05, 0.1, 0.2]                                   # the grid's tolerances (kept)
TINY_ATOLS = [1e-4, 2e-4, 5e-4, 2e-3]                           # a caller telling nearly identical fragments apart
# the random stream: tiny, ordinary (default 0.05 twice) and large tolerances
ALL_ATOLS = TINY_ATOLS + [0.02, 0.05, 0.05, 0.1, 0.2, 0.3]
STRETCH = [2.5, 3.0, 4.0, 6.0, 8.0]                             # "one bond s·atol too long"
FRACS = [0.0, 0.01, 0.5, 0.99, 0.999]
POSES = ["random", "identity", "axis90", "axis180"]
GRID_CELLS = ["ortho", "tri+", "rot"]
FOREIGN = ["S", "P", "Si"]
LOOKALIKE = {"Cl": ["C"], "C": ["Cl", "Cu", "Co"], "Si": ["S"], "S": ["Si", "Sn"], "Br": ["B"], "N": ["Ni", "Na"], "H": ["Hf", "He"],
             "O": ["Os"], "F": ["Fe"], "Cu": ["C"]}                      # elements that occur in no pattern


def mk_pattern(pattern):
    from mofun import Atoms
    with core.quiet():
        return Atoms(elements=list(pattern["elems"]), positions=np.array(pattern["pos"], dtype=float))


def decoy_groups(case):
    """[(kind, [atom indices])] for the decoys `findlib.planted_structure` appended after the planted copies"""
    k = len(case["pattern"]["elems"])
    at = sum(len(g) for g in case["planted"])
    out = []
    for kind in case["info"]["decoys"]:
        size = k if kind in ("mirror", "nearmiss") else 1
        out.append((kind, list(range(at, at + size))))
        at += size
    assert at == len(case["elems"]), "decoy bookkeeping of findlib.planted_structure changed"
    return out


def _wrap(v, cf, cinv):
    f = v.dot(cinv) % 1.0
    f[f >= 1.0] = 0.0
    return f.dot(cf)


def _far_enough(pts, pos, cf, cinv, dmin):
    if not pos:
        return True
    P = np.array(pos, dtype=float)
    for p in pts:
        dv = (P - np.array(p)).dot(cinv)
        dv -= np.round(dv)
        if np.linalg.norm(dv.dot(cf), axis=1).min() < dmin:
            return False
    return True


def _place(rng, case, src, els, pose="random", frac=None, perturb=0.0, dmin=1.6, tries=40):
    """append a rigid image of the points `src` (elements `els`) to the case; returns the new indices or None"""
    cf = np.array(case["cell"], dtype=float)
    cinv = np.linalg.inv(cf)
    for _ in range(tries):
        R = fl.rotmat(fl.rat_quat(rng, pose))
        fr = frac if frac is not None else [rng.random() for _ in range(3)]
        origin = np.array(fr, dtype=float).dot(cf)
        pts = []
        for p in src:
            v = np.array([float(x) for x in fl.matvec(R, p)]) + origin
            if perturb:
                v = v + np.array([rng.uniform(-1, 1) for _ in range(3)]) * perturb
            pts.append(_wrap(v, cf, cinv))
        if _far_enough(pts, case["pos"], cf, cinv, dmin):
            base = len(case["pos"])
            case["elems"].extend(els)
            case["pos"].extend([[float(x) for x in v] for v in pts])
            return list(range(base, base + len(pts)))
        if frac is not None:
            return None
    return None


def add_decoy(rng, case, kind, atol, stretch=None):
    """append one decoy of the given kind; records it in case["decoys"]. Returns True when placed."""
    pat = case["pattern"]
    ppos = [[Fraction(x).limit_denominator(10 ** 6) for x in p] for p in pat["pos"]]
    els = list(pat["elems"])
    k = len(els)
    if kind == "wrongelem" and k >= 2:
        # right geometry, ONE element replaced (never the first atom: the start-atom test is a different code path)
        j = rng.randrange(0, k)          # the first atom too: its element is tested by the start-atom selection
        others = [e for e in set(els) | set(FOREIGN) if e != els[j]]
        # prefer look-alike symbols (one is a prefix / substring of the other: C~Cl~Cu, S~Si, B~Br, N~Ni, H~Hf)
        alike = [e for e in LOOKALIKE.get(els[j], []) if e != els[j]]
        els[j] = rng.choice(alike) if (alike and rng.random() < 0.6) else rng.choice(sorted(others))
        g = _place(rng, case, ppos, els, perturb=atol / 8 / math.sqrt(3))
    elif kind == "mirror" and k >= 4:
        g = _place(rng, case, fl.mirror(ppos), els, perturb=atol / 8 / math.sqrt(3))
    elif kind == "permuted" and k >= 3 and len(set(els)) >= 2:
        # the pattern's own elements on the pattern's own sites, but two different ones exchanged
        for _ in range(20):
            a, b = rng.sample(range(k), 2)
            if els[a] != els[b]:
                els[a], els[b] = els[b], els[a]
                break
        else:
            return False
        g = _place(rng, case, ppos, els, perturb=atol / 8 / math.sqrt(3))
    elif kind == "merged" and k >= 3:
        # the closest pair of SAME-ELEMENT atoms replaced by ONE atom at their midpoint: the structure has one atom where
        # the pattern has two, so no match with distinct atoms exists there
        pairs = [(sum(float(ppos[a][c] - ppos[b][c]) ** 2 for c in range(3)), a, b)
                 for a in range(k) for b in range(a) if els[a] == els[b]]
        if not pairs:
            return False
        _, a, b = min(pairs)
        mid = [(ppos[a][c] + ppos[b][c]) / 2 for c in range(3)]
        src = [mid if i == b else list(ppos[i]) for i in range(k) if i != a]
        els = [els[i] for i in range(k) if i != a]
        g = _place(rng, case, src, els, perturb=atol / 8 / math.sqrt(3))
    elif kind == "stretch" and k >= 2:
        # a rigid copy in which ONE bond is s·atol too long (atom j pushed away from atom i along the bond), s = 2.5 … 8:
        # outside the requested tolerance by a small factor — any silent widening of the tolerance accepts it
        i, j = rng.sample(range(k), 2)
        b = np.array([float(ppos[j][c] - ppos[i][c]) for c in range(3)])
        L = np.linalg.norm(b)
        if L == 0:
            return False
        sfac = stretch if stretch is not None else rng.choice(STRETCH)
        step = b / L * (sfac * atol)
        src = [list(p) for p in ppos]
        src[j] = [Fraction(float(ppos[j][c]) + float(step[c])).limit_denominator(10 ** 9) for c in range(3)]
        g = _place(rng, case, src, els, perturb=0.0)
        kind = "stretch"
        case["info"].setdefault("stretch", []).append(sfac)
    else:
        return False
    if g is None:
        return False
    case["decoys"].append((kind, g))
    case["info"].setdefault("extra", []).append(kind)
    return True


def odd_cell(rng, pname, atol):
    """a triclinic cell that is NOT in the standard orientation (a along x, b in the xy plane): upper-triangular, or a
    LAMMPS-style cell turned by 10-35 degrees about a skew axis"""
    d = fl.diam(fl.pattern_json(pname)["pos"])
    while True:
        base = fl.make_cell(rng, rng.choice(["tri+", "tri-"]), max(7.0, 2.2 * d + 3))
        kind = rng.choice(["upper", "turned", "turned"])
        if kind == "upper":
            cell = [[base[0][0], base[1][0], base[2][0]], [0, base[1][1], base[2][1]], [0, 0, base[2][2]]]
        else:
            v = [rng.randint(-1, 1) for _ in range(3)]
            if not any(v):
                continue
            R = fl.rotmat((v[0], v[1], v[2], rng.randint(4, 9)))
            cell = [fl.matvec(R, row) for row in base]
        if wide_enough(cell, [pname], atol):
            return cell, kind


def ase_case(rng, atol, pname=None):
    """a periodic structure meant to arrive through ase.Atoms / Atoms.from_ase_atoms: oddly oriented triclinic cell, copies
    across faces, ordinary decoys, and ghost copies that exist only under a mis-read cell"""
    pname = pname or rng.choice([n for n in fl.PATTERNS if len(fl.PATTERNS[n][0]) >= 2 and n != "int3"])
    cell, kind = odd_cell(rng, pname, atol)
    case = empty_case(pname, cell, kind)
    plant(rng, case, atol, ncopies=rng.randint(0, 2), boundary=True)
    for k, p in (("wrongelem", 0.4), ("stretch", 0.4), ("mirror", 0.3)):
        if rng.random() < p:
            add_decoy(rng, case, k, atol)
    for _ in range(rng.randint(1, 2)):
        for _try in range(4):
            if add_ghost(rng, case, atol):
                break
    if not case["elems"]:
        plant(rng, case, atol, ncopies=1)
    case["info"]["boundary"] = "face"
    return case


def left_handed(rng, cell):
    """the same lattice described by a LEFT-handed triple of vectors (negative determinant): two rows exchanged or one
    row reversed"""
    cell = [list(r) for r in cell]
    if rng.random() < 0.5:
        i, j = rng.sample(range(3), 2)
        cell[i], cell[j] = cell[j], cell[i]
    else:
        i = rng.randrange(3)
        cell[i] = [-v for v in cell[i]]
    return cell


def tight_cell(rng, kind, pname, atol):
    """a cell whose smallest perpendicular width exceeds diameter + 2·atol by 3-30 % only (the quantifier's bound is
    `width > diameter + 2·atol`; `findlib.planted_structure` keeps a margin of 1 A)"""
    d = fl.diam(fl.pattern_json(pname)["pos"])
    D = d + 2 * atol
    for _ in range(200):
        cell = fl.make_cell(rng, kind, max(4.0, D + 1.0))
        w = min(fl.perp_widths(cell))
        target = D * rng.choice([1.03, 1.1, 1.3])
        f = Fraction(int(math.ceil(target / w * 64)), 64)
        cell = [[Fraction(v) * f for v in row] for row in cell]
        if min(fl.perp_widths(cell)) > D * 1.02:
            return cell
    raise RuntimeError("no tight cell")


def tight_case(rng):
    """small cells just inside the quantifier, right- or left-handed"""
    pname = rng.choice([n for n in fl.PATTERNS if len(fl.PATTERNS[n][0]) >= 2 and n != "int3"])
    atol = rng.choice(TINY_ATOLS + [0.02, 0.05, 0.05, 0.1, 0.2])
    kind = rng.choice(["ortho", "tri+", "tri-", "rot"])
    cell = tight_cell(rng, kind, pname, atol)
    tag = "tight"
    if rng.random() < 0.4:
        cell = left_handed(rng, cell)
        tag = "tight,left-handed"
    case = empty_case(pname, cell, kind)
    plant(rng, case, atol, ncopies=rng.randint(1, 2), boundary=rng.random() < 0.6)
    for k, p in (("stretch", 0.5), ("wrongelem", 0.4), ("merged", 0.2)):
        if rng.random() < p:
            add_decoy(rng, case, k, atol)
    if not case["elems"]:
        plant(rng, case, atol, ncopies=1)
    case["info"]["boundary"] = tag
    return case, atol, valid_hints(rng, case["pattern"])


FLAT = ["collinear3", "collinear_asym", "planar4", "planar4@y", "planar4@z", "collinear_asym@y", "collinear_asym@z"]


def add_sideways(rng, case, atol, frac_lo=0.7, factor=(4, 6), pose="random"):
    """a copy of a COLLINEAR / PLANAR pattern with one inner atom pushed 4-6 atol OFF the line / plane: every interatomic
    distance changes only in second order (the pair-distance screen cannot see it), but no rigid motion brings the atom
    within atol. Placed far from the origin (all fractional coordinates >= frac_lo): a tolerance that grows with the
    coordinate (a relative term) lets it through there and not near the origin."""
    pat = case["pattern"]
    P = np.array(pat["pos"], dtype=float)
    k = len(P)
    if k < 3:
        return False
    d2 = ((P[:, None, :] - P[None, :, :]) ** 2).sum(axis=2)
    a, b = [int(x) for x in np.unravel_index(np.argmax(d2), d2.shape)]
    u = P[b] - P[a]
    # normal of the pattern's plane (any perpendicular for a collinear pattern)
    others = [i for i in range(k) if i not in (a, b)]
    nrm = None
    for i in others:
        c = np.cross(u, P[i] - P[a])
        if np.linalg.norm(c) > 1e-6:
            nrm = c / np.linalg.norm(c)
            break
    if nrm is None:
        c = np.cross(u, [1.0, 0.3, 0.2])
        nrm = c / np.linalg.norm(c)
    if any(abs(np.dot(P[i] - P[a], nrm)) > 1e-9 for i in range(k)):
        return False                      # not a flat pattern
    # the atom to move: neither end of the axis nor (if avoidable) the atom farthest from it (the orientation point)
    off = {i: np.linalg.norm(np.cross(u, P[i] - P[a])) for i in others}
    j = min(others, key=lambda i: off[i]) if len(others) > 1 else others[0]
    step = nrm * rng.uniform(*factor) * atol * rng.choice([1, -1])
    src = [[Fraction(x).limit_denominator(10 ** 6) for x in p] for p in pat["pos"]]
    src[j] = [Fraction(float(P[j][c] + step[c])).limit_denominator(10 ** 12) for c in range(3)]
    g = None
    for _ in range(40):
        fr = [rng.uniform(frac_lo, 0.97) for _ in range(3)]
        g = _place(rng, case, src, list(pat["elems"]), pose=pose, frac=fr, perturb=0.0, tries=1)
        if g is not None:
            break
    if g is None:
        return False
    case["decoys"].append(("sideways", g))
    case["info"].setdefault("extra", []).append("sideways")
    return True


def far_case(rng):
    """a LARGE cell (60-80 A) and a small tolerance: fragments far from the origin — every tolerance must be the same
    there as near the origin"""
    pname = rng.choice(FLAT)
    atol = rng.choice([2e-5, 1e-4, 1e-4])
    kind = rng.choice(["ortho", "ortho", "tri+"])
    cell = fl.make_cell(rng, kind, rng.choice([60.0, 80.0]))
    case = empty_case(pname, cell, kind)
    plant(rng, case, atol, ncopies=rng.randint(1, 2), boundary=rng.random() < 0.3)
    for _ in range(rng.randint(1, 2)):
        add_sideways(rng, case, atol)
    if rng.random() < 0.5:
        add_sideways(rng, case, atol, frac_lo=0.0)
    if rng.random() < 0.5:
        add_decoy(rng, case, "stretch", atol)
    if not case["elems"]:
        plant(rng, case, atol, ncopies=1)
    case["info"]["boundary"] = "far"
    return case, atol, (None, None, None)


def shuffle_atoms(rng, case):
    """the same structure with its atoms listed in ANOTHER ORDER (the atoms of a copy are then neither contiguous nor in
    pattern order; for symmetric patterns the reported tuples come out in an order that is not the sorted one)"""
    n = len(case["elems"])
    if n < 2:
        return
    order = list(range(n))
    rng.shuffle(order)                              # new position k holds old atom order[k]
    new = {old: k for k, old in enumerate(order)}
    case["elems"] = [case["elems"][i] for i in order]
    case["pos"] = [case["pos"][i] for i in order]
    case["planted"] = [sorted(new[i] for i in grp) for grp in case.get("planted", [])]
    case["decoys"] = [(kind, [new[i] for i in grp]) for kind, grp in case.get("decoys", [])]
    case["info"]["shuffled"] = True


def unwrap_atoms(rng, case, p_atom=0.6, span=2):
    """store atoms OUTSIDE the unit cell: every chosen atom is moved by its own integer lattice vector (−span…+span cells
    along each lattice vector) — the same crystal, as an unwrapped trajectory or a data file that does not wrap stores it.
    Atoms sitting within 1e-6 of a cell face are left alone (whether they count as inside is a rounding matter)."""
    L = np.array(case["cell"], dtype=float)
    Li = np.linalg.inv(L)
    moved = 0
    for i, q in enumerate(case["pos"]):
        f = np.array(q, dtype=float).dot(Li)
        if np.abs(f - np.round(f)).min() < 1e-6 or rng.random() > p_atom:
            continue
        n = [rng.randint(-span, span) for _ in range(3)]
        if not any(n):
            continue
        case["pos"][i] = [float(x) for x in (np.array(q, dtype=float) + np.array(n, dtype=float).dot(L))]
        moved += 1
    case["info"]["unwrapped"] = moved
    return moved


def random_case(rng):
    """one structure of the random stream: findlib.planted_structure + extra decoys + hints + atol"""
    atol = rng.choice(ALL_ATOLS)
    boundary = rng.choice([None, None, "face", "corner"])
    pose = rng.choice([None, None, None, "identity", "axis90", "axis180"])
    pname = None
    cell_kind = None
    route = rng.choice(ROUTES + ["ase"]) if rng.random() < 0.4 else "elements"
    if route == "ase" and rng.random() < 0.75:
        # a periodic structure whose cell is not in the standard orientation
        if atol > 0.3:
            atol = 0.05
        case = ase_case(rng, atol)
        case["want_route"] = route
        case["info"]["pose"] = "mixed"
        return case, atol, valid_hints(rng, case["pattern"])
    if rng.random() < 0.12:
        # a close same-element pair relative to a LARGE tolerance, and a site with one atom where the pattern has two
        pname = rng.choice(sorted(CLOSE_PAIR))
        atol = rng.choice(CLOSE_PAIR[pname])
    case = fl.planted_structure(rng, pname=pname, cell_kind=cell_kind, atol=atol, decoys=True, pose=pose, boundary=boundary,
                                ncopies=rng.randint(0, 2) if pname else None)
    case["decoys"] = decoy_groups(case)
    case["want_route"] = route
    kinds = [("wrongelem", 0.5), ("mirror", 0.35), ("permuted", 0.25), ("stretch", 0.6), ("stretch", 0.3), ("merged", 0.15)]
    if pname:
        kinds = [("merged", 1.0), ("merged", 0.5)] + kinds
    for kind, p in kinds:
        if rng.random() < p:
            add_decoy(rng, case, kind, atol)
    # flat patterns: one inner atom 2.1-2.4 atol off the line / plane, in an axis-aligned pose: beyond atol for that atom,
    # but small in the ROOT-MEAN-SQUARE over the atoms — only a per-atom test rejects it
    if case["pattern"]["name"] in FLAT and rng.random() < 0.7:
        add_sideways(rng, case, atol, frac_lo=0.0, factor=(2.1, 2.4), pose=rng.choice(["identity", "axis90", "axis180"]))
    # copies that exist only under a mis-read cell (tilted / rotated cells; always when the structure comes from ASE)
    for _ in range(2 if route == "ase" else 1):
        if route == "ase" or rng.random() < 0.3:
            add_ghost(rng, case, atol)
    case["info"]["boundary"] = boundary or "inside"
    case["info"]["pose"] = pose or "mixed"
    return case, atol, valid_hints(rng, case["pattern"])


def zero_tol_case(rng):
    """edge value atol = 0: exact, unperturbed, axis-aligned copies (dyadic coordinates) — whatever is reported must be exact"""
    case = fl.planted_structure(rng, atol=0.0, decoys=True, pose=rng.choice(["identity", "axis90", "axis180"]),
                                boundary=rng.choice([None, "face"]), perturb=False)
    case["decoys"] = decoy_groups(case)
    add_decoy(rng, case, "wrongelem", 0.0)
    case["info"]["boundary"] = "inside"
    case["info"]["pose"] = "exact"
    return case, 0.0, (None, None, None)


def call_style(rng, atol, hints):
    """how the arguments are passed: every keyword at default / explicit; positions+quats requested or not; verbose"""
    return {"positions": rng.random() < 0.75,
            "omit_defaults": rng.random() < 0.5,       # leave out atol when it is the default 0.05, hints when None
            "verbose": rng.random() < 0.05,
            "np_hints": rng.random() < 0.25,           # indices as numpy integers (what np.argmax hands to callers)
            "neg_hints": rng.random() < 0.2}           # indices counted from the end (-1 = last atom)


def planted_at(rng, pname, cell_kind, pose, frac, atol):
    """one copy of the pattern with the image of its origin at fractional coordinates `frac`, in the given pose, plus
    (room permitting) a mirror image and a wrong-element copy elsewhere"""
    pat = fl.pattern_json(pname)
    ppos = pat["pos"]
    d = fl.diam(ppos)
    while True:
        cell = fl.make_cell(rng, cell_kind, max(7.0, 2.2 * d + 3))
        if min(fl.perp_widths(cell)) > d + 2 * atol + 1.0:
            break
    case = {"elems": [], "pos": [], "cell": [[float(v) for v in row] for row in cell],
            "pattern": {"elems": list(pat["elems"]), "pos": [[float(x) for x in p] for p in ppos], "name": pname},
            "planted": [], "decoys": [],
            "info": {"cell": cell_kind, "pattern": pname, "copies": 0, "decoys": [], "pose": pose, "boundary": "grid"}}
    g = _place(rng, case, ppos, list(pat["elems"]), pose=pose, frac=list(frac), perturb=atol / 8 / math.sqrt(3), tries=1)
    if g is not None:
        case["planted"].append(sorted(g))
        case["info"]["copies"] = 1
    for kind in ("mirror", "wrongelem", "stretch", "merged"):
        if rng.random() < (0.9 if (kind == "merged" and pname in CLOSE_PAIR) else 0.5):
            add_decoy(rng, case, kind, atol)
    return case


# ------------------------------------------------------------------ structures in a GIVEN cell; call sequences

def empty_case(pname, cell_rows, cell_kind):
    pat = fl.pattern_json(pname)
    return {"elems": [], "pos": [], "cell": [[float(v) for v in row] for row in cell_rows],
            "pattern": {"elems": list(pat["elems"]), "pos": [[float(x) for x in p] for p in pat["pos"]], "name": pname},
            "planted": [], "decoys": [],
            "info": {"cell": cell_kind, "pattern": pname, "copies": 0, "decoys": [], "pose": "mixed", "boundary": "seq"}}


def plant(rng, case, atol, ncopies=1, boundary=False, perturb=True):
    pat = fl.pattern_json(case["pattern"]["name"])
    for _ in range(ncopies):
        fr = [rng.choice(FRACS) for _ in range(3)] if boundary else None
        g = _place(rng, case, pat["pos"], list(pat["elems"]), pose=rng.choice(POSES), frac=fr,
                   perturb=(atol / 8 / math.sqrt(3)) if perturb else 0.0, tries=1 if fr else 40)
        if g is not None:
            case["planted"].append(sorted(g))
            case["info"]["copies"] += 1


def wide_enough(cell_rows, pnames, atol):
    d = max(fl.diam(fl.pattern_json(n)["pos"]) for n in pnames)
    return min(fl.perp_widths(cell_rows)) > d + 2 * atol + 1.0


def ortho_and_tilted(rng, pnames, atol):
    """an orthorhombic cell and a LAMMPS-triclinic cell WITH THE SAME DIAGONAL (same a, b, c; only the tilts differ)"""
    d = max(fl.diam(fl.pattern_json(n)["pos"]) for n in pnames)
    while True:
        o = fl.make_cell(rng, "ortho", max(7.0, 2.2 * d + 3))
        t = lambda: rng.choice([1, -1]) * Fraction(rng.randint(4, 20), 8)
        tri = [[o[0][0], 0, 0], [t(), o[1][1], 0], [t(), t(), o[2][2]]]
        if wide_enough(o, pnames, atol) and wide_enough(tri, pnames, atol):
            return o, tri


def call_of(case, atol, hints=(None, None, None), positions=True, seed=0, **opts):
    """one call of find_pattern_in_structure: the case + every argument (see props/c01.py `call_find`)"""
    c = {"op": "find-sound", "elems": list(case["elems"]), "pos": [list(p) for p in case["pos"]], "cell": case["cell"],
         "pattern": case["pattern"], "atol": atol, "hints": list(hints), "seed": seed, "positions": bool(positions),
         "decoys": [[k, list(grp)] for k, grp in case.get("decoys", [])],
         "planted": [list(p) for p in case.get("planted", [])], "info": dict(case.get("info", {}))}
    c.update(opts)
    return c


def edited_sequence(rng):
    names = [n for n in fl.PATTERNS if len(fl.PATTERNS[n][0]) >= 2 and n != "int3"]
    pn = rng.choice(names)
    atol = rng.choice([0.02, 0.05, 0.05, 0.1])
    ck = rng.choice(["ortho", "tri+", "tri-", "rot"])
    d = fl.diam(fl.pattern_json(pn)["pos"])
    while True:
        cell = fl.make_cell(rng, ck, max(7.0, 2.2 * d + 3))
        if wide_enough(cell, [pn], atol):
            break
    case = empty_case(pn, cell, ck)
    plant(rng, case, atol, ncopies=rng.randint(1, 3), boundary=rng.random() < 0.5)
    add_decoy(rng, case, "wrongelem", atol)
    if not case["planted"]:
        plant(rng, case, atol, ncopies=1)
    if not case["planted"]:
        return []
    # explicit types on both objects, so that single atoms can be re-typed in place
    stab = type_table(rng, case["elems"] + case["pattern"]["elems"])
    ptab = type_table(rng, case["pattern"]["elems"] + case["elems"])
    style = {"route": "types", "proute": "types", "type_table": stab, "ptype_table": ptab, "route_seed": 0}
    elems = list(case["elems"])
    pos = [list(q) for q in case["pos"]]
    pel = list(case["pattern"]["elems"])
    k = len(pel)
    calls = []

    def snap(edits):
        c = dict(case, elems=list(elems), pos=[list(q) for q in pos],
                 pattern=dict(case["pattern"], elems=list(pel)))
        call = call_of(c, atol, (None, None, None), rng.random() < 0.8, rng.randrange(1 << 30), sobj=0, pobj=0, **style)
        call["type_table"], call["ptype_table"] = list(stab), list(ptab)
        call["edits"] = edits
        return call

    calls.append(snap([]))
    for _ in range(rng.randint(1, 3)):
        edits = []
        what = rng.choice(["atom_type", "atom_type", "atom_type", "type_element", "position", "pattern_type", "restore"])
        copy = rng.choice(case["planted"])
        j = rng.randrange(k)
        i = copy[j]
        if what == "atom_type":
            # one atom of a planted copy becomes another element (or a wrong-element decoy atom becomes right)
            wrong = [a for a in range(len(elems)) if any(a in grp for kd, grp in case["decoys"] if kd == "wrongelem")]
            if wrong and rng.random() < 0.3:
                i = rng.choice(wrong)
            new = rng.choice([e for e in stab if e != elems[i]])
            elems[i] = new
            edits.append({"target": "s", "kind": "atom_type", "i": i, "type": stab.index(new)})
        elif what == "type_element":
            # a whole type is renamed in the type table
            t = stab.index(elems[i])
            new = rng.choice([e for e in FOREIGN + JUNK + ["W", "Mo"] if e not in stab])
            for a in range(len(elems)):
                if elems[a] == stab[t]:
                    elems[a] = new
            stab[t] = new
            edits.append({"target": "s", "kind": "type_element", "type": t, "element": new})
        elif what == "position":
            step = [rng.choice([-1, 1]) * rng.uniform(3, 6) * atol for _ in range(3)]
            new = [pos[i][c] + step[c] for c in range(3)]
            fr = np.array(new).dot(np.linalg.inv(np.array(case["cell"], dtype=float)))
            if (fr >= 0).all() and (fr < 1).all():           # atoms stay inside the cell
                pos[i] = new
                edits.append({"target": "s", "kind": "position", "i": i, "pos": list(pos[i])})
        elif what == "pattern_type":
            new = rng.choice([e for e in ptab if e != pel[j]])
            pel[j] = new
            edits.append({"target": "p", "kind": "atom_type", "i": j, "type": ptab.index(new)})
        else:
            # put everything back the way it was generated
            for a in range(len(elems)):
                if elems[a] != case["elems"][a] and case["elems"][a] in stab:
                    elems[a] = case["elems"][a]
                    edits.append({"target": "s", "kind": "atom_type", "i": a, "type": stab.index(elems[a])})
            for a in range(len(pos)):
                if pos[a] != list(case["pos"][a]):
                    pos[a] = list(case["pos"][a])
                    edits.append({"target": "s", "kind": "position", "i": a, "pos": list(pos[a])})
        calls.append(snap(edits))
    for c in calls:
        c["info"]["seq"] = "edited"
    return calls


def random_sequence(rng):
    """a list of calls to be made IN ORDER in one process, re-using the SAME Atoms objects where the inputs are the same
    (`sobj` / `pobj` = object keys). Kinds:
      two-tols   : one structure, a large and a tiny tolerance alternately; the structure holds a copy whose bond is
                   s·tiny too long (inside the large tolerance, outside the tiny one)
      same-diag  : an orthorhombic cell, then a triclinic cell with the same diagonal, then the orthorhombic one again
      two-pats   : one structure holding copies of two patterns; pattern A, pattern B, pattern A
      two-structs: one pattern object on structures of different size / cell kind
      edited     : ONE structure and ONE pattern object, edited IN PLACE between the searches (`structure.atom_types[i] = t`,
                   `structure.atom_type_elements[k] = "X"`, `structure.positions[i] = …`, the same on the pattern); every
                   search is judged against the objects as they are at that moment (ground truth kept by the generator)"""
    kind = rng.choice(["two-tols", "two-tols", "same-diag", "same-diag", "two-pats", "two-structs", "edited", "edited", "edited"])
    if kind == "edited":
        return kind, edited_sequence(rng)
    names = [n for n in fl.PATTERNS if len(fl.PATTERNS[n][0]) >= 2]
    calls = []
    flag = lambda: rng.random() < 0.7
    if kind == "two-tols":
        pn = rng.choice(names)
        tiny, large = rng.choice(TINY_ATOLS[:3]), rng.choice([0.02, 0.05, 0.1])
        ck = rng.choice(["ortho", "tri+", "rot"])
        d = fl.diam(fl.pattern_json(pn)["pos"])
        while True:
            cell = fl.make_cell(rng, ck, max(7.0, 2.2 * d + 3))
            if wide_enough(cell, [pn], large):
                break
        case = empty_case(pn, cell, ck)
        plant(rng, case, tiny, ncopies=rng.randint(1, 2), boundary=rng.random() < 0.5)
        for _ in range(rng.randint(1, 2)):
            add_decoy(rng, case, "stretch", tiny)
        if not case["elems"]:
            plant(rng, case, tiny, ncopies=1)
        order = rng.choice([[large, tiny, large], [tiny, large, tiny], [large, tiny]])
        h = valid_hints(rng, case["pattern"])
        for a in order:
            calls.append(call_of(case, a, h, flag(), rng.randrange(1 << 30), sobj=0, pobj=0))
    elif kind == "same-diag":
        pn = rng.choice(names)
        atol = rng.choice(ALL_ATOLS)
        o, tri = ortho_and_tilted(rng, [pn], atol)
        cases = []
        for cell, ck in ((o, "ortho"), (tri, "tri")):
            c = empty_case(pn, cell, ck)
            plant(rng, c, atol, ncopies=rng.randint(1, 2), boundary=True)     # copies across faces: images matter
            add_decoy(rng, c, rng.choice(["stretch", "wrongelem", "mirror"]), atol)
            # atoms that would be a copy across a face under the OTHER cell of the pair (same diagonal): a search that
            # carries lattice data over from the previous call reports them
            other = tri if ck == "ortho" else o
            for _try in range(3):
                if add_ghost(rng, c, atol, lattice=[[float(v) for v in row] for row in other]):
                    break
            if not c["elems"]:
                plant(rng, c, atol, ncopies=1)
            cases.append(c)
        for which in rng.choice([[0, 1, 0], [1, 0, 1], [0, 1]]):
            calls.append(call_of(cases[which], atol, (None, None, None), flag(), rng.randrange(1 << 30), sobj=which, pobj=0))
    elif kind == "two-pats":
        pa, pb = rng.sample(names, 2)
        atol = rng.choice(ALL_ATOLS)
        ck = rng.choice(["ortho", "tri-", "rot"])
        d = max(fl.diam(fl.pattern_json(n)["pos"]) for n in (pa, pb))
        while True:
            cell = fl.make_cell(rng, ck, max(8.0, 2.2 * d + 4))
            if wide_enough(cell, [pa, pb], atol):
                break
        ca = empty_case(pa, cell, ck)
        plant(rng, ca, atol, ncopies=1, boundary=rng.random() < 0.5)
        add_decoy(rng, ca, "stretch", atol)
        # the copies of B go into the same atom list
        cb = empty_case(pb, cell, ck)
        cb["elems"], cb["pos"] = ca["elems"], ca["pos"]
        plant(rng, cb, atol, ncopies=1, boundary=rng.random() < 0.5)
        add_decoy(rng, cb, "stretch", atol)
        for c, po in rng.choice([[(ca, 0), (cb, 1), (ca, 0)], [(cb, 1), (ca, 0), (cb, 1)]]):
            calls.append(call_of(c, atol, valid_hints(rng, c["pattern"]), flag(), rng.randrange(1 << 30), sobj=0, pobj=po))
    else:
        pn = rng.choice(names)
        atol = rng.choice(ALL_ATOLS)
        h = valid_hints(rng, {"pos": [[float(x) for x in p] for p in fl.pattern_json(pn)["pos"]]})
        for si in range(rng.randint(2, 3)):
            ck = rng.choice(["ortho", "tri+", "tri-", "rot"])
            d = fl.diam(fl.pattern_json(pn)["pos"])
            while True:
                cell = fl.make_cell(rng, ck, max(7.0, 2.2 * d + 3))
                if wide_enough(cell, [pn], atol):
                    break
            c = empty_case(pn, cell, ck)
            plant(rng, c, atol, ncopies=rng.randint(0, 3), boundary=rng.random() < 0.5)
            add_decoy(rng, c, rng.choice(["stretch", "wrongelem", "mirror", "permuted", "merged"]), atol)
            if not c["elems"]:
                plant(rng, c, atol, ncopies=1)
            calls.append(call_of(c, atol, h, flag(), rng.randrange(1 << 30), sobj=si, pobj=0))
    for c in calls:
        c["info"]["seq"] = kind
    return kind, calls


def crossings(case):
    """largest number of cell faces a planted copy straddles"""
    cf = np.array(case["cell"], dtype=float)
    cinv = np.linalg.inv(cf)
    best = 0
    for g in case["planted"]:
        if len(g) < 2:
            continue
        f = np.array([case["pos"][i] for i in g]).dot(cinv)
        best = max(best, sum(1 for c in range(3) if f[:, c].max() - f[:, c].min() > 0.5))
    return best


# ------------------------------------------------------------------ other public ways to obtain the Atoms objects

ROUTES = ["types", "ase", "copy", "getitem"]      # besides the plain Atoms(elements=…, positions=…, cell=…)
PROUTES = ["types", "ase", "copy"]
JUNK = ["He", "Ne", "Ar", "Kr"]


def type_table(rng, elems):
    """a type table (unique elements, shuffled, with unused entries) for the explicit-types constructor"""
    tab = sorted(set(elems) | set(rng.sample(FOREIGN + JUNK, 2)))
    rng.shuffle(tab)
    return tab


def pick_routes(rng, case, route=None):
    """how the structure / pattern objects are obtained: the same atoms through other public constructors"""
    r = route or (rng.choice(ROUTES) if rng.random() < 0.4 else "elements")
    pr = rng.choice(PROUTES) if rng.random() < 0.3 else "elements"
    return {"route": r, "proute": pr, "type_table": type_table(rng, case["elems"]),
            "ptype_table": type_table(rng, case["pattern"]["elems"]), "route_seed": rng.randrange(1 << 30)}


def _atoms_via(route, elems, pos, cell, table, seed, integer=False):
    """an Atoms object holding exactly these atoms (in this order), obtained through the named public route.
    The caller's lists remain the ground truth; nothing is read back from the object."""
    import random as _random
    from mofun import Atoms
    elems = list(elems)
    dt = np.int64 if integer else float
    P = np.array(pos, dtype=dt).reshape(len(elems), 3)
    C = None if cell is None else np.array(cell, dtype=dt)
    with core.quiet():
        if route == "types":
            tab = list(table) if table else sorted(set(elems))
            return Atoms(atom_types=[tab.index(e) for e in elems], atom_type_elements=list(tab), atom_type_labels=list(tab),
                         positions=P, cell=C)
        if route == "ase":
            import ase
            if C is None:
                return Atoms.from_ase_atoms(ase.Atoms(elems, positions=P))
            return Atoms.from_ase_atoms(ase.Atoms(elems, positions=P, cell=C, pbc=True))
        if route == "copy":
            return Atoms(elements=elems, positions=P, cell=C).copy()
        if route == "getitem":
            # a larger object in another order, from which exactly these atoms are selected in this order
            r = _random.Random(seed)
            n = len(elems)
            order = list(range(n))
            r.shuffle(order)
            junk = r.randint(0, 3)
            big_e = [elems[i] for i in order] + [r.choice(JUNK) for _ in range(junk)]
            big_p = [P[i] for i in order] + [[r.uniform(0, 3) for _ in range(3)] for _ in range(junk)]
            big = Atoms(elements=big_e, positions=np.array(big_p, dtype=float), cell=C)
            where = {a: k for k, a in enumerate(order)}
            return big[[where[i] for i in range(n)]]
        return Atoms(elements=elems, positions=P, cell=C)


def build_structure(inp):
    return _atoms_via(inp.get("route", "elements"), inp["elems"], inp["pos"], inp["cell"], inp.get("type_table"),
                      inp.get("route_seed", 0), integer=inp.get("integer", False))


def build_pattern(inp):
    pat = inp["pattern"]
    return _atoms_via(inp.get("proute", "elements"), pat["elems"], pat["pos"], None, inp.get("ptype_table"),
                      inp.get("route_seed", 0) + 1, integer=inp.get("integer", False))


def true_elements(a):
    """per-atom elements straight from the stored types (never through an accessor)"""
    return [a.atom_type_elements[int(t)] for t in a.atom_types]


def apply_edit(obj, e):
    """an IN-PLACE edit of an Atoms object between two searches (the arrays stay the same objects)"""
    if e["kind"] == "atom_type":
        obj.atom_types[e["i"]] = e["type"]
    elif e["kind"] == "type_element":
        obj.atom_type_elements[e["type"]] = e["element"]
    elif e["kind"] == "position":
        obj.positions[e["i"]] = np.array(e["pos"], dtype=float)
    else:
        raise ValueError(e["kind"])


# ------------------------------------------------------------------ ghost copies under a MIS-READ cell

def alt_lattices(cell):
    """lattices a conversion could mistake the cell for: the same cell parameters in standard orientation (a along x, b in
    the xy plane), and the transpose (rows taken for columns)"""
    from ase.geometry import cellpar_to_cell, cell_to_cellpar
    L = np.array(cell, dtype=float)
    return {"std": np.array(cellpar_to_cell(cell_to_cellpar(L))), "transpose": L.T.copy()}


def add_ghost(rng, case, atol, which=None, lattice=None):
    """atoms that WOULD be a copy of the pattern across a cell face if the lattice were an alternative reading of the cell
    (`alt_lattices`), but are not one under the true lattice (verified: some pattern distance is clearly not reproduced
    by any periodic images). All atoms lie inside the true cell. A search working with a re-oriented / transposed cell
    reports them, with positions that are not stored position + true lattice vector."""
    pat = case["pattern"]
    k = len(pat["elems"])
    if k < 2:
        return False
    L = np.array(case["cell"], dtype=float)
    which = which or ("given" if lattice is not None else rng.choice(["std", "std", "transpose"]))
    La = np.array(lattice, dtype=float) if lattice is not None else alt_lattices(L)[which]
    if np.abs(La - L).max() < 0.45 or abs(np.linalg.det(La)) < 1e-6:
        return False                       # the same lattice: the "ghost" would be a genuine copy
    Li, Lai = np.linalg.inv(L), np.linalg.inv(La)
    P = np.array(pat["pos"], dtype=float)
    pd = np.linalg.norm(P[:, None, :] - P[None, :, :], axis=2)
    offs = np.array([[i, j, l] for i in range(-2, 3) for j in range(-2, 3) for l in range(-2, 3)], dtype=float).dot(L)
    ppos = [[Fraction(x).limit_denominator(10 ** 6) for x in p] for p in pat["pos"]]
    for _ in range(80):
        R = np.array([[float(v) for v in row] for row in fl.rotmat(fl.rat_quat(rng))])
        f = [rng.random() for _ in range(3)]
        f[rng.randrange(3)] = rng.choice([0.0, 0.01, 0.02, 0.98, 0.99, 0.999])
        X = P.dot(R.T) + np.array(f).dot(La)
        fa = X.dot(Lai)
        if len({tuple(r) for r in np.floor(fa).astype(int).tolist()}) < 2:
            continue                        # does not straddle a face of the alternative cell
        W = (fa - np.floor(fa)).dot(La)     # wrapped into the ALTERNATIVE cell
        ft = W.dot(Li)
        if not ((ft >= 0).all() and (ft < 1).all()):
            continue                        # must lie inside the TRUE cell as well
        if not _far_enough(list(W), case["pos"], L, Li, 1.6):
            continue
        # clearly NOT a copy under the true lattice
        worst = 0.0
        for a in range(k):
            for b in range(a):
                d = np.linalg.norm(W[a] - W[b] + offs, axis=1)
                worst = max(worst, np.abs(d - pd[a, b]).min())
        if worst < 6 * atol + 0.5:
            continue
        base = len(case["pos"])
        case["elems"].extend(pat["elems"])
        case["pos"].extend([[float(x) for x in v] for v in W])
        case["decoys"].append(("ghost", list(range(base, base + k))))
        case["info"].setdefault("extra", []).append("ghost:" + which)
        return True
    return False


# ------------------------------------------------------------------ integer-typed coordinates

fl.PATTERNS.setdefault("int3", (["C", "O", "N"], [(0, 0, 0), (1, 0, 0), (0, 2, 0)]))


def int_case(rng):
    """every coordinate an integer, handed over as INTEGER arrays: integer orthorhombic cell, axis-aligned poses, copies
    across faces, no perturbation"""
    cell = [[rng.randint(7, 11), 0, 0], [0, rng.randint(7, 11), 0], [0, 0, rng.randint(7, 11)]]
    case = empty_case("int3", cell, "ortho")
    case["info"]["boundary"] = "int"
    L = np.array(cell, dtype=float)
    pat = fl.pattern_json("int3")
    for _ in range(rng.randint(1, 3)):
        for _try in range(20):
            R = fl.rotmat(fl.rat_quat(rng, rng.choice(["identity", "axis90", "axis180"])))
            o = [rng.choice([0, 0, 1, cell[c][c] - 1, rng.randrange(cell[c][c])]) for c in range(3)]
            pts = [[int(fl.matvec(R, p)[c] + o[c]) % cell[c][c] for c in range(3)] for p in pat["pos"]]
            if _far_enough([np.array(q, dtype=float) for q in pts], case["pos"], L, np.linalg.inv(L), 1.5):
                base = len(case["pos"])
                case["elems"].extend(pat["elems"])
                case["pos"].extend([[float(x) for x in q] for q in pts])
                case["planted"].append(list(range(base, base + 3)))
                case["info"]["copies"] += 1
                break
    if rng.random() < 0.5:
        add_decoy(rng, case, "wrongelem", 0.0)
        case["pos"] = [[float(round(x)) for x in q] for q in case["pos"]]      # keep every coordinate an integer
    return case, 0.05, (None, None, None)


# ------------------------------------------------------------------ hints

def _off_axis(P, a, b, o):
    u = P[b] - P[a]
    v = P[o] - P[a]
    n = np.linalg.norm(u)
    if n == 0:
        return 0.0
    return float(np.linalg.norm(np.cross(u, v)) / n)


def valid_hints(rng, pattern):
    """(axisp1, axisp2, opoint) — None entries are left to the search. Valid = the two axis points are distinct places,
    the orientation point is a third atom clearly off the axis."""
    P = np.array(pattern["pos"], dtype=float)
    n = len(P)
    kind = rng.choice(["none", "none", "full", "axis", "p1", "p2", "p1+o", "o"])
    if kind == "none":
        return (None, None, None)
    if n == 1:
        return rng.choice([(0, None, None), (None, 0, None), (0, 0, None)])
    d2 = ((P[:, None, :] - P[None, :, :]) ** 2).sum(axis=2)

    def opoint(a, b):
        c = [o for o in range(n) if o not in (a, b) and _off_axis(P, a, b, o) > 0.3]
        return rng.choice(c) if c else None

    if kind in ("full", "axis"):
        a, b = rng.sample(range(n), 2)
        return (a, b, opoint(a, b) if kind == "full" else None)
    if kind in ("p1", "p2", "p1+o"):
        a = rng.choice([0, rng.randrange(n)])            # index 0 often: `x or y` mistakes treat it as missing
        b = int(np.argmax(d2[a]))                        # what the search will take as the second axis point
        o = opoint(a, b) if kind == "p1+o" else None
        return (a, None, o) if kind != "p2" else (None, a, None)
    # orientation point only: the axis is the first arg-max pair of squared distances
    a, b = [int(x) for x in np.unravel_index(np.argmax(d2), d2.shape)]
    return (None, None, opoint(a, b))
