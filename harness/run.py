"""./check <id> [--tier quick|thorough] [--replay FILE] — one property, one verdict (DESIGN.md §2, §5)."""
import argparse
import importlib
import json
import os
import random
import sys
import time
import traceback

from . import core, gen_tables, gen_code, findings, digests


class Timeout(Exception):
    pass


class Ctx:
    def __init__(self, prop, tier, seed):
        self.prop, self.tier, self.seed = prop, tier, seed
        self.rng = random.Random("%s-%s" % (prop, seed))
        self.t0 = time.time()
        self.budget_s = float(os.environ.get("VERIF_BUDGET_S", 0)) or None
        self.lean = core.Lean()
        self.evaluations = 0
        self.nontrivial = set()
        self.compared = 0            # results compared model vs implementation
        self.ambiguous = 0
        self.dist = {}               # input distribution counters
        self.samples = []
        self.disagreements = []      # model vs implementation
        self.failures = []           # property oracle failed on the real code
        self.exhaustive = False
        self.escalated = False       # anchored sources differ from the recorded digests: larger budget in the quick tier
        self.notes = []
        self.rule = ""

    # ---- bookkeeping used by property modules
    def quick(self):
        return self.tier == "quick"

    def n(self, quick, thorough):
        """case budget by tier (quick tier with changed sources: geometric mean of the two budgets)"""
        if self.tier != "quick":
            return thorough
        if self.escalated and isinstance(quick, int) and isinstance(thorough, int) and thorough > quick > 0:
            return min(thorough, max(quick, int(round((quick * thorough) ** 0.5))))
        return quick

    def count(self, key, k=1):
        self.dist[key] = self.dist.get(key, 0) + k

    def case(self, inp, nontrivial=True, sample_every=0):
        self.evaluations += 1
        if nontrivial:
            self.nontrivial.add(core.sha(inp))
        if len(self.samples) < 3 or (sample_every and self.evaluations % sample_every == 0 and len(self.samples) < 8):
            self.samples.append(_shorten(inp))

    def disagree(self, op, inp, impl, model, diff):
        self.disagreements.append({"op": op, "input": inp, "impl": impl, "model": model, "diff": diff})

    def fail(self, what, inp, observed=None, required=None, tags=()):
        """the property itself fails on the real code for this input"""
        self.failures.append({"what": what, "input": inp, "observed": observed, "required": required, "tags": list(tags)})

    def compare(self, op, inp, impl, model, numeric_tol=1e-9):
        """structural comparison of one implementation result with the model's"""
        self.compared += 1
        d = core.same(impl, model, tol=numeric_tol)
        if d:
            self.disagree(op, inp, impl, model, d)
        return d is None


def _shorten(x, limit=1500):
    s = json.dumps(x, default=str)
    if len(s) <= limit:
        return x
    return {"truncated": s[:limit] + "..."}


def write_replay(prop, rec):
    os.makedirs(core.REPLAYS, exist_ok=True)
    path = os.path.join(core.REPLAYS, "%s-%s.json" % (prop, core.sha(rec)))
    with open(path, "w") as f:
        json.dump(rec, f, indent=1, default=str)
    return os.path.relpath(path, core.VERIF)


def load_meta(prop):
    """lean/theorems/<ID>.json, extended by every fragment lean/theorems/extra/<ID>-*.json (additional modules and
    theorems contributed by later proof work: same keys `modules`, `theorems`, `stretch`, `trusted_base`, `assumptions`)"""
    import glob
    p = os.path.join(core.LEAN, "theorems", "%s.json" % prop)
    meta = json.load(open(p))
    for q in sorted(glob.glob(os.path.join(core.LEAN, "theorems", "extra", "%s-*.json" % prop))):
        frag = json.load(open(q))
        for k in ("modules", "theorems", "stretch", "trusted_base", "assumptions", "driver_modules"):
            for x in frag.get(k, []):
                if x not in meta.setdefault(k, []):
                    meta[k].append(x)
    return meta


def main(argv=None):
    ap = argparse.ArgumentParser()
    ap.add_argument("prop")
    ap.add_argument("--tier", default=os.environ.get("VERIF_TIER", "quick"), choices=["quick", "thorough"])
    ap.add_argument("--replay")
    ap.add_argument("--no-build", action="store_true", help="skip table regeneration, build and audit (debugging only)")
    args = ap.parse_args(argv)
    prop = args.prop
    seed = int(os.environ.get("VERIF_SEED", "0") or 0)
    t0 = time.time()
    mod = importlib.import_module("harness.props.%s" % prop.lower())
    meta = load_meta(prop)
    ctx = Ctx(prop, args.tier, seed)
    ctx.lean = core.Lean(meta.get("driver", "drivers/Topo.lean"))
    changed = digests.changed_files(prop)
    if changed and os.environ.get("VERIF_NO_ESCALATE") != "1":
        ctx.escalated = True
        ctx.notes.append("sources changed since the model was last validated against them: %s -> larger case budget" % ", ".join(changed))

    if args.replay:
        rec = json.load(open(args.replay))
        ok = mod.replay(ctx, rec)
        if ok:
            print("replay: property holds on this input now")
            return 0
        print("VIOLATION property=%s replay=%s" % (prop, args.replay))
        return 1

    theorems = [t["name"] for t in meta["theorems"]]
    proof = {"built": True, "failed_modules": [], "audit": {}, "scan": [], "log": ""}
    if not args.no_build:
      # regenerate + build + audit form one critical section: concurrent checks (possibly against different copies of the
      # sources) must not interleave their generated files
      with core.generated_lock():
        # 1. translator: regenerate the tables AND the translated functions from the current sources
        try:
            gen_tables.regenerate()
            gen_code.regenerate()
        except Exception as e:  # the sources no longer parse the way the translator expects
            proof["built"] = False
            proof["log"] = "translator (gen_tables / gen_code) failed: %r" % (e,)
        # 2. build the model, the drivers and this property's theorems
        if proof["built"]:
            b = core.lake_build(list(meta["modules"]) + list(meta.get("driver_modules", [])))
            proof["built"] = b.ok
            proof["failed_modules"] = b.failed
            proof["log"] = b.log[-3000:] if not b.ok else ""
        # 3. audit
        if proof["built"]:
            proof["audit"] = core.audit(prop, theorems, meta["modules"])
            proof["scan"] = core.scan_sources(list(meta["modules"]) + list(meta.get("driver_modules", [])))
            if args.tier == "thorough":
                # independent re-check of the compiled theorems by the toolchain's kernel re-checker
                rc, out = core.leanchecker(list(meta["modules"]))
                proof["leanchecker"] = {"rc": rc, "tail": out[-500:]}
                if rc != 0:
                    proof["scan"].append("leanchecker failed: " + out[-300:])
    discharged = [t for t in theorems if proof["built"] and proof["audit"].get(t, {}).get("ok") and not proof["scan"]] \
        if not args.no_build else []
    proof_ok = args.no_build or (len(discharged) == len(theorems))

    # 4/5. correspondence + property oracle on the real code
    driver_ok = True
    try:
        if proof["built"] or args.no_build:
            mod.run(ctx)
        else:
            driver_ok = False
            if hasattr(mod, "search"):
                mod.search(ctx)
    except Timeout:
        print("TIMEOUT property=%s" % prop)
        return 2
    except Exception:
        driver_ok = False
        ctx.notes.append("harness exception: " + traceback.format_exc()[-1500:])

    # 6. verdict
    known = findings.active(prop)
    unknown_failures, hit = [], {}
    for f in ctx.failures:
        k = findings.match(known, f)
        if k is None:
            unknown_failures.append(f)
        else:
            hit.setdefault(k["id"], k)
    for k in hit.values():
        print("KNOWN-FINDING: property=%s %s" % (prop, k["what_fails"]))

    rc = 0
    tie_ok = driver_ok and not ctx.disagreements
    if unknown_failures:
        f = unknown_failures[0]
        path = write_replay(prop, {"property": prop, "kind": "violation", "seed": seed, "tier": args.tier, **f})
        print("VIOLATION property=%s replay=%s" % (prop, path))
        rc = 1
    elif not proof_ok or not tie_ok:
        # the property is no longer shown to hold: search the real code for a failing input
        found = None
        if hasattr(mod, "search") and (proof["built"] or args.no_build):
            before = len(ctx.failures)
            try:
                mod.search(ctx)
            except Exception:
                ctx.notes.append("search exception: " + traceback.format_exc()[-800:])
            for f in ctx.failures[before:]:
                if findings.match(known, f) is None:
                    found = f
                    break
        if found:
            path = write_replay(prop, {"property": prop, "kind": "violation", "seed": seed, "tier": args.tier, **found})
            print("VIOLATION property=%s replay=%s" % (prop, path))
        else:
            broken = {}
            if not proof_ok:
                broken["theorems_not_checked"] = [t for t in theorems if t not in discharged]
                broken["build_log"] = proof["log"]
                broken["audit"] = {t: a for t, a in proof["audit"].items() if not a["ok"]}
                broken["scan"] = proof["scan"]
            if ctx.disagreements:
                d = ctx.disagreements[0]
                broken["correspondence"] = {"op": d["op"], "diff": d["diff"], "input": d["input"],
                                            "impl": d["impl"], "model": d["model"]}
                broken["disagreements"] = len(ctx.disagreements)
            if not driver_ok:
                broken["harness"] = ctx.notes
            path = write_replay(prop, {"property": prop, "kind": "unchecked", "seed": seed, "tier": args.tier,
                                       "what": "proof obligation or correspondence no longer checks; no failing input found",
                                       **broken})
            print("VIOLATION property=%s replay=%s no-failing-input-found" % (prop, path))
        rc = 1

    # evidence
    os.makedirs(core.EVIDENCE, exist_ok=True)
    ev = {
        "property_id": prop, "tier": args.tier, "seed": seed, "level": "proof",
        "coverage": {
            "obligations": len(theorems), "discharged": len(discharged),
            "checker_cmd": "cd lean && lake build %s && lake env lean .lake/audit/Audit_%s.lean  (#print axioms per theorem; source scan for sorry/axiom/native_decide)" % (" ".join(meta["modules"]), prop),
            "trusted_base": meta.get("trusted_base", []) + ["Lean 4.33.0 kernel", "axioms allowed: propext, Classical.choice, Quot.sound",
                                                            "harness/gen_tables.py (tables translator)", "harness correspondence check + oracle (python)"],
            "theorems": [{"name": t["name"], "status": t.get("status", "full"), "note": t.get("note", ""),
                          "axioms": proof["audit"].get(t["name"], {}).get("axioms"),
                          "checked": t["name"] in discharged} for t in meta["theorems"]],
            "stretch_not_proved": meta.get("stretch", []),
            "evaluations": ctx.evaluations, "distinct_nontrivial": len(ctx.nontrivial),
            "rule": ctx.rule or meta.get("rule", ""),
            "samples": ctx.samples or [{"note": "no cases ran"}],
            "traces_validated_against_impl": ctx.compared,
            "disagreements": len(ctx.disagreements),
            "ambiguous_skipped": ctx.ambiguous,
            "input_distribution": ctx.dist,
            "lean_lines": ctx.lean.lines,
            "exhaustive": bool(ctx.exhaustive),
            "source_changed": changed,
            "known_findings_hit": sorted(hit),
            "leanchecker": proof.get("leanchecker"),
            "notes": ctx.notes,
        },
        "assumptions": meta.get("assumptions", []),
        "wall_s": round(time.time() - t0, 2),
        "violations": 0 if rc == 0 else 1,
    }
    with open(os.path.join(core.EVIDENCE, "%s.json" % prop), "w") as f:
        json.dump(ev, f, indent=1, default=str)
    if rc == 0:
        print("OK property=%s tier=%s theorems=%d/%d cases=%d compared=%d wall=%.1fs" %
              (prop, args.tier, len(discharged), len(theorems), ctx.evaluations, ctx.compared, time.time() - t0))
    return rc


if __name__ == "__main__":
    sys.exit(main())
