"""Generators for the replacement properties C04 / C07: search/replacement pattern pairs (replacement empty, smaller,
equal size, larger; with and without shared atoms), structures with planted occurrences (findlib.planted_structure),
fractions, flags; and the independent bookkeeping the oracles need (which atoms the two patterns share, computed from
the pattern texts alone: same element and the same coordinates)."""
from fractions import Fraction

from . import core, findlib as fl

NEW_ELEMENTS = ["Si", "P", "S", "Zr", "Cu", "Zn", "B", "Cl"]
FRACTIONS = [0.0, 0.1, 0.25, 0.5, 0.75, 1.0]
F_WEIGHTED = [0.0, 0.1, 0.25, 0.25, 0.5, 0.5, 0.5, 0.75, 0.75, 0.75, 1.0, 1.0, 1.0, 1.0]
MODES = ["empty", "smaller", "equal", "larger"]
NUDGE = Fraction(1, 1024)          # unit of displacement (x1..30: 0.001 .. 0.03 A): above the 1e-5 identification threshold, below atol


def fr(v):
    """the exact value of a float / int / "n/d" string"""
    return v if isinstance(v, Fraction) else Fraction(v)


def make_replacement(rng, pelems, ppos, mode=None, shared=None, struct_elems=()):
    """a replacement pattern derived from the search pattern.

    mode: empty | smaller | equal | larger (number of atoms relative to the search pattern)
    shared: True = at least one atom identical (element + coordinates) to a search atom, False = none, None = random.
    Returns (elems, pos(Fractions), info). Atoms that are meant to be shared are copied verbatim; atoms that are not
    differ from every search atom in element or by >= 1/1024 A in position; no two replacement atoms coincide."""
    n = len(pelems)
    mode = mode or rng.choice(MODES)
    if mode == "smaller" and n < 2:
        mode = "equal"
    if mode == "empty":
        return [], [], {"mode": "empty", "shared": 0}
    if shared is None:
        shared = rng.random() < 0.6
    P = [[fr(v) for v in p] for p in ppos]
    pool = NEW_ELEMENTS + list(struct_elems)

    def changed(j):
        """search atom j, made different: other element at the same place, or same element nudged, or both"""
        how = rng.choice(["elem", "elem", "nudge", "both"])
        e = pelems[j]
        x = list(P[j])
        if how in ("elem", "both"):
            e = rng.choice([c for c in pool if c != pelems[j]])
        if how in ("nudge", "both"):
            k = rng.randrange(3)
            x[k] = x[k] + rng.choice([1, -1]) * NUDGE * rng.choice([1, 2, 3, 4, 10, 16, 20, 24, 30])
        return e, x

    keep = list(range(n))
    if mode == "smaller":
        keep = sorted(rng.sample(range(n), rng.randint(1, n - 1)))
    flags = [shared and rng.random() < 0.6 for _ in keep]
    if shared and not any(flags):
        flags[rng.randrange(len(flags))] = True
    elems, pos, nshared = [], [], 0
    for j, sh in zip(keep, flags):
        if sh:
            elems.append(pelems[j])
            pos.append(list(P[j]))
            nshared += 1
        else:
            e, x = changed(j)
            elems.append(e)
            pos.append(x)
    if mode == "larger":
        lo = [min(p[k] for p in P) for k in range(3)]
        hi = [max(p[k] for p in P) for k in range(3)]
        for _ in range(rng.randint(1, 3)):
            for attempt in range(50):
                x = [Fraction(rng.randint(int((lo[k] - 1) * 8), int((hi[k] + 1) * 8)), 8) for k in range(3)]
                if all(sum((x[k] - q[k]) ** 2 for k in range(3)) >= Fraction(49, 100) for q in P + pos):
                    elems.append(rng.choice(pool))
                    pos.append(x)
                    break
    order = list(range(len(elems)))
    rng.shuffle(order)
    elems = [elems[i] for i in order]
    pos = [pos[i] for i in order]
    return elems, pos, {"mode": mode, "shared": nshared}


def shared_pairs(relems, rpos, pelems, ppos):
    """the atoms common to both patterns, from the property text: same element and the same coordinates.
    Returns {replacement index: search index}. (The generators only produce exact coincidences or displacements of
    >= 1/1024 A, so no threshold is involved.)"""
    out = {}
    for i, (e, x) in enumerate(zip(relems, rpos)):
        for j, (pe, px) in enumerate(zip(pelems, ppos)):
            if e == pe and all(core.unq(a) == core.unq(b) for a, b in zip(x, px)):
                out[i] = j
                break
    return out


def pattern_json(elems, pos, charges=None, groups=None, label_suffix=None):
    j = fl.struct_json(list(elems), [[fr(v) for v in p] for p in pos], None, charges=charges, groups=groups)
    if label_suffix:
        j["types"]["label"] = [e + label_suffix for e in j["types"]["elem"]]
    return j


def structure_json(rng, case, relabel=None):
    """canonical JSON of a planted structure: UNIQUE charges (the atoms' identity tags), random groups, and for some
    structures type labels that differ from the element names"""
    n = len(case["elems"])
    sj = fl.struct_json(case["elems"], case["pos"], case["cell"], charges=[i + 1 for i in range(n)],
                        groups=[rng.randint(0, 3) for _ in range(n)])
    if relabel if relabel is not None else rng.random() < 0.5:
        sj["types"]["label"] = ["%s_%d" % (e, i + 1) for i, e in enumerate(sj["types"]["elem"])]
    return sj


def unwrap_some(rng, case, atol, matched=None, far=False):
    """give the periodic structure partly UNWRAPPED coordinates: add 1-2 bystander atoms (noble gases) lying slightly
    outside the cell, and (matched=True / at random) move atoms of the planted copies that sit close to a face to the
    equivalent position just outside the opposite face.  Every displacement out of the cell is <= 0.4 A and below 80 % of
    the search length (pattern diameter + 2 atol): a legitimate description of the same crystal that the library
    handles.  far=True additionally (i) gives whole planted copies shifted by ONE or TWO lattice vectors (the same
    crystal) and (ii) puts bystanders up to 1.6 cell widths outside.  Every planted copy must still be found: the
    caller records them as expectation by construction.  Returns the number of atoms now outside [0, L)."""
    import numpy as np
    cellf = np.array(case["cell"], dtype=float)
    cinv = np.linalg.inv(cellf)
    w = fl.perp_widths(case["cell"])
    maxd = min(0.4, 0.8 * (fl.diam(case["pattern"]["pos"]) + 2 * atol))
    n_out = 0
    pos = [np.array(v, dtype=float) for v in case["pos"]]
    if matched if matched is not None else rng.random() < 0.5:
        # (until /repo 517adff a copy whose first atom - the search's starting atom - lay further out than 2 atol could
        # be missed; since that repair every atom may lie outside by the full amount)
        lim = {}
        for grp in case["planted"]:
            for i in grp:
                lim[i] = maxd
        for i in sorted(lim):
            f = pos[i].dot(cinv)
            moved = False
            for k in range(3):
                if rng.random() < 0.6:
                    if (1.0 - f[k]) * w[k] <= lim[i]:
                        f[k] -= 1.0
                        moved = True
                    elif f[k] * w[k] <= lim[i]:
                        f[k] += 1.0
                        moved = True
            if moved:
                pos[i] = f.dot(cellf)
                n_out += 1
    if far:
        for grp in case["planted"]:
            if rng.random() < 0.25:
                shift = np.zeros(3)
                shift[rng.randrange(3)] = rng.choice([1.0, -1.0, 1.0, -1.0, 2.0, -2.0])
                for i in grp:
                    pos[i] = pos[i] + shift.dot(cellf)
                    n_out += 1
    for _ in range(rng.randint(1, 2)):
        for attempt in range(60):
            f = np.array([rng.random() for _ in range(3)])
            for k in rng.sample(range(3), rng.choice([1, 1, 2])):
                d = (rng.uniform(0.4, 1.6 * w[k]) if (far and rng.random() < 0.4) else rng.uniform(0.02, maxd)) / w[k]
                f[k] = -d if rng.random() < 0.5 else 1.0 + d
            v = f.dot(cellf)
            ok = True
            for qpt in pos:
                dv = (v - qpt).dot(cinv)
                dv -= np.round(dv)
                if np.linalg.norm(dv.dot(cellf)) < 2.2:
                    ok = False
                    break
            if ok:
                case["elems"].append(rng.choice(["Ar", "Kr", "Xe", "Ne"]))
                pos.append(v)
                n_out += 1
                break
    case["pos"] = [[float(x) for x in v] for v in pos]
    return n_out


EMPTY_KINDS = ["plain", "plain", "deleted-search", "tables", "tables+coeffs"]


def empty_by_deletion(rj_src):
    """the real EMPTY Atoms object obtained from a non-empty one by deleting every atom with `del`: zero atoms, but the
    atom type tables (and any coefficient tables) are still there.  (core.atoms_from_json cannot build such an object
    from its JSON: it drops the tables of zero-atom objects.)"""
    r = core.atoms_from_json(rj_src)
    with core.quiet():
        del r[list(range(len(r)))]
    return r


def empty_replacement(rng, pj, kind=None):
    """an EMPTY replacement of one of several kinds. Returns (rj, rj_src, kind): rj = canonical JSON of the empty
    object (what the oracle and the model see), rj_src = None for a plain `Atoms()` or the non-empty JSON from which the
    runner must rebuild the real object with `empty_by_deletion` (the marker that makes a replay reconstruct it).
      plain          : Atoms() - no atoms, no tables
      deleted-search : a copy of the search pattern with all atoms deleted (its type tables remain)
      tables         : zero atoms + element / label / mass tables of other elements
      tables+coeffs  : the same + pair coefficients and a bond coefficient table"""
    import copy
    kind = kind or rng.choice(EMPTY_KINDS)
    if kind == "plain":
        return pattern_json([], []), None, kind
    if kind == "deleted-search":
        src = copy.deepcopy(pj)
    else:
        els = rng.sample(NEW_ELEMENTS, rng.randint(1, 3))
        src = pattern_json(els, [[Fraction(3 * i, 2), 0, 0] for i in range(len(els))], label_suffix=rng.choice([None, "_e"]))
        if kind == "tables+coeffs":
            src["types"]["pair"] = ["%s 0.1 3.%d" % ("lj/cut", i) for i in range(len(els))]
            src["types"]["bond"] = ["100.0 1.5"]
            if len(els) >= 2:
                src["terms"]["bond"] = [{"a": [0, 1], "ty": 0, "x": []}]
    rj = core.canon_atoms(empty_by_deletion(src))
    return rj, src, kind


SPARE_ELEMENTS = ["He", "Li", "Be", "Na", "Mg", "Al"]
ATOLS = [0.05, 0.05, 0.05, 0.05, 0.02, 0.1, 0.2]


def add_spare_types(rng, sj, where="end"):
    """declare 1-2 atom types that no atom uses (as a LAMMPS data file may, or as an earlier replacement that replaced
    nothing leaves behind) at the END of the type tables"""
    from mofun.atomic_masses import ATOMIC_MASSES
    for _ in range(rng.randint(1, 2)):
        e = rng.choice([x for x in SPARE_ELEMENTS if x not in sj["types"]["elem"]] or SPARE_ELEMENTS)
        sj["types"]["elem"].append(e)
        sj["types"]["label"].append(e + "_spare")
        sj["types"]["mass"].append(core.q(ATOMIC_MASSES[e]))
    return sj


def add_extra_columns(rng, sj, rj):
    """extra per-atom / per-bond columns (as a CIF-loaded object carries, e.g. _atom_site_occupancy): on the replacement
    pattern columns the structure LACKS, optionally also an own column on the structure.  Returns a short description."""
    what = []
    n = len(rj["atoms"])
    if n and rng.random() < 0.8:
        labels = rng.choice([["_atom_site_occupancy"], ["_atom_site_occupancy", "_atom_site_note"], ["_note"]])
        rj["xlabels"]["atom"] = list(labels)
        for i, a in enumerate(rj["atoms"]):
            a["x"] = ["%s%d" % (l[-3:], i) for l in labels]
        what.append("r-atom%d" % len(labels))
    if n >= 2 and rng.random() < 0.4:
        i, j = rng.sample(range(n), 2)
        rj["terms"]["bond"] = [{"a": [i, j], "ty": 0, "x": ["1.54"]}]
        rj["xlabels"]["bond"] = ["_geom_bond_distance"]
        if rng.random() < 0.5:
            rj["types"]["bond"] = ["100.0 1.54"]
        what.append("r-bond")
    if rng.random() < 0.35:
        sj["xlabels"]["atom"] = ["_site_tag"]
        for i, a in enumerate(sj["atoms"]):
            a["x"] = ["s%d" % i]
        what.append("s-atom")
    return "+".join(what)


def random_case(rng, mode=None, shared=None, f=None, replace_all=None, pname=None, cell_kind=None, ncopies=None, unwrapped=None,
                atol=None, hints=None, return_num=None, spare=None, case=None, expect=None, extras=None, via_copy=None):
    """one C04 case: dict(sj, pj, rj, atol, f, replace_all, ignore, seed, hints, return_num, info)"""
    pname = pname or rng.choice([k for k in fl.PATTERNS])
    atol = atol if atol is not None else rng.choice(ATOLS)
    boundary = rng.choice([None, None, "face", "corner"])
    if case is None:
        case = fl.planted_structure(rng, pname=pname, cell_kind=cell_kind, ncopies=ncopies if ncopies is not None else rng.choice([1, 2, 3, 3, 4, 4, 5, 5]),
                                    atol=atol, decoys=rng.random() < 0.5, boundary=boundary)
    else:
        boundary = case["info"].get("boundary")
    n_out = 0
    if unwrapped if unwrapped is not None else rng.random() < 0.4:
        n_out = unwrap_some(rng, case, atol, far=(expect is None and rng.random() < 0.5))
        if expect is None and case["planted"]:
            # unwrapped coordinates describe the same crystal: every planted copy must be among the matches
            expect = {"in": [sorted(grp) for grp in case["planted"]], "out": []}
    pe, pp = case["pattern"]["elems"], case["pattern"]["pos"]
    relems, rpos, rinfo = make_replacement(rng, pe, pp, mode=mode, shared=shared, struct_elems=sorted(set(case["elems"])))
    sj = structure_json(rng, case)
    pj = pattern_json(pe, pp)
    rj = pattern_json(relems, rpos, charges=[1000 + i for i in range(len(relems))],
                      groups=[rng.randint(4, 6) for _ in relems], label_suffix=rng.choice([None, "_r"]))
    rj_src = None
    if not relems:
        rj, rj_src, ekind = empty_replacement(rng, pj)
        rinfo = dict(rinfo, empty_kind=ekind)
    if rng.random() < 0.15:
        # patterns that carry a cell of their own (as loaded from a CIF); it must play no role
        for j, edge in ((pj, rng.randint(8, 20)), (rj, rng.randint(8, 20))):
            if j["atoms"]:
                j["cell"] = [[core.q(edge if a == b else 0) for b in range(3)] for a in range(3)]
        rinfo = dict(rinfo, pattern_cells=True)
    xinfo = add_extra_columns(rng, sj, rj) if (extras if extras is not None else rng.random() < 0.3) else ""
    if xinfo:
        rinfo = dict(rinfo, extras=xinfo)
    if f is None:
        f = rng.choice(F_WEIGHTED) if rng.random() < 0.7 else round(rng.random(), rng.choice([2, 3, 6]))
    if replace_all is None:
        replace_all = rng.random() < 0.3
    if spare if spare is not None else rng.random() < 0.2:
        add_spare_types(rng, sj)
        rinfo = dict(rinfo, spare_types=True)
    if hints is None:
        from . import gen_find_c01
        hints = gen_find_c01.valid_hints(rng, case["pattern"]) if rng.random() < 0.25 else (None, None, None)
    if return_num is None:
        return_num = rng.random() >= 0.15
    info = dict(case["info"], boundary=boundary, outside=n_out, **rinfo)
    return {"op": "replace-c04", "sj": sj, "pj": pj, "rj": rj, "atol": atol, "f": f, "replace_all": bool(replace_all),
            "ignore": False, "seed": rng.randrange(1 << 30), "hints": [None if h is None else int(h) for h in hints],
            "return_num": bool(return_num), "rj_src": rj_src,
            "via_copy": bool(rng.random() < 0.3 if via_copy is None else via_copy), "np_args": bool(rng.random() < 0.25), "info": info, **({"expect": expect} if expect else {})}


def atomless_case(rng):
    """a periodic structure WITHOUT atoms (just a cell): nothing can be found, nothing may change, nothing may raise"""
    pname = rng.choice(list(fl.PATTERNS))
    pat = fl.pattern_json(pname)
    ck = rng.choice(["ortho", "tri+", "tri-", "rot"])
    cell = [[float(v) for v in row] for row in fl.make_cell(rng, ck, 8.0)]
    case = {"elems": [], "pos": [], "cell": cell, "planted": [],
            "pattern": {"elems": pat["elems"], "pos": [[float(x) for x in q] for q in pat["pos"]], "name": pname},
            "info": {"cell": ck, "pattern": pname, "copies": 0, "decoys": [], "boundary": None, "atomless": True}}
    return random_case(rng, pname=pname, case=case, unwrapped=False, extras=False, spare=False, hints=(None, None, None))


def distorted_case(rng, regime=None, **kw):
    """a case that separates the CALLER's tolerance from the search's default 0.05: non-default atol together with
    planted copies in which ONE atom is displaced radially (along the line from another atom of the copy, so that this
    one interatomic distance changes by exactly delta) by
      loose: atol in {.2,.25,.3},  delta in [0.10, atol/2]   -> clearly WITHIN the requested tolerance (margin 2x) yet
                                                                clearly outside 0.05 (margin 2x)
      tight: atol in {.01,.02},    delta = 2 .. 2.5 x atol   -> clearly OUTSIDE the requested tolerance yet below 0.05
    The other copies are exact up to the usual atol/8 jitter.  `expect` = {"in": groups that must be among the matches,
    "out": groups that must not}: an expectation that depends on the construction only."""
    import numpy as np
    regime = regime or rng.choice(["loose", "tight"])
    if regime == "loose":
        atol = rng.choice([0.2, 0.25, 0.3])
        lo, hi = 0.10, atol / 2
    else:
        atol = rng.choice([0.01, 0.02])
        lo, hi = 2.0 * atol, 2.5 * atol if atol == 0.01 else 0.045
    pname = rng.choice([k for k in fl.PATTERNS if len(fl.PATTERNS[k][0]) >= 2])
    boundary = rng.choice([None, None, "face", "corner"])
    case = fl.planted_structure(rng, pname=pname, ncopies=rng.choice([2, 3, 3, 4]), atol=atol, decoys=False, boundary=boundary)
    case["info"]["boundary"] = boundary
    cellf = np.array(case["cell"], dtype=float)
    cinv = np.linalg.inv(cellf)
    groups = [sorted(grp) for grp in case["planted"]]
    ndist = rng.randint(1, len(groups)) if regime == "loose" else rng.randint(1, max(1, len(groups) - 1))
    chosen = rng.sample(range(len(groups)), ndist)
    pos = [np.array(v, dtype=float) for v in case["pos"]]
    deltas = []
    for ci in chosen:
        grp = groups[ci]
        k, j = rng.sample(grp, 2)
        dv = (pos[k] - pos[j]).dot(cinv)
        dv -= np.round(dv)
        dv = dv.dot(cellf)
        delta = rng.uniform(lo, hi)
        v = pos[k] + delta * dv / np.linalg.norm(dv)
        fr = v.dot(cinv) % 1.0
        fr[fr >= 1.0] = 0.0
        pos[k] = fr.dot(cellf)
        deltas.append(round(delta, 4))
    case["pos"] = [[float(x) for x in v] for v in pos]
    case["info"]["distorted"] = {"regime": regime, "deltas": deltas}
    dist = [groups[ci] for ci in chosen]
    rest = [grp for i, grp in enumerate(groups) if i not in chosen]
    expect = {"in": (dist + rest) if regime == "loose" else rest, "out": [] if regime == "loose" else dist}
    kw.setdefault("f", rng.choice([1.0, 1.0, 1.0, 0.5, 0.75]))
    kw.setdefault("mode", rng.choice(["empty", "smaller", "equal", "larger", "larger"]))
    return random_case(rng, pname=pname, atol=atol, case=case, expect=expect, hints=(None, None, None), **kw)


def second_step(rng, inp1, res1, mode=None):
    """the follow-up replacement of a two-step history: the structure is the RESULT of the first call (re-tagged with
    unique charges so that the oracle can recognise every atom), the search pattern is the same, the replacement a
    fresh one (labels '_2', charges 2000+)"""
    import copy
    sj = copy.deepcopy(res1)
    for i, a in enumerate(sj["atoms"]):
        a["q"] = core.q(i + 1)
    pj = inp1["pj2"] if "pj2" in inp1 else inp1["pj"]
    pe = [pj["types"]["elem"][a["ty"]] for a in pj["atoms"]]
    pp = [[core.unq(v) for v in a["pos"]] for a in pj["atoms"]]
    selems = sorted(set(sj["types"]["elem"][a["ty"]] for a in sj["atoms"]))
    relems, rpos, rinfo = make_replacement(rng, pe, pp, mode=mode or rng.choice(["smaller", "equal", "larger", "larger"]),
                                           struct_elems=selems)
    rj = pattern_json(relems, rpos, charges=[2000 + i for i in range(len(relems))], groups=[rng.randint(7, 9) for _ in relems],
                      label_suffix="_2")
    info = dict(inp1["info"], **rinfo)
    info["step"] = 2
    info["step1"] = inp1["info"].get("step1kind", "?")
    # a first step that replaced nothing leaves every atom in place: the planted copies are still expected
    exp2 = (inp1.get("expect2") or inp1.get("expect")) if info["step1"] in ("absent", "f0") else None
    return {**({"expect": exp2} if exp2 else {}), "op": "replace-c04", "sj": sj, "pj": pj, "rj": rj, "atol": inp1["atol"],
            "f": rng.choice([1.0, 1.0, 1.0, 0.5, 0.75]), "replace_all": bool(rng.random() < 0.25), "ignore": False,
            "seed": rng.randrange(1 << 30), "hints": [None, None, None], "return_num": bool(rng.random() >= 0.15), "info": info}


def first_step(rng):
    """step 1 of a two-step history: a replacement that replaces nothing (fraction 0 / search pattern absent) or only
    some matches (fraction 0.5), with a NON-empty replacement so that its types are appended to the tables"""
    kind = rng.choice(["f0", "f0", "absent", "absent", "half"])
    inp = random_case(rng, mode=rng.choice(["smaller", "equal", "larger"]), f={"f0": 0.0, "absent": 1.0, "half": 0.5}[kind],
                      spare=False)
    inp["info"]["step"] = 1
    inp["info"]["step1kind"] = kind
    if kind == "absent":
        # search for something that is not there; step 2 looks for the planted pattern
        inp["pj2"] = inp["pj"]
        if "expect" in inp:
            inp["expect2"] = inp.pop("expect")      # the planted copies are what step 2 looks for
        e = rng.choice([x for x in SPARE_ELEMENTS if x not in inp["sj"]["types"]["elem"]])
        inp["pj"] = pattern_json([e, e], [[0, 0, 0], [Fraction(3, 2), 0, 0]])
        inp["hints"] = [None, None, None]
    return inp
