"""Known findings (DESIGN.md Appendix D). Read-only at run time.

An entry of kind "known" suppresses the VIOLATION for a failing input only if its named predicate holds for that
failure record; entries of kind "fixed" are documentation and suppress nothing."""
from . import core

PREDICATES = {}


def predicate(name):
    def deco(fn):
        PREDICATES[name] = fn
        return fn
    return deco


def active(prop):
    return [k for k in core.load_findings() if k.get("kind") == "known" and k.get("property") == prop]


def match(known, failure):
    for k in known:
        pred = k.get("predicate") or ""
        if pred.startswith("tag:"):
            # the oracle attributes the failure to this specific defect by attaching exactly this tag
            if pred[4:] in failure.get("tags", []):
                return k
            continue
        fn = PREDICATES.get(pred)
        if fn is not None:
            try:
                if fn(failure):
                    return k
            except Exception:
                pass
    return None


@predicate("c06_pair_coeffs_missing_in_structure")
def _c06_pair(failure):
    """structure has atom types but an empty pair-coefficient table, the pattern has pair coefficients"""
    return "pair-coeffs-structure-without-table" in failure.get("tags", [])


@predicate("c20_framework_element")
def _c20_fw(failure):
    return "framework-element" in failure.get("tags", [])
