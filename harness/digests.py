"""Digests of the modelled Python sources. A check whose anchored files differ from the digests recorded when the
model was last validated against them (source_digests.json, committed) runs its correspondence and oracle with a larger
case budget: the tie has to be re-established more thoroughly for code the model has not yet been compared with.
Soundness does not depend on this; it only deepens the search exactly when the code changed.
  python -m harness.digests --update     re-record the digests of the current /repo sources"""
import ast
import hashlib
import json
import os
import sys

from . import core

PATH = os.path.join(core.VERIF, "source_digests.json")


def _strip_docstrings(tree):
    for node in ast.walk(tree):
        if isinstance(node, (ast.FunctionDef, ast.AsyncFunctionDef, ast.ClassDef, ast.Module)):
            b = node.body
            if b and isinstance(b[0], ast.Expr) and isinstance(getattr(b[0], "value", None), ast.Constant) and isinstance(b[0].value.value, str):
                node.body = b[1:] or [ast.Pass()]
    return tree


def file_digest(path):
    try:
        tree = _strip_docstrings(ast.parse(open(path).read()))
        return hashlib.sha1(ast.dump(tree, annotate_fields=False).encode()).hexdigest()
    except (OSError, SyntaxError) as e:
        return "unreadable:%s" % type(e).__name__


def anchors(prop):
    for line in open(os.path.join(core.VERIF, "properties.jsonl")):
        p = json.loads(line)
        if p["id"] == prop:
            return list(p["anchors"]["files"])
    return []


def changed_files(prop, repo=None):
    """anchored files of the property whose abstract syntax differs from the recorded one"""
    repo = repo or core.REPO
    rec = json.load(open(PATH)) if os.path.exists(PATH) else {}
    return [f for f in anchors(prop) if file_digest(os.path.join(repo, f)) != rec.get(f)]


def update():
    out = {}
    base = os.path.join(core.REPO, "mofun")
    for root, _, files in os.walk(base):
        for f in sorted(files):
            if f.endswith(".py"):
                p = os.path.join(root, f)
                out[os.path.relpath(p, core.REPO)] = file_digest(p)
    json.dump(dict(sorted(out.items())), open(PATH, "w"), indent=1)
    return out


if __name__ == "__main__":
    if "--update" in sys.argv:
        print(len(update()), "files recorded")
    else:
        for i in range(1, 21):
            pid = "C%02d" % i
            print(pid, changed_files(pid))
