"""Generators of structured, mostly valid inputs (canonical JSON form; see core.atoms_from_json)."""
from fractions import Fraction

from . import core

ELEMENTS = ["C", "H", "O", "N", "Zr", "Cu", "F", "S"]
ARITY = {"bond": 2, "angle": 3, "dihedral": 4, "improper": 4}
KINDS = ["bond", "angle", "dihedral", "improper"]


def masses():
    from mofun.atomic_masses import ATOMIC_MASSES
    return ATOMIC_MASSES


def dy(rng, lo, hi, den=64):
    """a dyadic rational in [lo, hi] as an exact string"""
    k = rng.randint(int(lo * den), int(hi * den))
    return core.q(Fraction(k, den))


def rand_cell(rng, kind=None):
    kind = kind or rng.choice(["ortho", "ortho", "tri+", "tri-", "rot"])
    a, b, c = [Fraction(rng.randint(6 * 8, 14 * 8), 8) for _ in range(3)]
    if kind == "ortho":
        m = [[a, 0, 0], [0, b, 0], [0, 0, c]]
    elif kind in ("tri+", "tri-"):
        s = 1 if kind == "tri+" else -1
        t = lambda: s * Fraction(rng.randint(1, 3 * 8), 8)
        m = [[a, 0, 0], [t(), b, 0], [t(), rng.choice([1, -1]) * t(), c]]
    else:  # arbitrarily oriented: small integer shear of an orthorhombic cell, rows permuted
        m = [[a, Fraction(rng.randint(-8, 8), 8), Fraction(rng.randint(-8, 8), 8)],
             [Fraction(rng.randint(-8, 8), 8), b, Fraction(rng.randint(-8, 8), 8)],
             [Fraction(rng.randint(-8, 8), 8), Fraction(rng.randint(-8, 8), 8), c]]
        rng.shuffle(m)
    return [[core.q(Fraction(v)) for v in row] for row in m], kind


def rand_atoms(rng, n=None, nmax=6, kinds=None, coeffs=None, extras=None, cell=None, ntypes=None,
               pair=None, label_style=None, unique_tags=True, term_density=None):
    """a random internally consistent structure in canonical JSON.

    coeffs: True = every kind that has terms has a coefficient table covering its ids (possibly with unused entries),
            False = none, None = random per kind.
    unique_tags: every atom gets a unique charge and every term a unique extra-field value (when it has extra
            columns) so that atoms/terms can be recognised after any operation."""
    if n is None:
        n = rng.randint(1, nmax)
    nt = ntypes or rng.randint(1, min(3, max(1, n)))
    els = [rng.choice(ELEMENTS) for _ in range(nt)]
    style = label_style or rng.choice(["elem", "tagged"])
    labels = list(els) if style == "elem" else ["%s_%d" % (e, i + 1) for i, e in enumerate(els)]
    M = masses()
    cellj = None
    ckind = "none"
    if cell is None:
        cell = rng.random() < 0.6
    if cell:
        cellj, ckind = rand_cell(rng, cell if isinstance(cell, str) else None)
    xl_atom = []
    if extras if extras is not None else rng.random() < 0.4:
        xl_atom = rng.sample(["_atom_site_occupancy", "_atom_site_note", "_atom_site_u"], rng.randint(1, 2))
    atoms = []
    for i in range(n):
        ty = rng.randrange(nt) if i >= nt else i  # every type used at least once when n >= nt
        if n < nt:
            ty = rng.randrange(nt)
        charge = core.q(Fraction(i + 1, 16) * rng.choice([1, -1])) if unique_tags else dy(rng, -1, 1)
        atoms.append({"ty": ty, "pos": [dy(rng, -2, 12), dy(rng, -2, 12), dy(rng, -2, 12)], "q": charge,
                      "g": rng.randint(0, 2), "x": ["a%d%s" % (i, l[-1]) for l in xl_atom]})
    j = {"cell": cellj, "atoms": atoms, "terms": {}, "types": {}, "xlabels": {"atom": xl_atom}}
    tagn = [0]
    for k in (kinds if kinds is not None else KINDS):
        pass
    for k in KINDS:
        ar = ARITY[k]
        use = (kinds is None and rng.random() < 0.7) or (kinds is not None and k in kinds)
        terms = []
        xl = []
        if use and n >= ar:
            if extras if extras is not None else rng.random() < 0.35:
                xl = ["_geom_%s_tag" % k] + (["_geom_%s_aux" % k] if rng.random() < 0.3 else [])
            m = rng.randint(1, 4) if term_density is None else term_density
            ntk = rng.randint(1, 3)
            for _ in range(m):
                tup = rng.sample(range(n), ar)
                tagn[0] += 1
                terms.append({"a": tup, "ty": rng.randrange(ntk), "x": ["%s%d%s" % (k[0], tagn[0], l[-1]) for l in xl]})
        has_coeffs = coeffs if coeffs is not None else rng.random() < 0.5
        table = []
        if has_coeffs and (terms or rng.random() < 0.3):
            top = max([t["ty"] for t in terms], default=-1) + 1 + (rng.randint(0, 1))
            top = max(top, 1)
            table = ["%s_coeff_%d %s # %s%d" % (k, i, dy(rng, 0, 9), k[0], i) for i in range(top)]
        j["terms"][k] = terms
        j["types"][k] = table
        j["xlabels"][k] = xl
    j["types"]["elem"] = els
    j["types"]["label"] = labels
    j["types"]["mass"] = [core.q(M[e]) for e in els]
    has_pair = pair if pair is not None else rng.random() < 0.5
    j["types"]["pair"] = ["%s %s # %s" % (dy(rng, 0, 1), dy(rng, 2, 4), l) for l in labels] if has_pair else []
    return j


def describe(j):
    """a small signature of a structure for the input-distribution report"""
    return "n%d/%s/%s" % (len(j["atoms"]), "".join(k[0] for k in KINDS if j["terms"].get(k)) or "-",
                          "cell" if j.get("cell") else "nocell")
