"""C03 — SLAB cells: structures whose cell is THINNER than the pattern is long.

The search looks at the home cell and its 26 adjacent images (`_get_positions_from_all_adjacent_unit_cells`), so the
class it can serve is: every occurrence spans less than one cell along every cell direction (fractional extent < 1).
The blanket guard used by the other streams (every perpendicular width > diameter + 2 atol) implies that, but it is not
needed: a long pattern lying along the long edges of a thin cell (a slab / a flat cell, e.g. 20 x 12 x 4 A with a 6 A
pattern along x) satisfies it as well, although one or two widths are BELOW the pattern's diameter.

`slab_case` builds such structures: a random elongated pattern (2-4 atoms, diameter 2.5-8 A), a cell with one or two
thin directions (width 0.3-0.95 of D = diameter + 2 atol; orthorhombic, tilted, or turned as a whole), 1-3 copies
(exact or displaced by atol/16 per atom) in random poses whose fractional extent along every cell direction stays below
0.9 (poses are drawn, not aligned: rejection sampling), plus a few bystander atoms.  Ground truth by construction,
validated by the independent enumerator over enough lattice images (span = ceil(D / thinnest width) + 1): the planted
groups are the only occurrences, nothing is ambiguous.

`supercell_truth` decides with the same independent enumerator, on an independently built supercell, whether the
relation count(supercell) = a*b*c * count(unit cell) is mathematically true for the given input (it is not when two
periodic images of one atom fit with the same partners — the documented narrow-cell finding)."""
import math
from fractions import Fraction

import numpy as np

from . import findlib as fl, gen_find_c02 as g

ELEMENTS = ["C", "N", "O", "S", "P", "F", "Cl", "H", "Si", "B", "Zn", "Cu"]
CELL_KINDS = ["ortho", "ortho", "tilted", "turned"]
MAX_EXTENT = 0.9


def dy(x, den=16):
    return float(Fraction(round(x * den), den))


def slab_pattern(rng):
    """2-4 atoms, elongated: first atom at the origin, the last one L away along x, the others in between and up to h off
    the line; dyadic coordinates; atoms >= 1 A apart.  Supplied in a random exact pose (cyclic axis permutation)."""
    k = rng.choice([2, 2, 3, 3, 4])
    L = dy(rng.uniform(2.5, 8.0))
    h = rng.choice([0.0, 0.5, 1.0, 1.5])
    for _ in range(40):
        pts = [[0.0, 0.0, 0.0]] + [[dy(rng.uniform(0.15, 0.85) * L), dy(rng.uniform(-h, h)), dy(rng.uniform(-h, h))]
                                   for _ in range(k - 2)] + [[L, 0.0, 0.0]]
        P = np.array(pts)
        dm = np.linalg.norm(P[:, None] - P[None], axis=2) + np.eye(k) * 9
        if dm.min() >= 1.0:
            break
    else:
        return None
    order = list(range(k))
    rng.shuffle(order)                                # the long pair is not always (first, last)
    els = [rng.choice(ELEMENTS) for _ in range(k)]
    if rng.random() < 0.3:
        els[rng.randrange(k)] = els[0]                # sometimes two atoms of one element
    sh = rng.randrange(3)
    pts = [[pts[i][(c + sh) % 3] for c in range(3)] for i in order]
    return els, pts


def slab_cell(rng, D, kind):
    """cell rows (floats, dyadic before turning): 1 or 2 thin directions, the others roomy"""
    nthin = rng.choice([1, 1, 1, 2])
    thin = rng.sample(range(3), nthin)
    lens = []
    for c in range(3):
        if c in thin:
            lens.append(max(dy(rng.uniform(0.3, 0.95) * D), 1.0))
        else:
            lens.append(dy(rng.uniform(1.15, 2.6) * D))
    cf = np.diag(lens)
    if kind == "tilted":                              # LAMMPS-style lower triangle, small tilts
        for (r, c) in [(1, 0), (2, 0), (2, 1)]:
            if rng.random() < 0.6:
                cf[r][c] = dy(rng.uniform(-0.3, 0.3) * lens[c], 8)
    elif kind == "turned":
        R = np.array([[float(x) for x in row] for row in fl.rotmat(fl.rat_quat(rng, rng.choice(["random", "axis90", "axis180"])))])
        cf = cf.dot(R.T)
    return cf, thin


def frac_extent(X, cinv):
    f = np.asarray(X).dot(cinv)
    return (f.max(axis=0) - f.min(axis=0)).max()


def slab_case(rng, atol=0.05, max_tries=30):
    """dict(elems, pos, cell, pattern, planted, info) or None.  Guarantees (checked here, independently of the code
    under test): min perpendicular width < D <= every other quantity the blanket guard would ask; every planted copy has
    fractional extent < MAX_EXTENT (incl. 2 atol of slack) along every cell direction; the planted groups are exactly
    the occurrences found by the brute-force enumerator, none ambiguous."""
    for _ in range(max_tries):
        pat = slab_pattern(rng)
        if pat is None:
            continue
        pel, ppos = pat
        P = np.array(ppos)
        d = fl.diam(ppos)
        D = d + 2 * atol
        kind = rng.choice(CELL_KINDS)
        cf, thin = slab_cell(rng, D, kind)
        if abs(np.linalg.det(cf)) < 1e-6:
            continue
        widths = fl.perp_widths(cf)
        if not min(widths) < 0.97 * D:
            continue
        cinv = np.linalg.inv(cf)
        # slack of 2 atol in fractional units along the thinnest direction
        slack = 2 * atol / min(widths)
        copies = rng.choice([1, 1, 2, 3])
        pdiv = rng.choice([0.0, 16.0, 16.0])
        elems, pos, planted, ok = [], [], [], True
        for _c in range(copies):
            for _p in range(200):
                R = np.array([[float(x) for x in row] for row in fl.rotmat(fl.rat_quat(rng, "random"))])
                X = P.dot(R.T)
                if frac_extent(X, cinv) + slack < MAX_EXTENT:
                    break
            else:
                ok = False
                break
            X = X + np.array([rng.random() for _ in range(3)]).dot(cf)
            if pdiv:
                for i in range(len(X)):
                    v = np.array([rng.gauss(0, 1) for _ in range(3)])
                    X[i] += v / np.linalg.norm(v) * rng.uniform(0, 1) * atol / pdiv
            base = len(elems)
            elems += list(pel)
            pos += [g.wrap(x, cf, cinv) for x in X]
            planted.append(tuple(range(base, base + len(pel))))
        if not ok:
            continue
        for _b in range(rng.choice([0, 1, 2])):        # bystanders (any element, also the pattern's)
            elems.append(rng.choice(ELEMENTS + list(pel)))
            pos.append(g.wrap(np.array([rng.random() for _ in range(3)]).dot(cf), cf, cinv))
        pos = np.array(pos)
        span = int(math.ceil(D / min(widths))) + 1
        ins, amb = g.brute_occurrences(elems, pos, cf, pel, ppos, atol, span=span)
        if amb or ins != set(tuple(sorted(t)) for t in planted):
            continue
        order = list(range(len(elems)))
        rng.shuffle(order)                             # atoms not listed copy by copy
        inv = {old: new for new, old in enumerate(order)}
        return {"elems": [elems[i] for i in order], "pos": [[float(x) for x in pos[i]] for i in order], "cell": cf.tolist(),
                "pattern": {"elems": list(pel), "pos": [list(map(float, p)) for p in ppos], "name": "slab-random"},
                "planted": sorted(tuple(sorted(inv[i] for i in t)) for t in planted),
                "info": {"cell": "slab-" + kind, "pattern": "slab-random", "copies": copies, "thin": sorted(thin),
                         "width_over_D": round(min(widths) / D, 3), "span": span,
                         "norm_below_D": bool(np.linalg.norm(cf, axis=1).min() < D), "perturb_div": pdiv}}
    return None


def slab_dims(rng, case, big=False):
    """replication factors: mostly along a thin direction (2 or 3 cells), sometimes also along a roomy one"""
    thin = case["info"]["thin"]
    dims = [1, 1, 1]
    dims[rng.choice(thin)] = rng.choice([2, 2, 3])
    r = rng.random()
    if r < 0.3:
        dims[rng.randrange(3)] = rng.choice([2, 3] if big else [2])
    elif r < 0.4 and len(thin) == 2:
        for c in thin:
            dims[c] = 2
    return dims


def supercell_truth(base, dims, span):
    """(relation is mathematically true?, number of occurrences in the unit cell, in the supercell) by the independent
    enumerator on an independently built supercell; None if something is ambiguous"""
    ui, ua = g.brute_occurrences(base["elems"], base["pos"], base["cell"], base["pattern"]["elems"], base["pattern"]["pos"],
                                 base["atol"], span=span)
    se, sp, sc = g.replicate_indep(base["elems"], base["pos"], base["cell"], dims)
    si, sa = g.brute_occurrences(se, sp, sc, base["pattern"]["elems"], base["pattern"]["pos"], base["atol"], span=span)
    if ua or sa:
        return None, len(ui), len(si)
    n = len(base["elems"])
    mult = dims[0] * dims[1] * dims[2]
    folded = sorted(tuple(sorted(i % n for i in k)) for k in si)
    return (len(si) == mult * len(ui) and folded == sorted(list(ui) * mult)), len(ui), len(si)
