"""Public accessors of mofun.Atoms that DERIVE per-atom / per-type data from the arrays (elements, symbols, len,
num_*_types, label_atoms, to_ase): read before and after an operation on the SAME object they must agree with the
arrays at both times (a memoised accessor, a stale copy, a count computed from the wrong array …). Used by the C09 and
C10 oracles; independent of the model and of the canonical dumps."""
from . import core


class AccessorStale(Exception):
    pass


def _expected_elements(a):
    return [str(a.atom_type_elements[int(t)]) for t in a.atom_types]


def touch(a):
    """read the cheap accessors (so that anything that memoises does so now); never raises"""
    try:
        with core.quiet():
            _ = (list(a.elements), list(a.symbols), len(a), a.num_atom_types, a.num_bond_types, a.num_angle_types,
                 a.num_dihedral_types, a.num_improper_types)
    except Exception:  # noqa
        pass


def problem(a, ase_too=True):
    """None, or what an accessor reports that the arrays of the same object do not say"""
    try:
        with core.quiet():
            n = len(a.atom_types)
            want = _expected_elements(a)
            for name in ("elements", "symbols"):
                got = [str(x) for x in getattr(a, name)]
                if got != want:
                    return "%s reads %s, the arrays say %s" % (name, got, want)
            if len(a) != n:
                return "len() is %d for %d atoms" % (len(a), n)
            if a.num_atom_types != len(a.atom_type_elements):
                return "num_atom_types is %d for %d atom types" % (a.num_atom_types, len(a.atom_type_elements))
            for k, tups, types, xf, xl, coeffs in core.KINDS:
                ids = [int(t) for t in getattr(a, types)]
                exp = max([len(getattr(a, coeffs))] + [i + 1 for i in ids])
                got = getattr(a, "num_%s_types" % k)
                if got != exp:
                    return "num_%s_types is %s, table of %d entries and ids in use %s" % (k, got, len(getattr(a, coeffs)), sorted(set(ids)))
            labels = [str(x) for x in a.atom_type_labels]
            for t in sorted({int(t) for t in a.atom_types}):
                if t < len(labels) and a.label_atoms(t) != labels[t]:
                    return "label_atoms(%d) is %r, table says %r" % (t, a.label_atoms(t), labels[t])
            for k, tups, types, xf, xl, coeffs in core.KINDS:
                rows = getattr(a, tups)
                if len(rows) > 0 and all(0 <= int(x) < n for x in rows[0]) and all(int(a.atom_types[int(x)]) < len(labels) for x in rows[0]):
                    exp = " ".join(labels[int(a.atom_types[int(x)])] for x in rows[0])
                    got = a.label_atoms(rows[0], atom_indices=True)
                    if got != exp:
                        return "label_atoms(%s, atom_indices=True) is %r, arrays say %r" % (list(rows[0]), got, exp)
            if ase_too and n > 0:
                from ase.data import atomic_numbers
                if all(e in atomic_numbers for e in want):
                    b = a.to_ase()
                    got = [str(x) for x in b.symbols]
                    if got != want:
                        return "to_ase().symbols is %s, the arrays say %s" % (got, want)
                    if len(b.positions) != n:
                        return "to_ase() has %d atoms for %d" % (len(b.positions), n)
    except Exception as ex:  # noqa
        return "accessor raised %s: %s" % (type(ex).__name__, ex)
    return None
