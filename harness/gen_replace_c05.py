"""Generator of replacement cases for C05 / C08: a periodic structure with planted (perturbed, rotated, boundary-crossing)
copies of a search pattern + a replacement pattern built from the search pattern, both given in an arbitrary frame.

Every value is JSON-able; a case can be re-run from its dict alone (replay)."""
import math
from fractions import Fraction

import numpy as np

from . import core, findlib

# elements for inserted atoms; the ones occurring in the search pattern at hand are excluded, so that inserted atoms
# can never create a new occurrence and never coincide (element + place) with a search atom
NEW_ELEMS = ["S", "P", "Si", "Zr", "Cu", "Zn"]

COLLINEAR = {"single", "pair", "pair_same", "collinear3", "collinear_asym", "longlin3"}
SYMMETRIC = {"pair_same", "collinear3", "bent", "ch3", "planar4"}

RP_KINDS = ["keep_all+far", "keep_some+new", "all_new", "subst", "on_axis", "keep_all+far", "all_new", "nudged"]


def dyad(rng, lo, hi, den=16):
    return rng.randint(int(lo * den), int(hi * den)) / den


def far_vector(rng, lo=3.0, hi=8.0):
    """a dyadic vector of length roughly in [lo, hi] (sticks far out of the matched region)"""
    while True:
        v = np.array([rng.uniform(-1, 1) for _ in range(3)])
        n = np.linalg.norm(v)
        if n > 0.2:
            break
    v = v / n * rng.uniform(lo, hi)
    return [round(float(x) * 16) / 16 for x in v]


def build_replacement(rng, pel, ppos, kind, nudge=(0.02, 0.09)):
    """replacement pattern in the SAME frame as the search pattern (pel, ppos).
    Returns (elems, pos, shared) with shared[k] = index of the search atom that replacement atom k coincides with
    (same element, same coordinates) or None for a new atom."""
    n = len(pel)
    ppos = [list(map(float, p)) for p in ppos]
    cen = np.mean(np.array(ppos), axis=0)
    els, pos, shared = [], [], []

    def new_atom(at):
        els.append(rng.choice([e for e in NEW_ELEMS if e not in pel]))
        pos.append([float(x) for x in at])
        shared.append(None)

    if kind == "keep_all+far":
        for j in range(n):
            els.append(pel[j]); pos.append(list(ppos[j])); shared.append(j)
        for _ in range(rng.randint(1, 2)):
            new_atom(cen + np.array(far_vector(rng)))
    elif kind == "keep_some+new":
        keep = sorted(rng.sample(range(n), max(1, n // 2)))
        for j in keep:
            els.append(pel[j]); pos.append(list(ppos[j])); shared.append(j)
        new_atom(cen + np.array(far_vector(rng, 0.75, 2.0)))
        new_atom(cen + np.array(far_vector(rng, 4.0, 9.0)))
        # shuffle so that shared atoms are not always first
        order = list(range(len(els)))
        rng.shuffle(order)
        els, pos, shared = [els[i] for i in order], [pos[i] for i in order], [shared[i] for i in order]
    elif kind == "all_new":
        if rng.random() < 0.5:
            new_atom(ppos[0])            # exactly on the first search atom, different element: inserted AT the match
        for _ in range(rng.randint(1, 3)):
            new_atom(cen + np.array(far_vector(rng, 1.0, 9.0)))
    elif kind == "nudged":
        # every search atom kept, except one that is re-placed 0.02–0.09 Å away with the SAME element: not the same atom
        # (find_unchanged_atom_pairs: closer than 1e-5), so the old one is removed and the new one inserted
        k = rng.randrange(n)
        for j in range(n):
            if j == k:
                v = np.array([rng.uniform(-1, 1) for _ in range(3)])
                v = v / max(np.linalg.norm(v), 1e-9) * rng.uniform(0.02, 0.09)
                els.append(pel[j]); pos.append([float(ppos[j][i] + round(float(v[i]) * 1024) / 1024) for i in range(3)])
                shared.append(None)
            else:
                els.append(pel[j]); pos.append(list(ppos[j])); shared.append(j)
        if rng.random() < 0.5:
            new_atom(cen + np.array(far_vector(rng)))
    elif kind == "subst+nudge":
        # one real element substitution + one atom of UNCHANGED element re-positioned by `nudge` Å (a slightly relaxed
        # bond): the re-positioned atom is NOT the same atom (find_unchanged_atom_pairs: closer than 1e-5)
        k = rng.randrange(n)
        j2 = rng.choice([j for j in range(n) if j != k])
        for j in range(n):
            if j == k:
                new_atom(ppos[j])
            elif j == j2:
                v = np.array([rng.uniform(-1, 1) for _ in range(3)])
                v = v / max(np.linalg.norm(v), 1e-9) * rng.uniform(*nudge)
                els.append(pel[j]); pos.append([float(ppos[j][i] + float(v[i])) for i in range(3)]); shared.append(None)
            else:
                els.append(pel[j]); pos.append(list(ppos[j])); shared.append(j)
    elif kind == "subst_last":
        for j in range(n - 1):
            els.append(pel[j]); pos.append(list(ppos[j])); shared.append(j)
        new_atom(ppos[n - 1])
    elif kind == "subst1":
        # the first atom kept, the second substituted in place
        els.append(pel[0]); pos.append(list(ppos[0])); shared.append(0)
        new_atom(ppos[1])
    elif kind == "on_axis_keep0":
        els.append(pel[0]); pos.append(list(ppos[0])); shared.append(0)
        new_atom(np.array(ppos[0]) + rng.choice([1.5, 2.0, -1.0]) * (np.array(ppos[1]) - np.array(ppos[0])))
    elif kind == "stretch":
        # last atom substituted by another element and moved out along its bond to atom 0 (1.75 × the bond length)
        for j in range(n - 1):
            els.append(pel[j]); pos.append(list(ppos[j])); shared.append(j)
        p0, pk = np.array(ppos[0]), np.array(ppos[n - 1])
        new_atom(p0 + 1.75 * (pk - p0))
    elif kind == "int_new":
        # all coordinates WHOLE numbers (a pattern typed with plain integers): 2–4 new atoms around the search pattern
        base = np.round(cen)
        seen = set()
        for _ in range(rng.randint(2, 4)):
            for attempt in range(20):
                off = tuple(int(v) for v in (np.array(far_vector(rng, 1.0, 8.0)).round()))
                if off not in seen:
                    seen.add(off)
                    break
            new_atom(base + np.array(off))
    elif kind == "subst":
        k = rng.randrange(n)
        for j in range(n):
            if j == k:
                new_atom(ppos[j])
            else:
                els.append(pel[j]); pos.append(list(ppos[j])); shared.append(j)
    else:  # on_axis: new atoms on the line through the first two search atoms (or at the single atom)
        if n >= 2:
            u = np.array(ppos[1]) - np.array(ppos[0])
        else:
            u = np.zeros(3)
        for j in range(n):
            if rng.random() < 0.5:
                els.append(pel[j]); pos.append(list(ppos[j])); shared.append(j)
        for _ in range(rng.randint(1, 2)):
            lam = rng.choice([-1, 1]) * dyad(rng, 2, 6)
            new_atom(np.array(ppos[0]) + lam * u)
    return els, pos, shared


def determined(pname, ppos, rpos, pure_translation):
    """which replacement atoms have a placement that the match determines (independent of the arbitrary rotation
    about the axis of a collinear search pattern / the arbitrary rotation of a single-atom one)"""
    n = len(ppos)
    P = np.array(ppos, dtype=float)
    out = []
    for x in rpos:
        x = np.array(x, dtype=float)
        degenerate = n < 3 or pname.split("@")[0] in COLLINEAR
        if not degenerate:
            far = max(((i, j) for i in range(n) for j in range(n)), key=lambda ij: np.linalg.norm(P[ij[0]] - P[ij[1]]))
            u0 = P[far[1]] - P[far[0]]
            degenerate = all(np.linalg.norm(np.cross(y - P[far[0]], u0)) / max(np.linalg.norm(u0), 1e-12) < 1e-9 for y in P)
        if not degenerate:
            out.append(True)
        elif n == 1:
            out.append(pure_translation or np.abs(x - P[0]).max() < 1e-9)
        else:
            u = P[-1] - P[0] if np.linalg.norm(P[-1] - P[0]) > np.linalg.norm(P[1] - P[0]) else P[1] - P[0]
            d = x - P[0]
            off = d - (d.dot(u) / u.dot(u)) * u
            out.append(bool(np.abs(off).max() < 1e-9))
    return out


# long, asymmetric, non-collinear patterns (extent 6–8 Å): a rotation by a few hundredths of a radian moves their far atoms by
# more than the tolerance. Registered in findlib.PATTERNS only while a structure is planted (findlib itself is not edited).
LONG_PATTERNS = {
    "long8": (["C", "N", "O", "C", "H"], [(0, 0, 0), (1.5, 0.25, 0), (4.0, 0, 0.5), (6.5, -0.25, 0), (8.0, 0.5, 0.25)]),
    "long6": (["O", "C", "C", "N"], [(0, 0, 0), (1.25, 0.75, 0), (3.75, 0.5, 0.5), (6.0, 0, -0.25)]),
    "long7": (["N", "C", "O", "F", "H"], [(7.0, 0.25, 0.5), (5.5, 0, 0), (3.0, 0.75, 0), (1.25, 0, -0.5), (0, 0, 0)]),
    # straight N..C..O with 5 Å spacings: a group whose middle atom is pushed h off the axis keeps all three distances
    # within h²/2L — far less than h — so only the superposition check of the search can refuse it
    "longlin3": (["N", "C", "O"], [(0, 0, 0), (5.0, 0, 0), (10.0, 0, 0)]),
}
TILT_PATTERNS = ["long8", "long6", "long7"]
# site patterns A = C, N, O, H whose longest pair (N–O) has a generic direction, while the pair N–H lies EXACTLY along one
# coordinate axis; replacement kind "stretch" substitutes H by a heavier atom further out on that axis, so that in B the
# longest pair (N–X) lies exactly along the coordinate axis
for _ax, _perm in (("x", (1, 0, 2)), ("y", (0, 1, 2)), ("z", (0, 2, 1))):
    _base = [(0, 0, 0), (0, -1.25, 0), (2.0, 0.5, 0.25), (0, 1.0, 0)]
    LONG_PATTERNS["axsite@" + _ax] = (["C", "N", "O", "H"], [tuple(p[_perm[i]] for i in range(3)) for p in _base])
AXSITE_PATTERNS = ["axsite@x", "axsite@y", "axsite@z"]
# a weakly chiral pattern: its last atom is only 0.25 Å out of the plane of the others, so the mirror image misses by 0.5 Å —
# far more than any tolerance used with it (0.1), far less than 0.1 × (a coordinate of 6 Å or more)
LONG_PATTERNS["twist4"] = (["C", "N", "O", "F"], [(0, 0, 0), (1.25, 0, 0), (0.25, 1.375, 0), (-0.5, -0.25, 0.25)])


def rodrigues(axis, angle):
    a = np.array(axis, dtype=float)
    a = a / np.linalg.norm(a)
    K = np.array([[0, -a[2], a[1]], [a[2], 0, -a[0]], [-a[1], a[0], 0]])
    return np.eye(3) + math.sin(angle) * K + (1 - math.cos(angle)) * K.dot(K)


def pattern_atoms_json(els, pos, charges=None):
    return findlib.struct_json(list(els), [list(p) for p in pos], None, charges=charges)


def make_case(rng, tier="quick", cell_kind=None, pname=None, boundary="default", replace_all=None, rp_kind=None,
              atol=None, ncopies=None, distort=None, fmax=0.6, exact=None, hints="auto", nudge=(0.02, 0.09),
              tilt=None, flip=None, bent=None, int_rp=None, mirror_far=False,
              unwrap=None, cellvar=None):
    """flip: None = in ~8 % of the cases ONE unperturbed copy of a non-collinear pattern is planted whose long axis is parallel
    or antiparallel to the pattern's axis as written up to eps (copy turned by eps, pi − eps, pi or pi + eps about an axis
    perpendicular to the pattern's long axis, eps = 1e-9 … 1e-3): well inside every tolerance.
    bent: None = in ~8 % of the cases the straight 10 Å pattern `longlin3` is used and the structure also holds a BENT group
    (middle atom 6–11·atol off the axis, all pairwise distances within 0.7·atol): not an occurrence.
    tilt: None = in ~12 % of the cases the copies are planted in the pattern's own orientation and then TILTED by a small
    rotation (angle from 1e-3 rad to 1.3·atol rad, random axis, about the copy's first atom), preferably with a long
    pattern (LONG_PATTERNS), so that angle × lever arm exceeds the tolerance although the angle (in rad) is below atol (in Å).
    distort: None = in ~45 % of the cases use a NON-default tolerance (0.1, 0.2 or 0.01) and distort the planted copies
    by up to fmax·atol (one atom by f·atol, or every atom by f·atol/2, f in [0.25, fmax]); for atol = 0.01 some copies
    are distorted BEYOND the tolerance (2–4·atol: not occurrences at that tolerance, but within the default 0.05)"""
    free = distort is None and exact is None and tilt is None and atol is None and ncopies is None
    if bent is None:
        bent = free and flip is None and pname is None and rng.random() < 0.08
    if bent:
        pname, distort, exact, tilt, flip = "longlin3", False, False, False, False
        atol = atol if atol is not None else rng.choice([0.05, 0.05, 0.02])
    if flip is None:
        flip = free and not bent and rng.random() < 0.08
    if flip:
        distort, exact, tilt = False, False, False
        if pname is None or pname.split("@")[0] in COLLINEAR or len((LONG_PATTERNS.get(pname) or findlib.PATTERNS[pname])[0]) < 3:
            pname = rng.choice(["asym4", "asym5", "chiral", "halo", "siloxy", "long8", "long6", "asym4@y", "asym4@z"])
            if pname not in findlib.PATTERNS and pname not in LONG_PATTERNS:
                pname = "asym4"
        ncopies = 1
    if tilt is None:
        tilt = distort is None and exact is None and rng.random() < 0.12
    if tilt:
        distort, exact = False, False
        if pname is None or (pname not in LONG_PATTERNS and len(findlib.PATTERNS[pname][0]) < 3) or rng.random() < 0.5:
            pname = rng.choice(TILT_PATTERNS)
    pname = pname or rng.choice(list(findlib.PATTERNS))
    cell_kind = cell_kind or rng.choice(["ortho", "tri+", "tri-", "rot", "tri+", "tri-"])
    if boundary == "default":
        boundary = rng.choice([None, True, "corner", "corner"])
    # exact: unperturbed copies turned by exactly 180° about a coordinate axis (pattern axis and copy axis exactly
    # antiparallel — the branch of the rotation helper that needs an arbitrary perpendicular axis)
    if exact is None:
        exact = distort is None and rng.random() < 0.12
    if exact:
        distort = False
    if pname.split("@")[0] == "pair_same" and atol is None:
        # C–C 1.5 Å with copies only 1.6 Å apart: a wide tolerance or distorted copies would make atoms of DIFFERENT copies
        # match each other (overlapping occurrences are refused by the code — property C07, not this one)
        distort = False
        atol = rng.choice([0.05, 0.02])
    if distort is None:
        distort = atol is None and rng.random() < 0.45
    if distort and atol is None:
        atol = rng.choice([0.1, 0.2, 0.2, 0.01])
    atol = atol if atol is not None else rng.choice([0.05, 0.05, 0.02, 0.1])
    extra = {"pose": "axis180", "perturb": False} if exact else ({"pose": "identity"} if tilt else {})
    if flip:
        extra = {"pose": "identity", "perturb": False}
    registered = pname in LONG_PATTERNS and pname not in findlib.PATTERNS
    if registered:
        findlib.PATTERNS[pname] = LONG_PATTERNS[pname]
    try:
        case = findlib.planted_structure(rng, pname=pname, cell_kind=cell_kind, atol=atol, boundary=boundary,
                                         ncopies=ncopies if ncopies is not None else rng.randint(1, 3),
                                         decoys=(rng.random() < 0.5) and not flip, **extra)
    finally:
        if registered:
            del findlib.PATTERNS[pname]
    n = len(case["elems"])
    tilt_info = []
    if tilt and case["planted"]:
        cellf = np.array(case["cell"], dtype=float)
        cinv = np.linalg.inv(cellf)
        pos = np.array(case["pos"], dtype=float)
        pp = np.array(case["pattern"]["pos"], dtype=float)
        for grp in case["planted"]:
            u = rng.choice([rng.uniform(0.5, 0.98), rng.uniform(0.5, 0.98), rng.uniform(0.7, 0.98), rng.uniform(1.0, 1.3), None])
            ang = rng.uniform(1e-3, 0.5 * atol) if u is None else u * atol
            Rt = rodrigues([rng.uniform(-1, 1) for _ in range(3)] if rng.random() < 0.7 else rng.choice([(1, 0, 0), (0, 1, 0), (0, 0, 1)]), ang)
            x0 = pos[grp[0]]
            for k, i in enumerate(grp):
                # un-wrap atom k next to atom 0 (the copy has the pattern's orientation), turn it about atom 0, wrap again
                ideal = x0 + (pp[k] - pp[0])
                shift = np.round((ideal - pos[i]).dot(cinv))
                xk = pos[i] + shift.dot(cellf)
                pos[i] = x0 + Rt.dot(xk - x0)
            tilt_info.append(round(ang / atol, 2))
        fr = pos.dot(cinv) % 1.0
        fr[fr >= 1.0] = 0.0
        case["pos"] = [[float(x) for x in row] for row in fr.dot(cellf)]
    flip_info = None
    if flip and case["planted"]:
        cellf = np.array(case["cell"], dtype=float)
        cinv = np.linalg.inv(cellf)
        pos = np.array(case["pos"], dtype=float)
        pp = np.array(case["pattern"]["pos"], dtype=float)
        # the pattern's long axis: its two farthest atoms
        dd = [(float(np.linalg.norm(pp[i] - pp[j])), i, j) for i in range(len(pp)) for j in range(len(pp))]
        _, ia, ib = max(dd)
        uax = (pp[ib] - pp[ia]) / np.linalg.norm(pp[ib] - pp[ia])
        w = np.cross(uax, rng.choice([(1, 0, 0), (0, 1, 0), (0, 0, 1), tuple(rng.uniform(-1, 1) for _ in range(3))]))
        if np.linalg.norm(w) < 1e-3:
            w = np.cross(uax, (0.3, 0.5, 0.8))
        eps = 10 ** rng.uniform(-9, -3)
        kind = rng.choice(["pi-eps", "pi-eps", "pi-eps", "pi+eps", "eps", "pi"])
        ang = {"pi-eps": math.pi - eps, "pi+eps": math.pi + eps, "eps": eps, "pi": math.pi}[kind]
        Rt = rodrigues(w, ang)
        grp = case["planted"][0]
        x0 = pos[grp[0]].copy()
        for k, i in enumerate(grp):
            ideal = x0 + (pp[k] - pp[0])
            shift = np.round((ideal - pos[i]).dot(cinv))
            xk = pos[i] + shift.dot(cellf)
            pos[i] = x0 + Rt.dot(xk - x0)
        fr = pos.dot(cinv) % 1.0
        fr[fr >= 1.0] = 0.0
        case["pos"] = [[float(x) for x in row] for row in fr.dot(cellf)]
        flip_info = "%s(eps=%.1e)" % (kind, eps)
    bent_info = None
    if bent:
        cellf = np.array(case["cell"], dtype=float)
        cinv = np.linalg.inv(cellf)
        pos = [np.array(x, dtype=float) for x in case["pos"]]
        pp = np.array(case["pattern"]["pos"], dtype=float)
        L = float(np.linalg.norm(pp[1] - pp[0]))
        h = min(rng.uniform(8.0, 11.0) * atol, rng.uniform(0.75, 0.95) * math.sqrt(2 * L * 0.7 * atol))
        for attempt in range(200):
            Rr = np.array([[float(v) for v in row] for row in findlib.rotmat(findlib.rat_quat(rng))])
            origin = np.array([rng.random() for _ in range(3)]).dot(cellf)
            perp = np.cross(Rr.dot(pp[2] - pp[0]), [rng.uniform(-1, 1) for _ in range(3)])
            if np.linalg.norm(perp) < 1e-3:
                continue
            perp = perp / np.linalg.norm(perp)
            pts = [origin + Rr.dot(pp[k] - pp[0]) + (h * perp if k == 1 else 0) for k in range(3)]
            ok = True
            for q in pts:
                for x in pos:
                    f = (q - x).dot(cinv)
                    f -= np.round(f)
                    if np.linalg.norm(f.dot(cellf)) < 2.0:
                        ok = False
                        break
                if not ok:
                    break
            if ok:
                for k, q in enumerate(pts):
                    fq = q.dot(cinv) % 1.0
                    fq[fq >= 1.0] = 0.0
                    pos.append(fq.dot(cellf))
                    case["elems"].append(case["pattern"]["elems"][k])
                case["pos"] = [[float(v) for v in x] for x in pos]
                bent_info = round(h / atol, 1)
                break
        n = len(case["elems"])
    mirror_info = None
    if mirror_far:
        # the MIRROR IMAGE of the pattern (not an occurrence), far from the cell origin: all coordinates above 0.7 × cell length
        cellf = np.array(case["cell"], dtype=float)
        cinv = np.linalg.inv(cellf)
        pos = [np.array(x, dtype=float) for x in case["pos"]]
        pp = np.array(case["pattern"]["pos"], dtype=float)
        mp = (pp - pp[0]) * np.array([1.0, 1.0, -1.0])
        for attempt in range(300):
            Rr = np.array([[float(v) for v in row] for row in findlib.rotmat(findlib.rat_quat(rng))])
            origin = np.array([rng.uniform(0.72, 0.9) for _ in range(3)]).dot(cellf)
            pts = [origin + Rr.dot(v) for v in mp]
            ok = True
            for q in pts:
                for x in pos:
                    f = (q - x).dot(cinv)
                    f -= np.round(f)
                    if np.linalg.norm(f.dot(cellf)) < 2.0:
                        ok = False
                        break
                if not ok:
                    break
            if ok:
                for k, q in enumerate(pts):
                    fq = q.dot(cinv) % 1.0
                    fq[fq >= 1.0] = 0.0
                    pos.append(fq.dot(cellf))
                    case["elems"].append(case["pattern"]["elems"][k])
                case["pos"] = [[float(v) for v in x] for x in pos]
                mirror_info = [round(float(v), 2) for v in origin]
                break
        n = len(case["elems"])
    dist_info = "none"
    if distort and case["planted"]:
        cellf = np.array(case["cell"], dtype=float)
        cinv = np.linalg.inv(cellf)
        pos = np.array(case["pos"], dtype=float)
        modes = []
        for grp in case["planted"]:
            f = rng.uniform(0.25, max(0.25, fmax))
            mode = rng.choice(["one", "all"])
            if atol < 0.02 and rng.random() < 0.5:
                mode, f = "beyond", rng.uniform(2.0, 4.0)
            who = [rng.choice(grp)] if mode in ("one", "beyond") else list(grp)
            amp = f * atol if mode in ("one", "beyond") else f * atol / 2
            for i in who:
                v = np.array([rng.uniform(-1, 1) for _ in range(3)])
                nv = np.linalg.norm(v)
                if nv < 1e-3:
                    continue
                pos[i] = pos[i] + v / nv * amp * rng.uniform(0.6, 1.0)
            modes.append(mode)
        fr = pos.dot(cinv) % 1.0
        fr[fr >= 1.0] = 0.0
        case["pos"] = [[float(x) for x in row] for row in fr.dot(cellf)]
        dist_info = "+".join(sorted(set(modes)))
    pel, ppos = case["pattern"]["elems"], case["pattern"]["pos"]
    # both patterns live in an arbitrary frame: the first search atom is generally NOT at the origin
    shift = [dyad(rng, -3, 3) for _ in range(3)] if rng.random() < 0.75 else [0.0, 0.0, 0.0]
    # int_rp: the replacement pattern is written with plain INTEGER coordinates (and is to be constructed from ints), while
    # the first search atom sits at a non-integer position
    if int_rp is None:
        int_rp = rp_kind is None and rng.random() < 0.07
    if int_rp:
        rp_kind = "int_new"
        k = rng.randrange(3)
        if float(ppos[0][k]) + shift[k] == round(float(ppos[0][k]) + shift[k]):
            shift[k] += rng.choice([0.5, 0.25, 0.375, -0.4375])
    ppos = [[float(p[i]) + shift[i] for i in range(3)] for p in ppos]
    if rp_kind is None:
        rp_kind = rng.choice(RP_KINDS)
        if pname.split("@")[0] in COLLINEAR and rng.random() < 0.4:
            rp_kind = "on_axis"
    rel, rpos, shared = build_replacement(rng, pel, ppos, rp_kind, nudge=nudge)
    tags = [100.0 + k + 0.5 for k in range(len(rel))]
    charges = [(i + 1) / 16.0 for i in range(n)]
    groups = [rng.randint(0, 3) for _ in range(n)]
    # same lattice, other spelling of the cell: two rows exchanged (left-handed, det < 0) or one row negated; the atoms are
    # wrapped into the cell AS SPELLED (fractional coordinates in [0, 1) of the new rows)
    if cellvar is None:
        cellvar = rng.choice(["", "", "", "", "", "lefthanded", "negrow"])
    if cellvar:
        cm = [list(row) for row in case["cell"]]
        if cellvar == "lefthanded":
            i, j = rng.sample(range(3), 2)
            cm[i], cm[j] = cm[j], cm[i]
        else:
            k = rng.randrange(3)
            cm[k] = [-v for v in cm[k]]
        case["cell"] = cm
        cmf = np.array(cm, dtype=float)
        fr = np.array(case["pos"], dtype=float).dot(np.linalg.inv(cmf)) % 1.0
        fr[fr >= 1.0] = 0.0
        case["pos"] = [[float(v) for v in x] for x in fr.dot(cmf)]
    # unwrap: in ~20 % of the structures the atoms are GIVEN outside the unit cell, each atom shifted on its own by up to two
    # cells per direction (unwrapped trajectories, data files that do not wrap). Atoms sitting on a cell face (a fractional
    # coordinate within 1e-6 of an integer) stay where they are.
    if unwrap is None:
        unwrap = rng.random() < 0.2
    if unwrap:
        cm = np.array(case["cell"], dtype=float)
        cminv = np.linalg.inv(cm)
        newpos = []
        for x in case["pos"]:
            x = np.array(x, dtype=float)
            f = x.dot(cminv)
            mult = np.array([rng.choice([-2, -1, 0, 0, 0, 1, 2]) for _ in range(3)])
            if np.abs(f - np.round(f)).min() < 1e-6:
                mult = np.zeros(3)
            newpos.append([float(v) for v in (x + mult.dot(cm))])
        case["pos"] = newpos
    sj = findlib.struct_json(case["elems"], case["pos"], case["cell"], charges=charges, groups=groups)
    pj = pattern_atoms_json(pel, ppos)
    rj = pattern_atoms_json(rel, rpos, charges=tags)
    for k, a in enumerate(rj["atoms"]):
        a["g"] = 7
    if replace_all is None:
        replace_all = rng.random() < 0.2
    if hints == "auto":
        hints = (None, None, None)
        if len(pel) >= 2 and rng.random() < 0.3:
            h1 = rng.randrange(len(pel))
            h2 = rng.choice([None] + [j for j in range(len(pel)) if j != h1])
            ho = None
            if h2 is not None and len(pel) >= 3 and rng.random() < 0.5:
                # an orientation point clearly off the chosen axis
                P_ = np.array(ppos, dtype=float)
                u = P_[h2] - P_[h1]
                cand = [j for j in range(len(pel)) if j not in (h1, h2)
                        and np.linalg.norm(np.cross(P_[j] - P_[h1], u)) / max(np.linalg.norm(u), 1e-9) > 0.3]
                if cand:
                    ho = rng.choice(cand)
            hints = (h1, h2, ho)
    hint_spelling = rng.choice(["plain", "plain", "negative", "numpy"]) if any(h is not None for h in hints) else "plain"
    return {"op": "c05", "hint_spelling": hint_spelling, "hints": list(hints), "int_rp": bool(int_rp), "s": sj, "p": pj, "r": rj, "atol": atol, "replace_all": bool(replace_all),
            "seed": rng.randrange(10 ** 6), "shared": shared, "tags": tags,
            "info": {"cell": cell_kind, "pattern": pname, "boundary": str(boundary), "rp": rp_kind,
                     "copies": len(case["planted"]), "decoys": case["info"]["decoys"], "atol": atol,
                     "distorted": dist_info,
                     "exact180": bool(exact), "tilt_over_atol": tilt_info, "flip": flip_info,
                     "bent_decoy_h_over_atol": bent_info,
                     "mirror_far": mirror_info, "cellvar": cellvar, "unwrapped": bool(unwrap)}}


def make_star_case(rng, tier="quick"):
    """several occurrences of a two-atom pattern SHARE their first atom (a centre with 3–4 partners, e.g. C–H on a methyl
    carbon), partners numbered in random order; the replacement keeps the centre and substitutes the partner; only a part
    of the occurrences is replaced (replace_fraction < 1)"""
    pname = rng.choice(["pair", "pair@y", "pair@z"])
    pel, ppos0 = findlib.PATTERNS[pname]
    d = float(np.linalg.norm(np.array(ppos0[1], dtype=float) - np.array(ppos0[0], dtype=float)))
    cell_kind = rng.choice(["ortho", "tri+", "tri-", "rot"])
    cell = np.array([[float(v) for v in row] for row in findlib.make_cell(rng, cell_kind, 9.0)])
    cinv = np.linalg.inv(cell)
    elems, pos = [], []
    nstars = rng.randint(1, 2)
    for sidx in range(nstars):
        for attempt in range(100):
            c = np.array([rng.random() for _ in range(3)]).dot(cell)
            k = rng.randint(3, 4)
            dirs = []
            for _ in range(200):
                v = np.array([rng.uniform(-1, 1) for _ in range(3)])
                if np.linalg.norm(v) < 0.2:
                    continue
                v = v / np.linalg.norm(v)
                if all(np.dot(v, w) < 0.2 for w in dirs):       # partners ≥ ~1.26·d apart: no partner–partner confusion
                    dirs.append(v)
                if len(dirs) == k:
                    break
            if len(dirs) < k:
                continue
            pts = [c] + [c + d * v for v in dirs]
            ok = True
            for q in pts:
                for x in pos:
                    f = (q - x).dot(cinv)
                    f -= np.round(f)
                    if np.linalg.norm(f.dot(cell)) < 2.6:
                        ok = False
            if ok:
                order = list(range(1, len(pts)))
                rng.shuffle(order)
                elems.append(pel[0]); pos.append(pts[0])
                for j in order:
                    elems.append(pel[1]); pos.append(pts[j])
                break
    fr = np.array(pos).dot(cinv) % 1.0
    fr[fr >= 1.0] = 0.0
    pos = fr.dot(cell)
    shift = [dyad(rng, -3, 3) for _ in range(3)]
    ppos = [[float(p[i]) + shift[i] for i in range(3)] for p in ppos0]
    rel, rpos, shared = build_replacement(rng, list(pel), ppos, rng.choice(["subst1", "on_axis_keep0"]))
    tags = [100.0 + k + 0.5 for k in range(len(rel))]
    n = len(elems)
    sj = findlib.struct_json(elems, [[float(v) for v in x] for x in pos], [[float(v) for v in row] for row in cell],
                             charges=[(i + 1) / 16.0 for i in range(n)], groups=[rng.randint(0, 3) for _ in range(n)])
    pj = pattern_atoms_json(pel, ppos)
    rj = pattern_atoms_json(rel, rpos, charges=tags)
    for a in rj["atoms"]:
        a["g"] = 7
    return {"op": "c05", "hints": [None, None, None], "int_rp": False, "s": sj, "p": pj, "r": rj, "atol": 0.05,
            "replace_all": False, "seed": rng.randrange(10 ** 6), "shared": shared, "tags": tags,
            "fraction": rng.choice([0.34, 0.5, 0.67, 0.25, 0.75]),
            "info": {"cell": cell_kind, "pattern": pname, "boundary": "None", "rp": "star", "copies": n - nstars, "decoys": [],
                     "atol": 0.05, "distorted": "none", "exact180": False, "tilt_over_atol": [], "flip": None,
                     "bent_decoy_h_over_atol": None, "star": True}}


INT_PATTERNS = [
    (["C", "N", "O", "F"], [(0, 0, 0), (1, 0, 0), (0, 2, 0), (0, 0, 3)]),
    (["C", "O"], [(0, 0, 0), (0, 1, 0)]),
    (["N", "C", "H"], [(0, 0, 0), (1, 1, 0), (3, 1, 0)]),
    (["Si", "O", "O", "H"], [(1, 1, 1), (2, 1, 1), (1, 3, 1), (1, 1, 2)]),
]
INT_ROTATIONS = [np.array(m) for m in (
    [[1, 0, 0], [0, 1, 0], [0, 0, 1]], [[0, -1, 0], [1, 0, 0], [0, 0, 1]], [[-1, 0, 0], [0, -1, 0], [0, 0, 1]],
    [[1, 0, 0], [0, 0, -1], [0, 1, 0]], [[0, 0, 1], [0, 1, 0], [-1, 0, 0]], [[-1, 0, 0], [0, 1, 0], [0, 0, -1]],
    [[0, 1, 0], [0, 0, 1], [1, 0, 0]])]


def make_int_case(rng, tier="quick"):
    """everything typed with WHOLE numbers: integer cell rows (orthorhombic or tilted), structure atoms on integer
    coordinates (exact copies in axis-permuting orientations), search pattern with integer coordinates, replacement with
    integer or float coordinates. The objects are to be constructed from plain ints (case["int_typed"])."""
    pel, ppos0 = rng.choice(INT_PATTERNS)
    ppos0 = np.array(ppos0)
    kind = rng.choice(["ortho", "ortho", "tri+", "tri-"])
    a, b, c = [rng.randint(11, 15) for _ in range(3)]
    if kind == "ortho":
        cell = np.array([[a, 0, 0], [0, b, 0], [0, 0, c]])
    else:
        sg = 1 if kind == "tri+" else -1
        cell = np.array([[a, 0, 0], [sg * rng.randint(1, 3), b, 0], [sg * rng.randint(1, 3), rng.choice([1, -1]) * rng.randint(1, 3), c]])
    cellf = cell.astype(float)
    cinv = np.linalg.inv(cellf)
    elems, pos = [], []
    for _ in range(rng.randint(1, 3)):
        for attempt in range(100):
            R = rng.choice(INT_ROTATIONS)
            origin = np.array([rng.randint(-3, 16) for _ in range(3)])
            pts = [origin + R.dot(p - ppos0[0]) for p in ppos0]
            ok = True
            for q in pts:
                for x in pos:
                    f = (q - x).astype(float).dot(cinv)
                    f -= np.round(f)
                    if np.linalg.norm(f.dot(cellf)) < 3.5:
                        ok = False
            if ok:
                for e, q in zip(pel, pts):
                    elems.append(e); pos.append(q)
                break
    for attempt in range(20):
        q = np.array([rng.randint(0, 10) for _ in range(3)])
        if all(np.linalg.norm(((q - x).astype(float).dot(cinv) - np.round((q - x).astype(float).dot(cinv))).dot(cellf)) >= 3.5 for x in pos):
            elems.append("H"); pos.append(q)
            break
    # atoms are left where they are (some outside the unit cell: integer structures are not wrapped either)
    shift = np.array([rng.randint(-3, 3) for _ in range(3)])
    ppos = [[int(v) for v in (p + shift)] for p in ppos0]
    int_rp = rng.random() < 0.6
    rel, rpos, shared = build_replacement(rng, list(pel), [[float(v) for v in p] for p in ppos],
                                          "int_new" if int_rp else rng.choice(["keep_all+far", "subst", "all_new"]))
    tags = [100.0 + k + 0.5 for k in range(len(rel))]
    n = len(elems)
    sj = findlib.struct_json(elems, [[int(v) for v in x] for x in pos], [[int(v) for v in row] for row in cell],
                             charges=[(i + 1) / 16.0 for i in range(n)], groups=[rng.randint(0, 3) for _ in range(n)])
    pj = pattern_atoms_json(pel, ppos)
    rj = pattern_atoms_json(rel, rpos, charges=tags)
    for a_ in rj["atoms"]:
        a_["g"] = 7
    return {"op": "c05", "hints": [None, None, None], "hint_spelling": "plain", "int_rp": bool(int_rp), "int_typed": True,
            "s": sj, "p": pj, "r": rj, "atol": 0.05, "replace_all": rng.random() < 0.2, "seed": rng.randrange(10 ** 6),
            "shared": shared, "tags": tags,
            "info": {"cell": kind, "pattern": "int:" + "".join(pel), "boundary": "None", "rp": "int_new" if int_rp else "float",
                     "copies": n // len(pel), "decoys": [], "atol": 0.05, "distorted": "none", "exact180": False,
                     "tilt_over_atol": [], "flip": None, "bent_decoy_h_over_atol": None, "int_typed": True}}


def rand_motion(rng, pure_translation=False):
    q = (0, 0, 0, 1) if pure_translation else findlib.rat_quat(rng, rng.choice(["random", "random", "axis90", "axis180"]))
    t = [dyad(rng, -5, 5) for _ in range(3)]
    return {"q": [int(v) for v in q], "t": t}


def move_pattern_json(pj, motion):
    """the pattern moved by x -> R x + t (floats)"""
    R = [[float(v) for v in row] for row in findlib.rotmat(motion["q"])]
    out = {k: v for k, v in pj.items()}
    out["atoms"] = []
    for a in pj["atoms"]:
        x = [float(core.unq(v)) for v in a["pos"]]
        y = [sum(R[i][j] * x[j] for j in range(3)) + motion["t"][i] for i in range(3)]
        b = dict(a)
        b["pos"] = [core.q(v) for v in y]
        out["atoms"].append(b)
    return out


# ------------------------------------------------------------------ terms for C08 structures

def add_terms(rng, sj, density=1.0):
    """random bonds / angles / dihedrals (with types and coefficient tables) on a plain structure JSON"""
    n = len(sj["atoms"])
    out = {k: v for k, v in sj.items()}
    out["terms"] = {k: [] for k in ("bond", "angle", "dihedral", "improper")}
    out["types"] = dict(sj["types"])
    for kind, ar in (("bond", 2), ("angle", 3), ("dihedral", 4), ("improper", 4)):
        if n < ar or (kind == "improper" and rng.random() < 0.6):
            continue
        m = rng.randint(1, max(1, int(density * n)))
        nt = rng.randint(1, 3)
        seen = set()
        for _ in range(m):
            t = tuple(rng.sample(range(n), ar))
            key = min(t, t[::-1])
            if key in seen:
                continue
            seen.add(key)
            out["terms"][kind].append({"a": list(t), "ty": rng.randrange(nt), "x": []})
        out["types"][kind] = ["%s_coeff_%d" % (kind, i) for i in range(nt)]
    return out
