"""`python -m harness.lbuild Mod1 Mod2 …` — lake build of the given modules under the shared build lock."""
import sys
from . import core

if __name__ == "__main__":
    b = core.lake_build(sys.argv[1:])
    # print only errors and the verdict
    lines = [l for l in b.log.split("\n") if not l.startswith("trace:")]
    print("\n".join(lines[-120:]))
    sys.exit(0 if b.ok else 1)
