"""C18 — UFF parameters follow the published formulas for every type combination; symmetric under reversal.

Real code: mofun/rough_uff.py (pair_coeffs, guess_bond_order, bond_params, angle_params, dihedral_params) on the table
mofun/uff4mof.py.  Model: lean/MofunModel/Model/UffLogic.lean + UffFormula.lean at the Float instance
(driver drivers/Uff.lean).  The ORACLE below is written from the UFF functional forms (Rappé et al. 1992, eqs. 2-4, 6,
10-13, 16-17, and the LAMMPS styles the docstrings name) with its own table reader; it shares no code with either the
model or the implementation.
"""
import concurrent.futures
import json
import math
import multiprocessing
import os
from fractions import Fraction

from .. import core, gen_tables

RULE = ("pairs: EVERY ordered pair of the 221 table types x bond orders {guessed, 1, 1.5, 2} (+ explicit bond orders from a continuous range 0.1..8, bond_orders as list/tuple/array, random user bond-order "
        "rules, sets of 1-3 types in both listing orders); triples: every centre type with random ends (quick) / every "
        "ordered triple on the real code (thorough); quadruples: every centre type, every torsion class, random ends, "
        "multiplicities 1..40, every non-sp type against main-group partners without sp2/sp3/resonant label (the undefined/unsupported boundary, main group = s- and p-block written out in the oracle, not read from the repo) (quick) / every centre pair x end classes x multiplicities 1..9, 12, 40 (thorough); pair "
        "coefficients: every type; ORDERED call sequences with the code's default arguments whose consecutive terms have "
        "different guessed bond orders (forward and reversed), and the real assign_bond/angle/dihedral_types call order on "
        "random type graphs (every coefficient line vs. the oracle); the assign_* entry points on real Atoms objects "
        "(constructor / copy()) with term lists in arbitrary direction and order, exclusion sets and rules: the coefficient "
        "text reaching every bond, angle, torsion (M = listed torsions about its bond) and atom vs. the oracle; "
        "assign_pair_coeffs in both label modes for every element and every type of the table. Unspecified arguments are never passed to the real "
        "functions (their own defaults are used); given argument objects are checked for mutation. Non-trivial = distinct input with a defined parameter tuple and an active correction "
        "(bonds: a1 != a2 or bond order != 1; angles and torsions: defined result; pairs: all). The exhaustive sweeps of "
        "the thorough tier run in worker processes and are counted in `evaluations` and `input_distribution` only.")

BOS = [None, 1, 1.5, 2]
NPROC = max(2, min(16, (os.cpu_count() or 4)))

# --------------------------------------------------------------------------------------------- table (own reader)

_T = None


def table():
    """the UFF4MOF table read from the SOURCE TEXT of the repo under test (decimal literal -> nearest double)"""
    global _T
    if _T is None:
        uff = _read_uff_rows()
        rows = {k: [float(Fraction(m, 10 ** e)) for (m, e) in v] for k, v in uff}
        _T = {"keys": [k for k, _ in uff], "rows": rows, "main": set(MAIN_GROUP)}
    return _T


def _read_uff_rows():
    """the rows of the UFF4MOF dict literal, from the source text.  Only the parameter TABLE is taken from the repo (the
    property is stated "on that table"); the helper lists beside it are not: whatever way MAIN_GROUP_ELEMENTS is
    spelled there (literal, comprehension, import) does not matter to the oracle, which has its own MAIN_GROUP."""
    try:
        return gen_tables.read_tables()["uff"]
    except Exception:  # noqa  (some OTHER table of the repo is no longer a plain literal)
        import ast
        src = open(os.path.join(core.REPO, "mofun", "uff4mof.py")).read()
        d = gen_tables._find_assign(ast.parse(src), "UFF4MOF")
        return gen_tables._dictlit([(gen_tables._str(k), [gen_tables._dec(src, e) for e in v.elts])
                                    for k, v in zip(d.keys, d.values)])


# Main-group elements = the s- and p-block of the periodic table (groups 1, 2 and 13-18), written out here period by
# period, independently of the library's MAIN_GROUP_ELEMENTS list: "no dihedrals for non main group elements" is a
# statement about chemistry, not about whatever that list happens to contain.
_PERIODS_SP = ["H He",
               "Li Be B C N O F Ne",
               "Na Mg Al Si P S Cl Ar",
               "K Ca Ga Ge As Se Br Kr",
               "Rb Sr In Sn Sb Te I Xe",
               "Cs Ba Tl Pb Bi Po At Rn",
               "Fr Ra"]
MAIN_GROUP = frozenset(e for row in _PERIODS_SP for e in row.split())


# --------------------------------------------------------------------------------------------- oracle: the formulas

LAMBDA = 0.1332          # bond-order correction constant (Rappé eq. 3)
G = 664.12               # (kcal/mol)·Å force-constant prefactor (eqs. 6, 13)
SINGLE = {"H_", "F_", "Cl", "Br", "I_", "C_3", "N_3", "O_3"}
GROUP6 = {"O", "S", "Se", "Te", "Po"}


def o_elem(t):
    return "".join(ch for ch in t[:2] if ch != "_")


def o_hyb(t):
    return t[2] if len(t) >= 3 else None


def o_bond_order(a1, a2, rules=None):
    """documented guess: user rules (type SETS) first; H/halogen/sp3 C,N,O -> 1; equal sp2 pair -> 2; equal resonant
    pair -> 1.5; otherwise 1"""
    for types, bo in (rules or []):
        if set(types) == {a1, a2}:
            return bo
    if a1 in SINGLE or a2 in SINGLE:
        return 1
    if a1 == a2 and a1 in ("C_2", "N_2", "O_2"):
        return 2
    if a1 == a2 and a1 in ("C_R", "N_R", "O_R"):
        return 1.5
    return 1


def o_bond(a1, a2, n):
    """natural bond length r_ij = r_i + r_j + r_BO - r_EN and harmonic constant; LAMMPS `harmonic` K = k_ij / 2"""
    R = table()["rows"]
    ri, zi, xi = R[a1][0], R[a1][5], R[a1][8]
    rj, zj, xj = R[a2][0], R[a2][5], R[a2][8]
    r_bo = -LAMBDA * (ri + rj) * math.log(n)
    r_en = ri * rj * (math.sqrt(xi) - math.sqrt(xj)) ** 2 / (xi * ri + xj * rj)
    rij = ri + rj + r_bo - r_en
    return 0.5 * G * zi * zj / rij ** 3, rij


def o_angle(a1, a2, a3, n12, n23):
    """eq. 13 with beta = 664.12 / (r_ij r_jk); style by the equilibrium angle; fourier coefficients eq. 12"""
    R = table()["rows"]
    th = R[a2][1]
    t = math.radians(th)
    rij = o_bond(a1, a2, n12)[1]
    rjk = o_bond(a2, a3, n23)[1]
    c, s = math.cos(t), math.sin(t)
    rik2 = rij * rij + rjk * rjk - 2.0 * rij * rjk * c
    beta = G / (rij * rjk)
    k = beta * R[a1][5] * R[a3][5] / rik2 ** 2.5 * rij * rjk * (3.0 * rij * rjk * s * s - rik2 * c)
    if th in (180.0, 120.0, 90.0):
        if th == 180.0:
            n = 1
        elif th == 120.0:
            n = 3
        else:
            n = 2 if o_hyb(a2) == "3" else 4      # 4-coordinate (square-planar label "..3..") vs octahedral/square
        # LAMMPS cosine/periodic: E = C [1 - B (-1)^n cos(n theta)] must have its minimum at theta0
        b = int(round((-1) ** n * math.cos(n * t)))
        return ("cosine/periodic", [k, b, n])
    c2 = 1.0 / (4.0 * s * s)
    return ("fourier", [k, c2 * (2.0 * c * c + 1.0), -4.0 * c2 * c, c2])


def o_torsion_class(a1, a2, a3, a4):
    """the documented case analysis; returns (class name, n, phi0 in degrees) | ('none',) | ('unsupported',)"""
    h = [o_hyb(x) for x in (a1, a2, a3, a4)]
    e2, e3 = o_elem(a2), o_elem(a3)
    sp3 = lambda x: x == "3"
    sp2 = lambda x: x in ("2", "R")
    if sp3(h[1]) and sp3(h[2]):
        if e2 in GROUP6 and e3 in GROUP6:
            return ("sp3sp3-group6", 2, 90.0)
        return ("sp3sp3", 3, 180.0)
    if sp2(h[1]) and sp2(h[2]):
        return ("sp2sp2", 2, 180.0)
    if (sp2(h[1]) or sp3(h[1])) and (sp2(h[2]) or sp3(h[2])):
        if (h[0] == "2" and h[1] == "2") or (h[2] == "2" and h[3] == "2"):
            return ("mixed-sp2-neighbour", 3, 180.0)
        if (sp3(h[1]) and e2 in GROUP6 and e3 not in GROUP6) or (sp3(h[2]) and e3 in GROUP6 and e2 not in GROUP6):
            return ("mixed-sp3-oxygen", 2, 90.0)
        return ("mixed", 6, 0.0)
    if h[1] == "1" or h[2] == "1":
        return ("none-sp",)
    main = table()["main"]
    if e2 not in main or e3 not in main:
        return ("none-not-main-group",)
    return ("unsupported",)


def o_torsion(a1, a2, a3, a4, m, n23):
    """E = 1/2 V [1 - cos(n phi0) cos(n phi)]  ->  LAMMPS harmonic K = V/2, d = -cos(n phi0), n; V shared by the m
    torsions about the bond"""
    cls = o_torsion_class(a1, a2, a3, a4)
    if cls[0].startswith("none"):
        return cls[0], {"none": True}
    if cls[0] == "unsupported":
        return cls[0], {"err": "unsupported"}
    name, n, phi0 = cls
    R = table()["rows"]
    if name == "sp3sp3":
        v = math.sqrt(R[a2][6] * R[a3][6])
    elif name == "sp3sp3-group6":
        vj = 2.0 if o_elem(a2) == "O" else 6.8
        vk = 2.0 if o_elem(a3) == "O" else 6.8
        v = math.sqrt(vj * vk)
    elif name in ("sp2sp2", "mixed-sp3-oxygen"):
        v = 5.0 * math.sqrt(R[a2][7] * R[a3][7]) * (1.0 + 4.18 * math.log(n23))
    elif name == "mixed-sp2-neighbour":
        v = 2.0
    else:
        v = 1.0
    d = int(round(-math.cos(math.radians(n * phi0))))
    return name, {"style": "harmonic", "v": [v / m / 2.0, d, n]}


def o_pair(a1):
    R = table()["rows"]
    return [R[a1][3], R[a1][2] / 2.0 ** (1.0 / 6.0)]


# --------------------------------------------------------------------------------------------- real code

_RU = None


def RU():
    global _RU
    if _RU is None:
        with core.quiet():
            from mofun import rough_uff
        _RU = rough_uff
    return _RU


def _err(e):
    if type(e) is Exception and str(e).startswith("we don't know how to handle this dihedral"):
        return {"err": "unsupported"}
    return {"err": "error:" + type(e).__name__}


def _rules_py(rules):
    return None if rules is None else [(set(ts), float(Fraction(bo))) for ts, bo in rules]


def _bo_py(bo):
    return None if bo is None else float(Fraction(bo))


MUTATED = []          # inputs on which the real code modified an argument object it was given (side channel of `real`)


def real(inp):
    """run the real function named by `inp["op"]`; canonical result (call under core.quiet()).
    Arguments the input leaves unspecified (bond orders None, no rules, multiplicity 1) are NOT passed, so that the
    code's own default arguments are used — the way assign_*_types call these functions; explicitly given argument
    objects are checked for mutation afterwards."""
    op = inp["op"]
    ru = RU()
    rules = _rules_py(inp.get("rules"))
    rules0 = None if rules is None else [(set(ts), bo) for ts, bo in rules]
    kw = {} if rules is None else {"bond_order_rules": rules}
    try:
        try:
            if op == "bond_order":
                if rules is None:
                    return {"ok": core.q(ru.guess_bond_order(inp["a1"], inp["a2"]))}
                return {"ok": core.q(ru.guess_bond_order(inp["a1"], inp["a2"], rules))}
            if op == "uff_bond":
                if inp.get("bo") is not None:
                    kw["bond_order"] = _bo_py(inp["bo"])
                k, r = ru.bond_params(inp["a1"], inp["a2"], **kw)
                return {"style": "bond", "v": [float(k), float(r)]}
            if op == "uff_angle":
                bos = None
                if inp.get("bo1") is not None or inp.get("bo2") is not None:
                    bos = [_bo_py(inp.get("bo1")), _bo_py(inp.get("bo2"))]
                    if inp.get("bos_as") == "tuple":
                        bos = tuple(bos)
                    elif inp.get("bos_as") == "array" and None not in bos:
                        import numpy as np
                        bos = np.array(bos)
                    kw["bond_orders"] = bos
                res = ru.angle_params(inp["a1"], inp["a2"], inp["a3"], **kw)
                if bos is not None and list(bos) != [_bo_py(inp.get("bo1")), _bo_py(inp.get("bo2"))]:
                    MUTATED.append((inp, "bond_orders list changed to %r" % (bos,)))
                if res[0] == "cosine/periodic":
                    return {"style": res[0], "v": [float(res[1]), res[2], res[3]]}
                return {"style": res[0], "v": [float(x) for x in res[1:]]}
            if op == "uff_dihedral":
                if inp["m"] != 1:
                    kw["num_dihedrals_about_bond"] = inp["m"]
                if inp.get("bo") is not None:
                    kw["bond_order"] = _bo_py(inp["bo"])
                res = ru.dihedral_params(inp["a1"], inp["a2"], inp["a3"], inp["a4"], **kw)
                if res is None:
                    return {"none": True}
                return {"style": res[0], "v": [float(res[1]), res[2], res[3]]}
            if op == "uff_pair":
                eps, sigma = ru.pair_coeffs(inp["a1"])
                return {"style": "lj", "v": [float(eps), float(sigma)]}
        finally:
            if rules is not None and rules != rules0:
                MUTATED.append((inp, "bond_order_rules changed to %r" % (rules,)))
    except Exception as e:  # noqa
        return _err(e)
    raise ValueError("unknown op " + op)


def reverse(inp):
    """the same term read from the other end"""
    r = dict(inp)
    op = inp["op"]
    if op in ("bond_order", "uff_bond"):
        r["a1"], r["a2"] = inp["a2"], inp["a1"]
    elif op == "uff_angle":
        r["a1"], r["a3"] = inp["a3"], inp["a1"]
        r["bo1"], r["bo2"] = inp.get("bo2"), inp.get("bo1")
    elif op == "uff_dihedral":
        r["a1"], r["a2"], r["a3"], r["a4"] = inp["a4"], inp["a3"], inp["a2"], inp["a1"]
    return r


# --------------------------------------------------------------------------------------------- comparison helpers

def fclose(a, b, tol=1e-9):
    if isinstance(a, str) or isinstance(b, str):
        return a == b
    if a == b:
        return True
    if not (math.isfinite(a) and math.isfinite(b)):
        return False
    d = abs(a - b)
    return d <= 1e-12 or d <= tol * max(abs(a), abs(b))


def text(res):
    """the coefficient text the code writes into the LAMMPS data file for this parameter tuple"""
    if "v" not in res:
        return json.dumps(res, sort_keys=True)
    v = res["v"]
    try:
        if res["style"] in ("cosine/periodic", "harmonic"):
            return "%s %10.6f %d %d" % (res["style"], v[0], v[1], v[2])
        return res["style"] + " " + " ".join("%10.6f" % x for x in v)
    except (TypeError, ValueError):
        return "unprintable " + repr(res)


def near_rounding_boundary(res):
    """some float of the tuple is within 1e-6 (in units of the last printed digit) of a %10.6f rounding boundary"""
    for x in res.get("v", []):
        if isinstance(x, float) and math.isfinite(x):
            y = abs(x) * 1e6
            if abs((y - math.floor(y)) - 0.5) < 1e-6 * max(1.0, y * 1e-9 * 1e6):
                return True
    return False


def vals_close(a, b):
    """two canonical results: same shape, same style / ints / error, floats within 1e-9 relative"""
    if set(a) != set(b):
        return False
    if "v" not in a:
        return a == b
    if a["style"] != b["style"] or len(a["v"]) != len(b["v"]):
        return False
    for x, y in zip(a["v"], b["v"]):
        if isinstance(x, int) and isinstance(y, int) and not isinstance(x, bool):
            if x != y:
                return False
        elif isinstance(x, str) or isinstance(y, str):
            if x != y:
                return False
        elif not fclose(float(x), float(y)):
            return False
    return True


def finite(res):
    return all(isinstance(x, int) or (isinstance(x, float) and math.isfinite(x)) for x in res.get("v", []))


# --------------------------------------------------------------------------------------------- the property oracle

def oracle(inp, res, rev):
    """the property on ONE input: `res` = real result, `rev` = real result for the reversed type sequence.
    Returns a list of (what, observed, required)."""
    op = inp["op"]
    bad = []
    keys = table()["rows"]
    if op == "bond_order":
        want = core.q(o_bond_order(inp["a1"], inp["a2"], _rules_py(inp.get("rules"))))
        if res != {"ok": want}:
            bad.append(("bond order guess differs from the documented rule", res, {"ok": want}))
        if rev != res:
            bad.append(("bond order guess not symmetric under reversal", [res, rev], "equal"))
        return bad
    types = [inp[k] for k in ("a1", "a2", "a3", "a4") if k in inp]
    if not all(t in keys for t in types):
        # outside the property's quantifier (malformed stream): only the reversal statement for torsions is checked
        if op == "uff_dihedral" and res != rev and not vals_close(res, rev):
            bad.append(("torsion outcome differs under reversal (non-table strings)", [res, rev], "equal"))
        return bad
    rules = _rules_py(inp.get("rules"))
    if op == "uff_bond":
        n = _bo_py(inp.get("bo"))
        if n is None:
            n = o_bond_order(inp["a1"], inp["a2"], rules)
        if n <= 0:
            return bad
        k, r = o_bond(inp["a1"], inp["a2"], n)
        want = {"style": "bond", "v": [k, r]}
        if "v" not in res or not finite(res):
            bad.append(("bond parameters undefined or not finite", res, want))
            return bad
        if not vals_close(res, want):
            bad.append(("bond parameters differ from the UFF formula", res, want))
        if n <= 32 and not (res["v"][0] > 0 and res["v"][1] > 0):          # theorems bond_len_pos_wide / bond_k_pos_wide
            bad.append(("bond force constant / length not positive", res, "k > 0 and r > 0"))
    elif op == "uff_angle":
        n12, n23 = _bo_py(inp.get("bo1")), _bo_py(inp.get("bo2"))
        if n12 is None:
            n12 = o_bond_order(inp["a1"], inp["a2"], rules)
        if n23 is None:
            n23 = o_bond_order(inp["a2"], inp["a3"], rules)
        if n12 <= 0 or n23 <= 0:
            return bad
        style, v = o_angle(inp["a1"], inp["a2"], inp["a3"], n12, n23)
        want = {"style": style, "v": v}
        if "v" not in res or not finite(res):
            bad.append(("angle parameters undefined or not finite", res, want))
            return bad
        if res["style"] != style:
            bad.append(("angle potential style differs from the documented one", res, want))
        elif not vals_close(res, want):
            bad.append(("angle parameters differ from the UFF formula", res, want))
        lo = 0.0 if keys[inp["a2"]][1] >= 90.0 else 0.05      # obtuse centres: (0,32] (angle_k_pos_obtuse_wide); acute: [0.05,32]
        if lo < n12 <= 32 and lo < n23 <= 32 and not res["v"][0] > 0:
            bad.append(("angle force constant not positive (centre %s)" % inp["a2"], res, "K > 0"))
    elif op == "uff_dihedral":
        n23 = _bo_py(inp.get("bo"))
        if n23 is None:
            n23 = o_bond_order(inp["a2"], inp["a3"], rules)
        if n23 <= 0 or inp["m"] < 1:
            return bad
        _, want = o_torsion(inp["a1"], inp["a2"], inp["a3"], inp["a4"], inp["m"], n23)
        if not finite(res):
            bad.append(("torsion parameters not finite", res, want))
        elif not vals_close(res, want):
            bad.append(("torsion parameters / undefined / unsupported differ from the documented case analysis", res, want))
    elif op == "uff_pair":
        want = {"style": "lj", "v": o_pair(inp["a1"])}
        if "v" not in res or not finite(res) or not vals_close(res, want):
            bad.append(("pair coefficients differ from eps = D1, sigma = x1 / 2^(1/6)", res, want))
        elif not (res["v"][0] > 0 and res["v"][1] > 0):
            bad.append(("pair coefficients not positive", res, "eps > 0 and sigma > 0"))
        return bad
    # symmetry under reversal: same style / None / unsupported, same coefficient text, values within 1e-9
    if not vals_close(res, rev):
        bad.append(("result differs under reversal of the type sequence", [res, rev], "equal (1e-9 relative)"))
    elif text(res) != text(rev):
        bad.append(("coefficient text differs under reversal of the type sequence", [text(res), text(rev)], "identical text"))
    return bad


def evaluate(inp):
    """real code forward + reversed, oracle; returns (result, failures)"""
    res = real(inp)
    rinp = reverse(inp)
    rev = res if rinp == inp else real(rinp)
    return res, oracle(inp, res, rev)


# --------------------------------------------------------------------------------------------- generators

def _q(x):
    return None if x is None else core.q(x)


def hyb_pools():
    keys = table()["keys"]
    main = table()["main"]
    pools = {"3": [], "2": [], "R": [], "1": [], "other-main": [], "other-notmain": [], "ox3": [], "end2": [], "endx": []}
    for k in keys:
        h, e = o_hyb(k), o_elem(k)
        if h in ("3", "2", "R", "1"):
            pools[h].append(k)
        elif e in main:
            pools["other-main"].append(k)
        else:
            pools["other-notmain"].append(k)
        if h == "3" and e in GROUP6:
            pools["ox3"].append(k)
        (pools["end2"] if h == "2" else pools["endx"]).append(k)
    return pools


def rand_rules(rng, keys, around=None):
    """user bond-order rules: sets of 1-3 types (listed in random order, possibly with a repetition), some of them built
    around the pair under test so that they actually fire"""
    rules = []
    for _ in range(rng.randint(1, 3)):
        if around and rng.random() < 0.7:
            base = list(around) if rng.random() < 0.7 else [rng.choice(around)]
        else:
            base = [rng.choice(keys) for _ in range(rng.randint(1, 2))]
        if rng.random() < 0.1:
            base.append(rng.choice(keys))
        if rng.random() < 0.15:
            base.append(base[0])
        rng.shuffle(base)
        rules.append([base, _q(_cont_bo(rng) if rng.random() < 0.25 else rng.choice([0.5, 1, 1.25, 1.5, 1.75, 2, 2.5, 3]))])
    return rules


def gen_pairs(ctx):
    keys = table()["keys"]
    rng = ctx.rng
    out = []
    for bo in BOS:
        for a in keys:
            for b in keys:
                out.append({"op": "uff_bond", "a1": a, "a2": b, "bo": _q(bo)})
    for a in keys:
        for b in keys:
            out.append({"op": "bond_order", "a1": a, "a2": b})
    special = ["H_", "F_", "Cl", "Br", "I_", "C_3", "N_3", "O_3", "C_2", "N_2", "O_2", "C_R", "N_R", "O_R", "S_R", "B_2"]
    for _ in range(ctx.n(3000, 30000)):
        a = rng.choice(special if rng.random() < 0.4 else keys)
        b = a if rng.random() < 0.2 else rng.choice(special if rng.random() < 0.4 else keys)
        rules = rand_rules(rng, keys, around=[a, b])
        out.append({"op": "bond_order", "a1": a, "a2": b, "rules": rules})
        out.append({"op": "uff_bond", "a1": a, "a2": b, "bo": None, "rules": rules})
    # explicit bond orders from a continuous range (0.1 .. 8), every type on either side
    for i in range(ctx.n(4000, 40000)):
        a = keys[i % len(keys)]
        b = a if rng.random() < 0.1 else rng.choice(keys)
        if rng.random() < 0.5:
            a, b = b, a
        out.append({"op": "uff_bond", "a1": a, "a2": b, "bo": _q(_cont_bo(rng))})
    # strings that are not table keys: the guess is defined for every string
    odd = ["", "C", "C_", "C_RR", "H_b", "_", "__", "X_3", "O_3_z", "c_r", "C_2 ", "N_R"]
    for a in odd:
        for b in odd:
            out.append({"op": "bond_order", "a1": a, "a2": b})
            out.append({"op": "bond_order", "a1": a, "a2": b, "rules": [[[b, a], "5/2"]]})
    for a in keys:
        out.append({"op": "uff_pair", "a1": a})
    return out


def _cont_bo(rng):
    """a positive bond order from a continuous (log-uniform) range 0.1 .. 8, as the double it is"""
    return math.exp(rng.uniform(math.log(0.1), math.log(8.0)))


def _rand_bo(rng):
    return _cont_bo(rng) if rng.random() < 0.25 else rng.choice([None, None, None, None, 1, 1.5, 2])


def gen_triples(ctx, per_centre):
    keys = table()["keys"]
    rng = ctx.rng
    out = []
    ends = list(keys)
    for j, c in enumerate(keys):
        for i in range(per_centre):
            a1 = ends[(j * per_centre + i) % len(ends)] if i % 3 == 0 else rng.choice(keys)   # every end type occurs
            a3 = a1 if rng.random() < 0.08 else rng.choice(keys)
            inp = {"op": "uff_angle", "a1": a1, "a2": c, "a3": a3, "bo1": None, "bo2": None}
            r = rng.random()
            if r < 0.15:
                inp["bo1"], inp["bo2"] = _q(_rand_bo(rng)), _q(_rand_bo(rng))
                inp["bos_as"] = rng.choice(["list", "tuple", "array"])      # container spelling of bond_orders
            elif r < 0.2:
                inp["rules"] = rand_rules(rng, keys, around=[a1, c, a3])
            out.append(inp)
    return out


def gen_quads(ctx, n_random, per_class):
    keys = table()["keys"]
    rng = ctx.rng
    P = hyb_pools()
    out = []

    def end(flag):
        return rng.choice(P["end2"] if flag else P["endx"])

    def mk(a2, a3, e0=None, e3=None):
        e0 = rng.random() < 0.4 if e0 is None else e0
        e3 = rng.random() < 0.4 if e3 is None else e3
        inp = {"op": "uff_dihedral", "a1": end(e0), "a2": a2, "a3": a3, "a4": end(e3),
               "m": rng.randint(1, 9) if rng.random() < 0.8 else rng.randint(10, 40), "bo": None}
        r = rng.random()
        if r < 0.12:
            inp["bo"] = _q(rng.choice([1, 1.5, 2]) if rng.random() < 0.6 else _cont_bo(rng))
        elif r < 0.16:
            inp["rules"] = rand_rules(rng, keys, around=[a2, a3])
        return inp

    # every centre type, both positions
    per = max(1, n_random // (2 * len(keys)))
    for c in keys:
        for _ in range(per):
            out.append(mk(c, rng.choice(keys)))
            out.append(mk(rng.choice(keys), c))
    # the undefined / unsupported boundary, per type: with a main-group partner that is neither sp nor sp2/sp3/resonant
    # the outcome (None vs. "don't know how to handle") is decided by whether THIS type's element is a main-group
    # element - every non-sp type of the table is put in that position, on either side of the bond
    for c in keys:
        if o_hyb(c) == "1":
            continue
        for _ in range(max(1, per // 10)):
            out.append(mk(c, rng.choice(P["other-main"])))
            out.append(mk(rng.choice(P["other-main"]), c))
    # every class of centre pair
    sp2R = P["2"] + P["R"]
    combos = [("3", "3"), ("ox3", "ox3"), ("ox3", "3"), ("2R", "2R"), ("2", "3"), ("R", "3"), ("2", "ox3"), ("R", "ox3"),
              ("1", "3"), ("1", "2R"), ("1", "1"), ("1", "other-main"), ("other-main", "3"), ("other-main", "2R"),
              ("other-main", "other-main"), ("other-notmain", "3"), ("other-notmain", "other-main"),
              ("other-notmain", "other-notmain"), ("other-notmain", "2R")]
    pool = lambda name: sp2R if name == "2R" else P[name]
    for x, y in combos:
        for _ in range(per_class):
            a2, a3 = rng.choice(pool(x)), rng.choice(pool(y))
            if rng.random() < 0.5:
                a2, a3 = a3, a2
            out.append(mk(a2, a3))
    # malformed stream: strings outside the table (KeyError paths, pure case analysis), multiplicity 0
    odd = ["X_3", "Y_2", "Q_R", "O_3x", "S_3", "Zz1", "ab", "", "C_"]
    for _ in range(per_class):
        a2, a3 = rng.choice(odd + keys[:30]), rng.choice(odd)
        if rng.random() < 0.5:
            a2, a3 = a3, a2
        inp = mk(a2, a3)
        inp["a1"] = rng.choice(odd + ["C_2", "H_"])
        out.append(inp)
    for _ in range(20):
        inp = mk(rng.choice(keys), rng.choice(keys))
        inp["m"] = 0
        out.append(inp)
    return out


def gen_sequences(ctx, n_seq):
    """ORDERED call sequences with the code's default arguments, built so that consecutive terms have DIFFERENT guessed
    bond orders (resonant 1.5 / double 2 / single 1 / user rules): every result must equal the stateless formula value
    whatever was evaluated before (the way assign_*_types evaluate one type after another)."""
    keys = table()["keys"]
    rng = ctx.rng
    res15, dbl, sgl = ["C_R", "N_R", "O_R"], ["C_2", "N_2", "O_2"], ["C_3", "N_3", "O_3", "H_", "F_", "Cl"]
    metals = [k for k in keys if o_elem(k) not in table()["main"]]
    fixed = [("C_R", "C_R", "C_R"), ("C_3", "C_3", "C_3"), ("C_2", "C_2", "C_2"), ("O_3", "Zr3+4", "O_3"),
             ("N_R", "N_R", "H_"), ("C_R", "C_R", "C_3"), ("O_2", "O_2", "O_2"), ("H_", "C_3", "H_"),
             ("N_2", "N_2", "N_2"), ("O_R", "O_R", "O_R"), ("C_R", "N_R", "C_3"), ("O_3", "Cu4+2", "O_3")]
    out = []

    def pick(kind):
        if kind == 0:
            x = rng.choice(res15)
            return (x, x, x) if rng.random() < 0.6 else (x, x, rng.choice(keys))
        if kind == 1:
            x = rng.choice(dbl)
            return (x, x, x) if rng.random() < 0.6 else (rng.choice(keys), x, x)
        if kind == 2:
            return (rng.choice(sgl), rng.choice(keys), rng.choice(sgl))
        return (rng.choice(keys), rng.choice(metals), rng.choice(keys))

    def angle(t, rules=None):
        inp = {"op": "uff_angle", "a1": t[0], "a2": t[1], "a3": t[2], "bo1": None, "bo2": None}
        if rules:
            inp["rules"] = rules
        return inp

    out.extend(angle(t) for t in fixed)
    out.extend(angle(t) for t in reversed(fixed))
    for _ in range(n_seq):
        kinds = [0, 1, 2, 3, 0, 1]
        rng.shuffle(kinds)
        for kd in kinds:
            t = pick(kd)
            r = rng.random()
            if r < 0.6:
                out.append(angle(t))
            elif r < 0.8:     # user rule that changes the order of one of the two bonds, default bond_orders
                out.append(angle(t, [[[t[0], t[1]], _q(rng.choice([1, 1.5, 2]))], [[t[1], t[2]], _q(rng.choice([1, 1.25, 2]))]]))
            elif r < 0.9:
                out.append({"op": "uff_bond", "a1": t[0], "a2": t[1], "bo": None})
            else:
                out.append({"op": "uff_dihedral", "a1": rng.choice(keys), "a2": t[0], "a3": t[1], "a4": rng.choice(keys),
                            "m": rng.choice([1, 1, 2, 3]), "bo": None})
    return out


def _coef_close(got, want_res):
    """a coefficient string of assign_*_types (without its comment) vs the oracle's parameter tuple"""
    want = text(want_res)
    if got.split() == want.split():
        return True
    g, w = got.split(), want.split()
    if len(g) != len(w) or not near_rounding_boundary(want_res):
        return False
    try:
        return all(a == b or abs(float(a) - float(b)) <= 1.0000001e-6 for a, b in zip(g, w))
    except ValueError:
        return False


def assign_stream(ctx, n_mol):
    """the real assign_bond_types / assign_angle_types / assign_dihedral_types call order on small random type
    graphs (duck-typed atoms object): every written coefficient line must be the oracle's text for the type tuple named
    in its comment.  Oracle only (the typing itself belongs to C19)."""
    import types
    import numpy as np
    keys = table()["keys"]
    rng = ctx.rng
    ru = RU()
    organic = ["C_R", "C_3", "C_2", "N_R", "N_3", "O_3", "O_2", "O_R", "H_", "N_2", "C_1", "S_3+2", "Zr3+4", "Cu4+2", "Zn3+2"]
    for _ in range(n_mol):
        n = rng.randint(5, 10)
        ut = [rng.choice(organic if rng.random() < 0.8 else keys) for _ in range(n)]
        rules = None
        if rng.random() < 0.3:
            rules = rand_rules(rng, keys, around=[rng.choice(ut), rng.choice(ut)])
        rules_py = _rules_py(rules)
        bonds = [(i, i + 1) for i in range(n - 1)] + [(rng.randrange(n), rng.randrange(n)) for _ in range(2)]
        bonds = [b for b in bonds if b[0] != b[1]]
        with core.quiet():
            angles = ru.calc_angles(bonds)
            dihedrals = ru.calc_dihedrals(bonds)
            at = types.SimpleNamespace(bonds=np.array(bonds), angles=angles, dihedrals=[tuple(d) for d in dihedrals])
            at.dihedral_type_coeffs = []
            try:
                ru.assign_bond_types(at, ut, bond_order_rules=rules_py)
                ru.assign_angle_types(at, ut, bond_order_rules=rules_py)
                try:
                    ru.assign_dihedral_types(at, ut, bond_order_rules=rules_py)
                except Exception as e:  # noqa
                    if _err(e) != {"err": "unsupported"}:
                        raise
                    at.dihedral_type_coeffs = []          # a torsion the code declares unsupported: bonds/angles still checked
                    ctx.count("assign:unsupported-torsion")
            except Exception as e:  # noqa
                ctx.fail("assign_*_types raised %s" % type(e).__name__, {"op": "assign", "uff": ut, "bonds": bonds, "rules": rules})
                continue
        inp0 = {"op": "assign", "uff": ut, "bonds": [list(b) for b in bonds], "rules": rules}
        ctx.case(inp0, nontrivial=True)
        ctx.count("assign")
        for line in at.bond_type_coeffs:
            coef, com = line.split(" # ")
            a1, a2 = com.split()
            k, r = o_bond(a1, a2, o_bond_order(a1, a2, rules_py))
            if not _coef_close("bond " + coef, {"style": "bond", "v": [k, r]}):
                ctx.fail("bond coefficient written by assign_bond_types differs from the UFF formula",
                         {"op": "uff_bond", "a1": a1, "a2": a2, "bo": None, "rules": rules, "context": inp0},
                         observed=line, required=text({"style": "bond", "v": [k, r]}))
        for line in at.angle_type_coeffs:
            coef, com = line.split(" # ")
            a1, a2, a3 = com.split()
            st, v = o_angle(a1, a2, a3, o_bond_order(a1, a2, rules_py), o_bond_order(a2, a3, rules_py))
            if not _coef_close(coef, {"style": st, "v": v}):
                ctx.fail("angle coefficient written by assign_angle_types differs from the UFF formula (call-order dependent?)",
                         {"op": "uff_angle", "a1": a1, "a2": a2, "a3": a3, "bo1": None, "bo2": None, "rules": rules,
                          "context": inp0}, observed=line, required=text({"style": st, "v": v}))
        for line in at.dihedral_type_coeffs:
            coef, com = line.split(" # ")
            a1, a2, a3, a4, m = com.split()
            m = int(m[2:])
            _, want = o_torsion(a1, a2, a3, a4, m, o_bond_order(a2, a3, rules_py))
            if "v" not in want or not _coef_close(coef, want):
                ctx.fail("torsion coefficient written by assign_dihedral_types differs from the UFF formula",
                         {"op": "uff_dihedral", "a1": a1, "a2": a2, "a3": a3, "a4": a4, "m": m, "bo": None, "rules": rules,
                          "context": inp0}, observed=line, required=text(want))


# --------------------------------------------------------------------------------------------- assign_* entry points

def _as_tuples(arr):
    return [tuple(int(x) for x in t) for t in arr]


def _mk_atoms(inp):
    """a real mofun.Atoms for an "assign" input (per-atom elements from the UFF types; term lists as given)"""
    from mofun import Atoms
    ut = inp["uff"]
    n = len(ut)
    if n == 0:
        return Atoms()
    els = [o_elem(t) or "X" for t in ut]
    uniq = list(dict.fromkeys(els))
    kw = dict(atom_types=[uniq.index(e) for e in els], atom_type_elements=uniq, atom_type_masses=[1.0 + i for i in range(len(uniq))],
              positions=[(1.5 * i, 0.25 * (i % 3), 0.0) for i in range(n)])
    for k in ("bonds", "angles", "dihedrals"):
        if inp.get(k):
            kw[k] = [tuple(t) for t in inp[k]]
            kw[k[:-1] + "_types"] = [0] * len(inp[k])
    a = Atoms(**kw)
    if inp.get("via") == "copy":
        a = a.copy()
    return a


def check_assign(inp):
    """assign_bond_types / assign_angle_types / assign_dihedral_types on a real Atoms whose term lists are written in
    arbitrary direction and order: the coefficient text that reaches EVERY term (through its type id) must be the
    oracle's text for that term's UFF types (torsions: with M = number of listed torsions about the same central bond,
    whichever way they are written); a torsion is dropped iff the documented case analysis says undefined; the call
    raises iff a listed torsion is unsupported.  Returns a list of (what, observed, required)."""
    ru = RU()
    ut = inp["uff"]
    rules_py = _rules_py(inp.get("rules"))
    excl = None if inp.get("exclude") is None else set(inp["exclude"])
    bad = []

    def kept(t, arity):
        return not (excl is not None and len(excl) >= arity and set(t) <= excl)

    def want_bond(t):
        a1, a2 = ut[t[0]], ut[t[1]]
        k, r = o_bond(a1, a2, o_bond_order(a1, a2, rules_py))
        return {"style": "bond", "v": [k, r]}

    def want_angle(t):
        a1, a2, a3 = (ut[i] for i in t)
        st, v = o_angle(a1, a2, a3, o_bond_order(a1, a2, rules_py), o_bond_order(a2, a3, rules_py))
        return {"style": st, "v": v}

    dih0 = [tuple(t) for t in inp.get("dihedrals") or []]
    mult = {}
    for t in dih0:
        key = frozenset((t[1], t[2]))
        mult[key] = mult.get(key, 0) + 1

    def want_dih(t):
        a = [ut[i] for i in t]
        return o_torsion(a[0], a[1], a[2], a[3], mult[frozenset((t[1], t[2]))], o_bond_order(a[1], a[2], rules_py))[1]

    with core.quiet():
        atoms = _mk_atoms(inp)
        kw = {}
        if rules_py is not None:
            kw["bond_order_rules"] = rules_py
        if excl is not None:
            kw["exclude"] = set(excl)
        for kind, arity, fn, want in (("bond", 2, ru.assign_bond_types, want_bond), ("angle", 3, ru.assign_angle_types, want_angle)):
            orig = [tuple(t) for t in inp.get(kind + "s") or []]
            try:
                fn(atoms, ut, **kw)
            except Exception as e:  # noqa
                bad.append(("assign_%s_types raised %s" % (kind, type(e).__name__), repr(e)[:200], "no exception"))
                continue
            terms = _as_tuples(getattr(atoms, kind + "s"))
            types_ = [int(x) for x in getattr(atoms, kind + "_types")]
            coeffs = list(getattr(atoms, kind + "_type_coeffs"))
            exp = [t for t in orig if kept(t, arity)]
            if terms != exp or len(types_) != len(terms):
                bad.append(("%ss left after assign_%s_types are not the listed ones minus the excluded ones" % (kind, kind), terms, exp))
                continue
            for t, ty in zip(terms, types_):
                if not (0 <= ty < len(coeffs)):
                    bad.append(("%s %s has no coefficient line (type %d of %d)" % (kind, t, ty, len(coeffs)), ty, "valid type id"))
                    break
                coef, _, com = coeffs[ty].partition(" # ")
                w = want(t)
                if not _coef_close(("bond " + coef) if kind == "bond" else coef, w):
                    bad.append(("%s coefficients reaching %s %s (%s) differ from the UFF formula" %
                                (kind, kind, t, "-".join(ut[i] for i in t)), coeffs[ty], text(w)))
                    break
                names = tuple(ut[i] for i in t)
                if tuple(com.split()) not in (names, names[::-1]):
                    bad.append(("%s type comment names other types than the term's" % kind, coeffs[ty], " ".join(names)))
                    break
        if True:                                               # an empty torsion list is exercised too
            exp_live = [t for t in dih0 if kept(t, 4)]
            wants = {t: want_dih(t) for t in exp_live}
            must_raise = any(w.get("err") == "unsupported" for w in wants.values())
            try:
                ru.assign_dihedral_types(atoms, ut, **kw)
                raised = None
            except Exception as e:  # noqa
                raised = _err(e)
            if must_raise:
                if raised != {"err": "unsupported"}:
                    bad.append(("a listed torsion is unsupported but assign_dihedral_types did not say so", raised, "unsupported"))
            elif raised is not None:
                bad.append(("assign_dihedral_types raised", raised, "no exception"))
            else:
                terms = _as_tuples(atoms.dihedrals)
                types_ = [int(x) for x in atoms.dihedral_types]
                coeffs = list(atoms.dihedral_type_coeffs)
                exp = [t for t in exp_live if "v" in wants[t]]
                if terms != exp or len(types_) != len(terms):
                    bad.append(("torsions left after assign_dihedral_types are not the listed, non-excluded, defined ones", terms, exp))
                else:
                    for t, ty in zip(terms, types_):
                        if not (0 <= ty < len(coeffs)):
                            bad.append(("torsion %s has no coefficient line" % (t,), ty, "valid type id"))
                            break
                        coef, _, com = coeffs[ty].partition(" # ")
                        w = wants[t]
                        m = mult[frozenset((t[1], t[2]))]
                        if not _coef_close(coef, w):
                            bad.append(("torsion coefficients reaching torsion %s (%s, %d torsions about its bond) differ from the "
                                        "UFF formula" % (t, "-".join(ut[i] for i in t), m), coeffs[ty], text(w)))
                            break
                        names = tuple(ut[i] for i in t)
                        cs = com.split()
                        if tuple(cs[:4]) not in (names, names[::-1]) or cs[4:] != ["M=%d" % m]:
                            bad.append(("torsion type comment names other types / multiplicity than the term's", coeffs[ty],
                                        " ".join(names) + " M=%d" % m))
                            break
    return bad


def check_assign_pair(inp):
    """assign_pair_coeffs on a real Atoms, both label modes: the Lennard-Jones text that reaches every ATOM must be the
    oracle's for the documented label (explicit label / retyped label; or, from elements, the FIRST table type of that
    element)."""
    from mofun import Atoms
    ru = RU()
    keys = table()["keys"]
    bad = []
    mode = inp["mode"]
    with core.quiet():
        if mode == "elements":
            els = inp["elements"]
            uniq = list(dict.fromkeys(els))
            if inp.get("order") == "reversed":
                uniq = uniq[::-1]
            a = Atoms(atom_types=[uniq.index(e) for e in els], atom_type_elements=uniq, atom_type_masses=[1.0] * len(uniq),
                      positions=[(float(i), 0.0, 0.0) for i in range(len(els))])
            if inp.get("via") == "copy":
                a = a.copy()
            want_label = []
            for e in els:
                cands = [k for k in keys if o_elem(k) == e]
                want_label.append(cands[0] if cands else None)
            try:
                ru.assign_pair_coeffs(a, assign_atom_type_labels_from_elements=True)
            except Exception as e:  # noqa
                if all(w is not None for w in want_label):
                    bad.append(("assign_pair_coeffs raised %s" % type(e).__name__, repr(e)[:200], "no exception"))
                return bad
        else:
            labels = inp["labels"]                       # one UFF type per atom
            els = [o_elem(t) for t in labels]
            want_label = list(labels)
            if mode == "retype":
                a = Atoms(elements=["C"] * len(labels), positions=[(float(i), 0.0, 0.0) for i in range(len(labels))])
                ru.retype_atoms_from_uff_types(a, list(labels))
            else:
                uniq = list(dict.fromkeys(labels))
                a = Atoms(atom_types=[uniq.index(t) for t in labels], atom_type_elements=[o_elem(t) or "X" for t in uniq],
                          atom_type_labels=list(uniq), atom_type_masses=[1.0] * len(uniq),
                          positions=[(float(i), 0.0, 0.0) for i in range(len(labels))])
            if inp.get("via") == "copy":
                a = a.copy()
            try:
                ru.assign_pair_coeffs(a)
            except Exception as e:  # noqa
                bad.append(("assign_pair_coeffs raised %s" % type(e).__name__, repr(e)[:200], "no exception"))
                return bad
        types_ = [int(x) for x in a.atom_types]
        pc = list(a.pair_coeffs)
        lab = list(a.atom_type_labels)
        for i, (ty, wl) in enumerate(zip(types_, want_label)):
            if wl is None:
                continue
            if not (0 <= ty < len(pc)) or len(lab) != len(pc):
                bad.append(("atom %d has no pair coefficient line" % i, [ty, len(pc), len(lab)], "one line per atom type"))
                break
            coef, _, com = pc[ty].partition(" # ")
            w = {"style": "lj", "v": o_pair(wl)}
            if lab[ty] != wl or com.strip() != wl:
                bad.append(("atom %d (element %s) is labelled %s; documented type is %s" % (i, els[i], lab[ty], wl), pc[ty], wl))
                break
            if not _coef_close("lj " + coef, w):
                bad.append(("pair coefficients reaching atom %d (%s) differ from eps = D1, sigma = x1 / 2^(1/6)" % (i, wl), pc[ty], text(w)))
                break
    return bad


def _rand_topology(rng, n):
    """a small connected graph (chain + branches + maybe a ring ≥ 4) as a bond list"""
    bonds = [(i, i + 1) for i in range(min(n, rng.randint(4, 6)) - 1)]
    used = max(b[1] for b in bonds) + 1
    while used < n:
        bonds.append((rng.randrange(used), used))
        used += 1
    chain = len([b for b in bonds if b[1] == b[0] + 1 and b[1] < 6])
    if rng.random() < 0.3 and chain >= 3:
        bonds.append((0, chain))                                     # close a ring of chain+1 >= 4 atoms
    return bonds


def assign_entry_stream(ctx, n_mol):
    """the assign_* entry points on real Atoms objects (constructor or copy()), term lists in arbitrary direction and
    order, optional exclusion sets and bond-order rules; assign_pair_coeffs with both label modes over EVERY element
    and EVERY type of the table.  Oracle only (typing/enumeration theorems belong to C19)."""
    rng = ctx.rng
    keys = table()["keys"]
    ru = RU()
    cases = []
    organic = ["C_R", "C_3", "C_2", "N_R", "N_3", "O_3", "O_2", "O_R", "H_", "N_2", "C_1", "S_3+2", "Zr3+4", "Cu4+2", "Zn3+2",
               "S_R", "B_2", "P_3+3", "Si3", "O_3_z"]
    defined_mid = ["C_R", "C_3", "C_2", "N_R", "N_3", "O_3", "O_R", "N_2", "S_3+2", "B_2", "Si3", "P_3+3", "S_R"]
    # ethane / propene / biphenyl-like fixed molecules first (every torsion about the central bond, both directions)
    fixed = [(["H_", "H_", "H_", "C_3", "C_3", "H_", "H_", "H_"], [(0, 3), (1, 3), (2, 3), (3, 4), (4, 5), (4, 6), (4, 7)]),
             (["C_2", "H_", "C_2", "C_3", "H_", "H_", "H_"], [(0, 2), (1, 2), (2, 3), (3, 4), (3, 5), (3, 6)]),
             (["C_R", "C_R", "C_R", "C_R", "C_R", "C_R"], [(0, 2), (1, 2), (2, 3), (3, 4), (3, 5)]),
             (["H_", "O_3", "S_3+2", "H_", "C_3"], [(0, 1), (1, 2), (2, 3), (2, 4)]),
             # degenerate term lists: no atoms; one atom; one bond only; one angle only; exactly one torsion;
             # every torsion undefined (sp centres / transition-metal centre); a single undefined torsion
             ([], []), (["C_3"], []), (["C_3", "H_"], [(0, 1)]), (["H_", "O_3", "H_"], [(0, 1), (1, 2)]),
             (["H_", "C_3", "N_3", "H_"], [(0, 1), (1, 2), (2, 3)]),
             (["H_", "C_1", "C_1", "C_1", "N_1"], [(0, 1), (1, 2), (2, 3), (3, 4)]),
             (["O_2", "Cu4+2", "O_2", "C_R", "O_2"], [(0, 1), (1, 2), (2, 3), (3, 4)]),
             (["H_", "C_1", "C_1", "H_"], [(0, 1), (1, 2), (2, 3)])]
    mols = list(fixed)
    for _ in range(n_mol):
        n = rng.randint(5, 10)
        pool = defined_mid if rng.random() < 0.5 else organic
        ut = [rng.choice(pool if rng.random() < 0.85 else keys) for _ in range(n)]
        mols.append((ut, _rand_topology(rng, n)))
    for ut, bonds in mols:
        with core.quiet():
            angles = _as_tuples(ru.calc_angles(bonds))
            dihedrals = _as_tuples(ru.calc_dihedrals(bonds))
        mode = rng.random()

        def scramble(terms):
            terms = [t[::-1] if rng.random() < 0.5 else t for t in terms]
            rng.shuffle(terms)
            return terms
        b, a, d = list(bonds), angles, dihedrals
        if mode < 0.75:
            b, a, d = scramble(b), scramble(a), scramble(d)
        if mode > 0.9 and len(d) > 3:
            d = rng.sample(d, len(d) - rng.randint(1, 2))             # a hand-written, incomplete torsion list
        inp = {"op": "assign", "uff": list(ut), "bonds": [list(t) for t in b], "angles": [list(t) for t in a],
               "dihedrals": [list(t) for t in d], "rules": None, "exclude": None}
        r = rng.random()
        if r < 0.25:
            inp["rules"] = rand_rules(rng, keys, around=[rng.choice(ut), rng.choice(ut)] if ut else None)
        if rng.random() < 0.2 and len(ut) >= 2:
            inp["exclude"] = sorted(rng.sample(range(len(ut)), rng.randint(2, min(5, len(ut)))))
        if rng.random() < 0.3:
            inp["via"] = "copy"
        cases.append(inp)
    for inp in cases:
        bad = check_assign(inp)
        ctx.case(inp, nontrivial=bool(inp["dihedrals"]))
        ctx.count("assign-entry" + (":copy" if inp.get("via") else "") + (":exclude" if inp["exclude"] else ""))
        both = {}
        for t in inp["dihedrals"]:
            both.setdefault(frozenset(t[1:3]), set()).add(tuple(t[1:3]))
        if any(len(v) == 2 for v in both.values()):
            ctx.count("assign-entry:bond-with-torsions-written-from-both-ends")
        for what, obs, req in bad:
            ctx.fail(what, inp, observed=obs, required=req)
    # pair coefficients: every element / every type of the table, both label modes
    from mofun.atomic_masses import ATOMIC_MASSES
    elements = list(dict.fromkeys(o_elem(k) for k in keys if o_elem(k) in ATOMIC_MASSES))
    pcs = [{"op": "assign_pair", "mode": "elements", "elements": elements},
           {"op": "assign_pair", "mode": "elements", "elements": elements, "order": "reversed", "via": "copy"},
           {"op": "assign_pair", "mode": "labels", "labels": list(keys)},
           {"op": "assign_pair", "mode": "retype", "labels": [k for k in keys if o_elem(k) in ATOMIC_MASSES]}]
    for e in elements:
        pcs.append({"op": "assign_pair", "mode": "elements", "elements": [e]})
    for _ in range(max(10, n_mol // 5)):
        k = rng.randint(2, 8)
        pcs.append({"op": "assign_pair", "mode": "elements", "elements": [rng.choice(elements) for _ in range(k)]})
        labs = [rng.choice(keys) for _ in range(k)]
        pcs.append({"op": "assign_pair", "mode": rng.choice(["labels", "retype"]) if all(o_elem(t) in ATOMIC_MASSES for t in labs)
                    else "labels", "labels": labs, "via": rng.choice([None, "copy"])})
    for inp in pcs:
        bad = check_assign_pair(inp)
        ctx.case(inp, nontrivial=True)
        ctx.count("assign-pair:" + inp["mode"])
        for what, obs, req in bad:
            ctx.fail(what, inp, observed=obs, required=req)


# --------------------------------------------------------------------------------------------- model side

def lean_many(ctx, ops):
    """the Lean driver on `ops`, split over several processes"""
    if not ops:
        return []
    nchunks = max(1, min(NPROC, len(ops) // 1500))
    size = (len(ops) + nchunks - 1) // nchunks
    chunks = [ops[i:i + size] for i in range(0, len(ops), size)]
    with concurrent.futures.ThreadPoolExecutor(max_workers=len(chunks)) as ex:
        parts = list(ex.map(lambda ch: core.Lean(ctx.lean.driver).run(ch), chunks))
    ctx.lean.lines += len(ops)
    ctx.lean.calls += len(chunks)
    return [r for p in parts for r in p]


def _model_canon(m):
    """JSON of the driver -> same canonical shape as `real` (floats as python floats, nan/inf as strings)"""
    if "v" in m:
        return {"style": m["style"], "v": [float(x) if isinstance(x, float) else x for x in m["v"]]}
    return m


def tie(ctx, inp, impl, model):
    """model vs implementation on one input: structure exactly, floats to 1e-9 relative, and the coefficient text"""
    model = _model_canon(model)
    if "bad" in model:
        ctx.compared += 1
        ctx.disagree(inp["op"], inp, impl, model, "driver rejected the op: %s" % model["bad"])
        return
    if not vals_close(impl, model):
        ctx.compared += 1
        ctx.disagree(inp["op"], inp, impl, model, "values differ: %s vs %s" % (text(impl), text(model)))
        return
    ti, tm = text(impl), text(model)
    if ti != tm and (near_rounding_boundary(impl) or near_rounding_boundary(model)):
        ctx.ambiguous += 1           # same value to 1e-9, printed on the two sides of a %10.6f rounding boundary
        return
    ctx.compare(inp["op"], inp, {"text": ti}, {"text": tm})


# --------------------------------------------------------------------------------------------- worker sweeps (thorough)

def _sweep_centre(j):
    """every ordered triple with centre keys[j] on the real code (guessed bond orders): oracle incl. reversal"""
    keys = table()["keys"]
    c = keys[j]
    fails, n, kmin = [], 0, (float("inf"), None)
    with core.quiet():
        res = {}
        for a1 in keys:
            for a3 in keys:
                res[(a1, a3)] = real({"op": "uff_angle", "a1": a1, "a2": c, "a3": a3})
        for a1 in keys:
            for a3 in keys:
                inp = {"op": "uff_angle", "a1": a1, "a2": c, "a3": a3, "bo1": None, "bo2": None}
                r = res[(a1, a3)]
                n += 1
                if "v" in r and isinstance(r["v"][0], float) and r["v"][0] < kmin[0]:
                    kmin = (r["v"][0], (a1, c, a3))
                for what, obs, req in oracle(inp, r, res[(a3, a1)]):
                    if len(fails) < 5:
                        fails.append((what, inp, obs, req))
    return c, n, fails, kmin


def _sweep_mid(j):
    """every centre pair (keys[j], *) x end classes x multiplicities 1..9, 12, 40 on the real code"""
    keys = table()["keys"]
    a2 = keys[j]
    fails, n, classes = [], 0, {}
    ends = [("C_2", True), ("H_", False)]
    with core.quiet():
        for a3 in keys:
            for e0, _ in ends:
                for e3, _ in ends:
                    for m in (1, 2, 3, 4, 5, 6, 7, 8, 9, 12, 40):
                        inp = {"op": "uff_dihedral", "a1": e0, "a2": a2, "a3": a3, "a4": e3, "m": m, "bo": None}
                        r, bad = evaluate(inp)
                        n += 1
                        if m == 1:
                            cl = o_torsion_class(e0, a2, a3, e3)[0]
                            classes[cl] = classes.get(cl, 0) + 1
                        for what, obs, req in bad:
                            if len(fails) < 5:
                                fails.append((what, inp, obs, req))
    return a2, n, fails, classes


def _pool():
    return multiprocessing.get_context("fork").Pool(NPROC)


# --------------------------------------------------------------------------------------------- run / search / replay

def _nontrivial(inp, res):
    op = inp["op"]
    if op == "bond_order":
        return inp.get("rules") is not None or inp["a1"] != inp["a2"]
    if "v" not in res:
        return False
    if op == "uff_bond":
        return inp["a1"] != inp["a2"] or inp.get("bo") not in (None, "1")
    return True


def _batch(ctx, cases, oracle_only, label):
    """real code + oracle on every case; model on every case unless oracle_only"""
    impls = []
    with core.quiet():
        for inp in cases:
            res, bad = evaluate(inp)
            impls.append(res)
            for what, obs, req in bad:
                ctx.fail(what, inp, observed=obs, required=req)
    while MUTATED:
        inp, what = MUTATED.pop()
        ctx.fail("the call modified an argument object it was given: " + what, inp, observed=what, required="arguments unchanged")
    for inp, res in zip(cases, impls):
        ctx.case(inp, nontrivial=_nontrivial(inp, res), sample_every=50000)
        ctx.count(inp["op"])
        if inp["op"] == "uff_angle" and "style" in res:
            ctx.count("angle:" + res["style"] + (":n=%d" % res["v"][2] if res["style"] == "cosine/periodic" else ""))
        elif inp["op"] == "uff_dihedral":
            if all(inp[k] in table()["rows"] for k in ("a1", "a2", "a3", "a4")):
                ctx.count("torsion:" + o_torsion_class(inp["a1"], inp["a2"], inp["a3"], inp["a4"])[0])
            else:
                ctx.count("torsion:malformed:" + (res.get("err") or ("none" if "none" in res else "defined")))
    if oracle_only:
        return
    models = lean_many(ctx, cases)
    for inp, res, m in zip(cases, impls, models):
        tie(ctx, inp, res, m)


def run(ctx, oracle_only=False):
    ctx.rule = RULE
    keys = table()["keys"]
    thorough = ctx.tier == "thorough"
    # 1. pairs: exhaustive in both tiers
    _batch(ctx, gen_pairs(ctx), oracle_only, "pairs")
    # 1b. ordered call sequences with default arguments (history independence), twice: forward and in reversed order
    seq = gen_sequences(ctx, n_seq=ctx.n(250, 3000))
    _batch(ctx, seq, oracle_only, "sequences")
    _batch(ctx, list(reversed(seq)), True, "sequences-reversed")
    ctx.count("sequence-calls", 2 * len(seq))
    # 1c. the call order of assign_bond_types / assign_angle_types / assign_dihedral_types
    assign_stream(ctx, ctx.n(150, 1500))
    # 1d. the assign_* entry points judged per TERM / per ATOM against the formula oracle (real Atoms objects, term lists
    #     in arbitrary direction and order, exclusion sets, both label modes for every element and type of the table)
    assign_entry_stream(ctx, ctx.n(250, 2500))
    # 2. triples: stratified through the model; exhaustive on the real code in the thorough tier
    _batch(ctx, gen_triples(ctx, per_centre=ctx.n(90, 4000)), oracle_only, "triples")
    # 3. quadruples
    _batch(ctx, gen_quads(ctx, n_random=ctx.n(9000, 200000), per_class=ctx.n(600, 4000)), oracle_only, "quads")
    if thorough:
        # every ordered centre pair x end classes through the model as well (one random multiplicity each)
        cls = []
        for a2 in keys:
            for a3 in keys:
                for e0 in ("C_2", "H_"):
                    for e3 in ("C_2", "H_"):
                        cls.append({"op": "uff_dihedral", "a1": e0, "a2": a2, "a3": a3, "a4": e3,
                                    "m": ctx.rng.randint(1, 40), "bo": None})
        _batch(ctx, cls, oracle_only, "quads-class-exhaustive")
        kmin = (float("inf"), None)
        with _pool() as pool:
            for c, n, fails, km in pool.imap_unordered(_sweep_centre, range(len(keys))):
                ctx.evaluations += n
                ctx.count("uff_angle:exhaustive-sweep", n)
                ctx.nontrivial.add("sweep-centre:" + c)
                kmin = min(kmin, km, key=lambda t: t[0])
                for what, inp, obs, req in fails:
                    ctx.fail(what, inp, observed=obs, required=req)
            for a2, n, fails, classes in pool.imap_unordered(_sweep_mid, range(len(keys))):
                ctx.evaluations += n
                ctx.count("uff_dihedral:class-exhaustive-sweep", n)
                ctx.nontrivial.add("sweep-mid:" + a2)
                for k, v in classes.items():
                    ctx.count("sweep-torsion:" + k, v)
                for what, inp, obs, req in fails:
                    ctx.fail(what, inp, observed=obs, required=req)
        ctx.notes.append("exhaustive sweep of all %d ordered triples on the real code (guessed bond orders): smallest angle "
                         "force constant %.6g at %s" % (len(keys) ** 3, kmin[0], "-".join(kmin[1] or ())))
        ctx.notes.append("torsions: every ordered centre pair x {sp2 end, other end}^2 x multiplicities 1..9, 12, 40 on the real code; "
                         "the case analysis depends on the ends only through that flag (theorem torsion_factors_through_classes)")
    ctx.exhaustive = True
    ctx.notes.append("exhaustive: all %d ordered pairs x bond orders {guessed,1,1.5,2}, all pair coefficients, all pairs "
                     "for guess_bond_order; triples/quadruples: %s" % (len(keys) ** 2,
                     "all ordered triples and all centre-pair classes on the real code, stratified sample through the model"
                     if thorough else "stratified (every centre type, every torsion class)"))


def search(ctx):
    """focused search on the real code only (no model): the thorough budget incl. the exhaustive sweeps"""
    saved = ctx.tier
    ctx.tier = "thorough"
    try:
        run(ctx, oracle_only=True)
    finally:
        ctx.tier = saved


PRIMERS = [("C_R", "C_R", "C_R"), ("C_3", "C_3", "C_3"), ("C_2", "C_2", "C_2"), ("H_", "O_3", "H_")]


def replay(ctx, rec):
    """True = the property holds now on rec["input"].  Results must not depend on what was evaluated before, so the
    input is evaluated inside a call sequence (primer, input, primer, input, …; the very first default-argument call of
    the process is a primer with other guessed bond orders) and every element of the sequence is checked."""
    inp = {k: v for k, v in rec["input"].items() if k != "context"}
    if inp.get("op") == "assign":
        return not check_assign(inp) if "bonds" in inp and "angles" in inp else True
    if inp.get("op") == "assign_pair":
        return not check_assign_pair(inp)
    bad = []
    with core.quiet():
        for t in PRIMERS:
            for pr in ({"op": "uff_angle", "a1": t[0], "a2": t[1], "a3": t[2], "bo1": None, "bo2": None},
                       {"op": "uff_bond", "a1": t[0], "a2": t[1], "bo": None},
                       {"op": "uff_dihedral", "a1": t[0], "a2": t[0], "a3": t[1], "a4": t[2], "m": 1, "bo": None}):
                bad += evaluate(pr)[1]
            bad += evaluate(inp)[1]
    ok = not bad and not MUTATED
    del MUTATED[:]
    return ok
