"""C14 — elements inferred from masses are the nearest element within tolerance (helpers.guess_elements_from_masses,
the element / label inference of Atoms.load_lmpdat, and the save_lmpdat -> load_lmpdat cycle)."""
import io
from fractions import Fraction

from .. import core, gen_tables

RULE = ("EXHAUSTIVE over the mass table of /repo: for every tolerance in {0.01, 0.1, 0.5} (thorough: + 0.05, 0.2, 1.0) and "
        "every table mass M the masses M, M±(tol-1e-6), M±tol, M±(tol+1e-6); every midpoint between neighbours in mass "
        "order and the masses 1e-6 on either side of it; masses below / above the table (negative, 0, min-tol-1e-6, "
        "max+tol+1e-6, 1000, 1700, 1e6); lists of masses (all good / one bad); the same masses through the real "
        "load_lmpdat (data text with and without label comments, partial comments, several types, default and explicit "
        "guess_atol; also data texts with 10…30 atom types, every type used, atoms in shuffled type order; Masses lines "
        "listed in ANY order — shuffled, reversed, rotated, one pair swapped, 2…30 types — each line binding its mass and "
        "label to its type id) and the "
        "save_lmpdat -> load_lmpdat cycle for every element of the table (singly, in random groups, in structures with "
        "12…40 types and with all 117 elements at once), and for structures ASSEMBLED from pieces that bring their own atom "
        "types of differing masses (extend with automatic type extension, extend_types + extend(offsets), two extensions, "
        "replace_pattern_in_structure with a replacement introducing new elements): per-atom "
        "elements before writing vs after reading; and through EVERY public entry point (save_lmpdat / load_lmpdat directly, "
        "Atoms.save / Atoms.load with str path, pathlib.Path, explicit filetype=, open file; all 75 writer x reader x "
        "atom_format {not passed, full, atomic} combinations; file_comment / guess_atol passed or not) for structures made by "
        "elements=, Atoms.from_ase_atoms, copy(), a[idx] or read from a file, judged on .elements and .symbols; every keyword of both entry points at default / edge / "
        "non-default values (max_delta / guess_atol = 0, 0.0, numpy 0.0, 1e-9, negative, 1, 1e6, 1e300; positional and keyword "
        "spellings; atom_format full / atomic; Atoms.load(..., filetype='lmpdat', **kw)); SEQUENCES of calls in one process "
        "with the same masses and different tolerances (large first, small first, back again; mixed entry points), each "
        "call compared with the stateless oracle and model; the run-time table ATOMIC_MASSES (all module aliases) compared "
        "with an independent re-read of the source at the start, after constructor calls with unknown / odd element names "
        "(elements= / atom_type_elements= / CML, with and without explicit masses) and at the end, each followed by small "
        "masses (0.05, 0, 0.09, 0.0999, 0.001, -0.05) through both entry points; the SPELLING of the masses in the data "
        "file (fixed point with 4…10 digits / trailing zeros / leading '+', exponent notation 1.20107e+01 / E / e1 / 120.107e-1 / "
        "0.0120107e3, %g, '12.' / '.5'; blanks or tabs around the columns): every table element alone, masses on either side of "
        "the tolerance boundaries in 17-digit exponent notation, non-atomic masses in exponent notation, files with 1…30 types "
        "each line in its own spelling — the mass being the number the token denotes (exact decimal reading). "
        "Non-trivial = distinct input in which some mass is not an exact table mass, or is the exact mass of an element "
        "that has a heavier element before it in table order (Ar/K, Co/Ni, Te/I, Th/Pa, U/Np, ...).")

EPS = 1e-6
SLACK = Fraction(1, 10 ** 9)


# ------------------------------------------------------------------ the table, read independently from the source text

def table():
    """[(symbol, exact decimal mass as Fraction)] in source order — parsed from the source text, not imported"""
    return [(k, Fraction(m, 10 ** e)) for k, (m, e) in gen_tables.read_tables()["masses"]]


def fr(x):
    return Fraction(float(x))


def sl(m, tol):
    """decision slack: 1e-9 in the range of atomic masses; relative (1e-12) for magnitudes where doubles cannot resolve 1e-9"""
    return max(SLACK, (abs(m) + abs(tol)) / 10 ** 12)


def margins(T, m, tol):
    """(best distance, |best - tol|, gap between the nearest mass and the nearest DIFFERENT mass)"""
    ds = sorted({abs(M - m) for _, M in T})
    best = ds[0]
    gap = (ds[1] - best) if len(ds) > 1 else Fraction(10 ** 9)
    return best, abs(best - tol), gap


def ambiguous(T, m, tol):
    """the decision of the exact rule is closer than 1e-9 to flipping: float and exact arithmetic may legitimately differ"""
    best, mt, gap = margins(T, m, tol)
    return mt < sl(m, tol) or (best < tol and gap < sl(m, tol))


# ------------------------------------------------------------------ the property, stated directly (independent oracle)

def oracle_one(T, m, tol, sym):
    """sym = returned symbol or None (= the call raised). Returns None or a description of the violation."""
    masses = dict(T)
    best = min(abs(M - m) for _, M in T)
    if sym is None:
        if best < tol - sl(m, tol):
            near = [s for s, M in T if abs(M - m) == best][0]
            return "mass %r rejected although %s is within the tolerance %r (|dm| = %.9g)" % (float(m), near, float(tol), float(best))
        return None
    if sym not in masses:
        return "mass %r: returned %r, which is not an element of the table" % (float(m), sym)
    d = abs(masses[sym] - m)
    if d >= tol + sl(m, tol):
        return "mass %r read as %s although its mass %r is not within the tolerance %r" % (float(m), sym, float(masses[sym]), float(tol))
    if d > best + sl(m, tol):
        near = [s for s, M in T if abs(M - m) == best][0]
        return "mass %r read as %s (|dm| = %.9g) although %s is strictly closer (|dm| = %.9g)" % (float(m), sym, float(d), near, float(best))
    return None


def oracle_list(T, ms, tol, r):
    if "ok" in r:
        if len(r["ok"]) != len(ms):
            return "%d elements returned for %d masses" % (len(r["ok"]), len(ms))
        for m, s in zip(ms, r["ok"]):
            bad = oracle_one(T, m, tol, s)
            if bad:
                return bad
        return None
    if r.get("err") != "reject:mass":
        return "unexpected exception %s" % r.get("err")
    if all(min(abs(M - m) for _, M in T) < tol - sl(m, tol) for m in ms):
        return "the call raised although every mass is within the tolerance of a table element"
    return None


def oracle_load(T, ms, tol, comments, r):
    """r = {"ok": {"elements": [...], "labels": [...]}} from load_lmpdat"""
    if "ok" not in r:
        return "load_lmpdat raised %s" % r.get("err")
    els, labels = r["ok"]["elements"], r["ok"]["labels"]
    n = len(ms)
    numbers = [str(i + 1) for i in range(n)]
    best = [min(abs(M - m) for _, M in T) for m in ms]
    if len(els) != n:
        return "%d elements for %d types" % (len(els), n)
    if any(b >= tol + sl(m, tol) for b, m in zip(best, ms)):
        if els != numbers:
            return "some mass matches no element within the tolerance, but the elements are %s instead of the type numbers" % els
    elif all(b < tol - sl(m, tol) for b, m in zip(best, ms)):
        if els == numbers:
            return "every mass matches an element, but the type numbers were used"
        for m, s in zip(ms, els):
            bad = oracle_one(T, m, tol, s)
            if bad:
                return bad
    elif els != numbers:
        for m, s in zip(ms, els):
            bad = oracle_one(T, m, tol, s)
            if bad:
                return bad
    want = list(comments) if all(c is not None for c in comments) else els
    if labels != want:
        return "labels %s, required %s" % (labels, want)
    return None


# ------------------------------------------------------------------ the real code

def _exc(e):
    if type(e) is Exception and "no element matching mass" in str(e):
        return {"err": "reject:mass"}
    return {"err": "error:" + type(e).__name__}


def real_guess(ms, tol, default=False, style="kw"):
    """style: how the arguments are passed — "kw" (masses, max_delta=tol), "pos" (masses, tol), "allkw" (masses=…, max_delta=…)"""
    from mofun.helpers import guess_elements_from_masses
    try:
        with core.quiet():
            if default:
                r = guess_elements_from_masses(masses=ms) if style == "allkw" else guess_elements_from_masses(ms)
            elif style == "pos":
                r = guess_elements_from_masses(ms, tol)
            elif style == "allkw":
                r = guess_elements_from_masses(max_delta=tol, masses=ms)
            else:
                r = guess_elements_from_masses(ms, max_delta=tol)
        return {"ok": [str(s) for s in r]}
    except Exception as e:  # noqa
        return _exc(e)


def text_value(text):
    """the number a mass token denotes, read by our own means (exact decimal -> exact rational), not by the library"""
    from decimal import Decimal
    return Fraction(Decimal(text))


def spell(rng, m, family=None):
    """(family, text): one of the spellings of a number that LAMMPS accepts in a data file (utils::is_double:
    [+-]digits[.digits][(e|E)[+-]digits], also "12." and ".5").  The text may denote a slightly different number than m
    (fewer digits); the mass of the case is whatever the text denotes (text_value)."""
    from decimal import Decimal
    family = family or rng.choice(["repr", "fixed", "fixed-zeros", "plus", "exp", "exp", "exp-upper", "exp-short", "g",
                                   "shifted", "shifted", "bare-dot"])
    m = float(m)
    if family == "fixed":
        t = "%.*f" % (rng.randint(4, 10), m)
    elif family == "fixed-zeros":
        t = "%.*f" % (rng.randint(4, 8), m) + "0" * rng.randint(1, 6)
    elif family == "plus":
        t = ("+" if m >= 0 else "") + "%.*f" % (rng.randint(4, 10), m)
    elif family == "exp":
        t = "%.*e" % (rng.randint(5, 16), m)                      # 1.20107e+01
    elif family == "exp-upper":
        t = "%.*E" % (rng.randint(5, 16), m)                      # 1.20107E+01
    elif family == "exp-short":                                   # 1.20107e1 / 1.20107e+1 / 1.20107E1
        mant, ex = ("%.*e" % (rng.randint(5, 16), m)).split("e")
        t = mant + rng.choice(["e", "E"]) + rng.choice(["", "+"] if int(ex) >= 0 else ["-"]) + str(abs(int(ex)))
    elif family == "g":
        t = "%.*g" % (rng.randint(6, 17), m)
    elif family == "shifted":                                     # 120.107e-1, 0.0120107e3: the decimal point moved by k places
        k = rng.choice([-3, -2, -1, 1, 2, 3])
        t = format(Decimal(repr(m)).scaleb(-k), "f") + rng.choice(["e", "E"]) + rng.choice(["%d" % k, "%+d" % k, "%+03d" % k])
    elif family == "bare-dot":                                    # "12." for whole numbers, ".5" below one, else fixed
        t = repr(m)
        if t.endswith(".0"):
            t = t[:-1]
        elif t.startswith("0.") and "e" not in t:
            t = t[1:]
        elif t.startswith("-0.") and "e" not in t:
            t = "-" + t[2:]
    else:
        t = repr(m)
    return family, t


def lmp_text(ms, comments, types, atom_format="full", order=None, mass_text=None, layout=None):
    """a small LAMMPS data text: masses written with repr (so that float(text) is the same double), or — mass_text — as the
    given spellings (one per type, in type order); layout = [leading white space, separator] of the Masses lines"""
    lead, sep = layout if layout else (" ", " ")
    out = ["verif C14", "", "%d atoms" % len(types), "0 bonds", "", "%d atom types" % len(ms), "",
           " 0.0 10.0 xlo xhi", " 0.0 11.0 ylo yhi", " 0.0 12.0 zlo zhi", "", "Masses", ""]
    for i in (order if order is not None else range(len(ms))):     # `order`: the Masses lines in this order of type ids
        out.append("%s%d%s%s%s" % (lead, i + 1, sep, mass_text[i] if mass_text else repr(float(ms[i])),
                                   "" if comments[i] is None else "   # " + comments[i]))
    out += ["", "Atoms", ""]
    for i, t in enumerate(types):
        if atom_format == "atomic":
            out.append(" %d %d %s 0.5 0.25" % (i + 1, t + 1, repr(0.5 * i)))
        else:
            out.append(" %d 1 %d 0.0 %s 0.5 0.25" % (i + 1, t + 1, repr(0.5 * i)))
    return "\n".join(out) + "\n"


def real_load(ms, tol, comments, types, default=False, via_load=False, atom_format=None, mass_order=None, mass_text=None,
              layout=None):
    """atom_format None = the keyword is not passed (default "full"); mass_order: order of the Masses lines in the file;
    mass_text: how each mass is spelled in the file (default repr); layout: white space of the Masses lines"""
    from mofun import Atoms
    if mass_text is not None and [float(text_value(t)) for t in mass_text] != [float(m) for m in ms]:
        raise ValueError("mass_text does not denote the masses of the case")       # a generator error, not a finding
    text = lmp_text(ms, comments, types, atom_format or "full", mass_order, mass_text, layout)
    try:
        with core.quiet():
            f = io.StringIO(text)
            kw = {} if default else {"guess_atol": tol}
            if atom_format is not None:
                kw["atom_format"] = atom_format
            a = Atoms.load(f, filetype="lmpdat", **kw) if via_load else Atoms.load_lmpdat(f, **kw)
            return {"ok": {"elements": [str(s) for s in a.atom_type_elements],
                           "labels": [str(s) for s in a.atom_type_labels]},
                    "atom_elements": [str(s) for s in a.elements], "types": [int(t) for t in a.atom_types]}
    except Exception as e:  # noqa
        return _exc(e)


def masses_section(text):
    """(masses, comments) of a LAMMPS data text — a tiny reader of our own for the Masses section"""
    ms, cs = [], []
    lines = text.split("\n")
    i = next(k for k, l in enumerate(lines) if l.strip() == "Masses") + 1
    while i < len(lines) and not lines[i].strip():
        i += 1
    while i < len(lines) and lines[i].strip():
        body, _, c = lines[i].partition("#")
        ms.append(float(body.split()[1]))
        cs.append(c.strip() if "#" in lines[i] else None)
        i += 1
    return ms, cs


def real_roundtrip(elements):
    """Atoms with these elements (one atom per element, in this order) -> save_lmpdat -> load_lmpdat"""
    from mofun import Atoms
    try:
        with core.quiet():
            a = Atoms(elements=list(elements), positions=[[0.5 * i, 0.25, 0.125] for i in range(len(elements))])
            f = io.StringIO()
            a.save_lmpdat(f)
            text = f.getvalue()
            b = Atoms.load_lmpdat(io.StringIO(text))
            return {"ok": {"elements": [str(s) for s in b.atom_type_elements], "labels": [str(s) for s in b.atom_type_labels]},
                    "atom_elements": [str(s) for s in b.elements], "text": text}
    except Exception as e:  # noqa
        return _exc(e)


def real_assembled(rec):
    """a structure ASSEMBLED from pieces that bring their own atom types (extend with automatic type extension,
    extend_types + extend(offsets=…), two extensions in a row, pattern replacement with a replacement that introduces new
    elements) -> save_lmpdat -> load_lmpdat.  Returns the per-atom elements before writing and after reading."""
    import numpy as np
    from mofun import Atoms, replace_pattern_in_structure

    def piece(els, origin):
        return Atoms(elements=list(els), positions=[[origin + 5.0 * i, origin, origin + 0.5 * i] for i in range(len(els))])
    try:
        with core.quiet():
            mode, A, B, C = rec["mode"], rec["A"], rec["B"], rec.get("C", [])
            if mode == "extend":
                a = piece(A, 0.0)
                a.extend(piece(B, 100.0))
            elif mode == "extend_types":
                a, b = piece(A, 0.0), piece(B, 100.0)
                offsets = a.extend_types(b)
                a.extend(b, offsets=offsets)
            elif mode == "extend-twice":
                a = piece(A, 0.0)
                a.extend(piece(B, 100.0))
                a.extend(piece(C, 200.0))
            else:   # replace: the pair A[0]-A[1] (1.1 apart) becomes A[0]-B[0](-B[1]…); A[2:] are bystanders 5 apart
                pos = [[2.0, 2.0, 2.0], [3.1, 2.0, 2.0]] + [[8.0 + 5.0 * (i % 4), 8.0 + 5.0 * (i // 4), 8.0] for i in range(len(A) - 2)]
                structure = Atoms(elements=list(A), positions=pos, cell=40.0 * np.identity(3))
                search = Atoms(elements=list(A[:2]), positions=[[0.0, 0.0, 0.0], [1.1, 0.0, 0.0]])
                rpos = [[0.0, 0.0, 0.0], [1.35, 0.0, 0.0], [0.0, 1.2, 0.0], [0.0, 0.0, 1.25]]
                repl = Atoms(elements=[A[0]] + list(B), positions=rpos[:1 + len(B)])
                a = replace_pattern_in_structure(structure, search, repl)
    except Exception as e:  # noqa  (the assembly itself failed: C04 / C11 territory, counted and skipped here)
        return {"skip": "assembly raised " + type(e).__name__}
    try:
        with core.quiet():
            before = [str(e) for e in a.elements]
            f = io.StringIO()
            a.save_lmpdat(f)
            text = f.getvalue()
            b = Atoms.load_lmpdat(io.StringIO(text))
            return {"ok": {"elements": [str(e) for e in b.atom_type_elements], "labels": [str(e) for e in b.atom_type_labels]},
                    "before": before, "after": [str(e) for e in b.elements], "text": text}
    except Exception as e:  # noqa
        return _exc(e)


def real_cycle(rec):
    """write -> read through every public entry point.  rec: elements (ground truth, one atom each, repeats allowed),
    source (how the structure to be written comes into being: elements= constructor, Atoms.from_ase_atoms, copy(),
    subset a[idx], a structure that was itself read from a file), writer / reader (direct save_lmpdat / load_lmpdat on
    StringIO, or the dispatchers Atoms.save / Atoms.load with a str path, a pathlib.Path, an open file + filetype=),
    atom_format (None = keyword not passed, "full", "atomic"; the same on both sides), comment (file_comment= passed),
    atol (None = guess_atol not passed)."""
    import os
    import pathlib
    import tempfile
    import numpy as np
    from mofun import Atoms
    els = list(rec["elements"])
    n = len(els)
    pos = [[1.5 * i, 0.25 + 0.5 * (i % 3), 0.125 * i] for i in range(n)]
    fmt, atol = rec.get("atom_format"), rec.get("atol")
    wkw = {} if fmt is None else {"atom_format": fmt}
    if rec.get("comment"):
        wkw["file_comment"] = "verif cycle"
    rkw = dict({} if fmt is None else {"atom_format": fmt}, **({} if atol is None else {"guess_atol": atol}))

    def write(a, how, path):
        if how == "save_lmpdat":
            with open(path, "w") as fh:
                a.save_lmpdat(fh, **wkw)
        elif how == "save-path":
            a.save(path, **wkw)
        elif how == "save-pathlib":
            a.save(pathlib.Path(path), **wkw)
        elif how == "save-filetype":
            a.save(path[:-7] + ".dat", filetype="lmpdat", **wkw)
            os.replace(path[:-7] + ".dat", path)
        else:
            with open(path, "w") as fh:
                a.save(fh, filetype="lmpdat", **wkw)

    def read(how, path):
        if how == "load_lmpdat":
            with open(path) as fh:
                return Atoms.load_lmpdat(fh, **rkw)
        if how == "load-path":
            return Atoms.load(path, **rkw)
        if how == "load-pathlib":
            return Atoms.load(pathlib.Path(path), **rkw)
        if how == "load-filetype":
            return Atoms.load(path, filetype="lmpdat", **rkw)
        with open(path) as fh:
            return Atoms.load(fh, filetype="lmpdat", **rkw)
    try:
        with core.quiet(), tempfile.TemporaryDirectory(prefix="verif_c14_") as tmp:
            path = os.path.join(tmp, "cycle.lmpdat")
            src = rec.get("source", "elements")
            cell = 60.0 * np.identity(3)
            if src == "ase":
                import ase
                a = Atoms.from_ase_atoms(ase.Atoms(els, positions=pos, cell=cell, pbc=True))
            else:
                a = Atoms(elements=els, positions=pos, cell=cell)
            want = els
            if src == "copy":
                a = a.copy()
            elif src == "subset":
                idx = list(rec["idx"])
                a = a[idx]
                want = [els[i] for i in idx]
            elif src == "reloaded":          # the structure to be written was itself read from a file (direct functions)
                with open(path, "w") as fh:
                    a.save_lmpdat(fh)
                with open(path) as fh:
                    a = Atoms.load_lmpdat(fh)
            before = {"elements": [str(e) for e in a.elements], "symbols": [str(e) for e in a.symbols]}
            write(a, rec["writer"], path)
            text = open(path).read()
            b = read(rec["reader"], path)
            os.remove(path)
            return {"ok": {"elements": [str(e) for e in b.atom_type_elements], "labels": [str(e) for e in b.atom_type_labels]},
                    "want": want, "before": before, "after": {"elements": [str(e) for e in b.elements], "symbols": [str(e) for e in b.symbols]},
                    "text": text}
    except Exception as e:  # noqa
        return _exc(e)


def oracle_cycle(T, sep, rec, r):
    if "ok" not in r:
        return "write/read cycle (%s -> %s, atom_format=%r) raised %s" % (rec["writer"], rec["reader"], rec.get("atom_format"), r.get("err"))
    want = r["want"]
    for when in ("before", "after"):
        for acc in ("elements", "symbols"):
            got = r[when][acc]
            if len(got) != len(want):
                return ".%s has %d entries %s the cycle, the structure has %d atoms" % (acc, len(got), when, len(want))
            for i, (e, g) in enumerate(zip(want, got)):
                if e in sep and g != e:
                    return ("atom %d: element %s (mass distinguishable from all others) is %s in .%s %s the write/read cycle "
                            "%s -> %s, atom_format=%r (structure %s, got %s)"
                            % (i, e, g, acc, when, rec["writer"], rec["reader"], rec.get("atom_format"), want, got))
    ms, cs = masses_section(r["text"])
    if len(ms) != len(r["ok"]["elements"]):
        return "%d Masses lines, %d types read" % (len(ms), len(r["ok"]["elements"]))
    tol = rec.get("atol") or 0.1
    for k, (m, g) in enumerate(zip(ms, r["ok"]["elements"])):
        bad = oracle_one(T, fr(m), fr(tol), g)
        if bad:
            return "type %d: %s" % (k + 1, bad)
    return None


def oracle_assembled(T, sep, rec, r):
    if "skip" in r:
        return None
    if "ok" not in r:
        return "assembling / write / read raised %s" % r.get("err")
    before, after = r["before"], r["after"]
    want = sorted(rec["A"] + rec["B"] + rec.get("C", [])) if rec["mode"] != "replace" else sorted([rec["A"][0]] + rec["B"] + rec["A"][2:])
    if sorted(before) != want:
        return None      # the assembly itself went wrong: not this property's business (C04 / C11)
    if len(after) != len(before):
        return "%d atoms written, %d read back" % (len(before), len(after))
    for i, (e, g) in enumerate(zip(before, after)):
        if e in sep and g != e:
            return ("atom %d: element %s (mass distinguishable from all others) came back as %s after the write/read cycle "
                    "(written %s, read %s)" % (i, e, g, before, after))
    ms, cs = masses_section(r["text"])
    if len(ms) != len(r["ok"]["elements"]):
        return "%d Masses lines, %d types read" % (len(ms), len(r["ok"]["elements"]))
    for k, (m, g) in enumerate(zip(ms, r["ok"]["elements"])):
        bad = oracle_one(T, fr(m), fr(0.1), g)
        if bad:
            return "type %d: %s" % (k + 1, bad)
    return None


def tol_value(call):
    """the tolerance object actually passed: python float, python int or numpy float64"""
    t = float(Fraction(call["tol"]))
    kind = call.get("tol_type", "float")
    if kind == "int":
        return int(t)
    if kind == "np":
        import numpy as np
        return np.float64(t)
    return t


def table_check(T):
    """the run-time mass table(s) of the library against an independent re-read of the source text"""
    import mofun
    import mofun.atomic_masses
    import mofun.helpers
    import mofun.atoms
    want = [(s, float(M)) for s, M in T]
    ref = mofun.atomic_masses.ATOMIC_MASSES
    for name, mod in (("mofun.atomic_masses", mofun.atomic_masses), ("mofun.helpers", mofun.helpers),
                      ("mofun.atoms", mofun.atoms), ("mofun", mofun)):
        tbl = getattr(mod, "ATOMIC_MASSES", None)
        if tbl is None:
            continue
        got = [(str(k), float(v)) for k, v in tbl.items()]
        if got != want:
            extra = [kv for kv in got if kv not in want]
            missing = [kv for kv in want if kv not in got]
            return ("the mass table was modified at run time: %s.ATOMIC_MASSES differs from the source (extra %s, missing %s%s)"
                    % (name, extra[:5], missing[:5], "" if extra or missing else ", order changed"))
    return None


def real_construct(call):
    """Atoms(...) with unusual element names; exceptions are expected and fine — nothing may be left behind"""
    import numpy as np
    from mofun import Atoms
    els = list(call["elements"])
    n = len(els)
    pos = np.zeros((n, 3)) + np.arange(n).reshape(n, 1)
    how = call["how"]
    try:
        with core.quiet():
            if how == "elements":
                Atoms(elements=els, positions=pos)
            elif how == "elements+masses":
                Atoms(elements=els, positions=pos, atom_type_masses=[1.5 + i for i in range(len(dict.fromkeys(els)))])
            elif how == "types":
                Atoms(atom_types=list(range(n)), atom_type_elements=els, positions=pos)
            elif how == "types+masses":
                Atoms(atom_types=list(range(n)), atom_type_elements=els, positions=pos, atom_type_masses=[0.05] * n,
                      atom_type_labels=["t%d" % i for i in range(n)])
            else:
                xml = "<molecule><atomArray>" + "".join(
                    '<atom id="a%d" elementType="%s" x3="0.0" y3="0.0" z3="%d.0"/>' % (i, e, i) for i, e in enumerate(els)
                ) + "</atomArray></molecule>"
                Atoms.load_cml(io.StringIO(xml))
        return {"ok": True}
    except Exception as e:  # noqa
        return {"err": "error:" + type(e).__name__}


def do_call(T, call):
    """one call of the real code described by a record; returns (result for the tie, oracle verdict). The oracle is
    STATELESS: it knows nothing about earlier calls, so any memory the code keeps between calls shows up here."""
    if call["op"] == "construct":
        return real_construct(call), None
    if call["op"] == "table-check":
        for c in call.get("constructs", []):
            real_construct(c)
        bad = table_check(T)
        return {"ok": bad is None}, bad
    ms = [float(Fraction(x)) for x in call["masses"]]
    fms = [fr(m) for m in ms]
    ftol = Fraction(call["tol"])
    if call["op"] == "guess":
        r = real_guess(ms, tol_value(call), default=call.get("default", False), style=call.get("style", "kw"))
        return r, oracle_list(T, fms, ftol, r)
    types = call.get("types", [0])
    r = real_load(ms, tol_value(call), call["comments"], types, default=call.get("default", False),
                  via_load=call.get("via_load", False), atom_format=call.get("atom_format"), mass_order=call.get("mass_order"),
                  mass_text=call.get("mass_text"), layout=call.get("layout"))
    bad = oracle_load(T, fms, ftol, call["comments"], r)
    if not bad and "ok" in r and (r["atom_elements"] != [r["ok"]["elements"][t] for t in types] or r["types"] != list(types)):
        bad = "per-atom elements / types do not follow the type table"
    return ({"ok": r["ok"]} if "ok" in r else r), bad


# ------------------------------------------------------------------ cases

def tolerances(ctx):
    return [0.01, 0.1, 0.5] if ctx.tier == "quick" else [0.01, 0.1, 0.5, 0.05, 0.2, 1.0]


def single_masses(T, tol):
    """the complete sweep for one tolerance: [(kind, mass as float)]"""
    out = []
    fl = [(s, float(M)) for s, M in T]
    for s, M in fl:
        out.append(("table", M))
        for sign in (1, -1):
            out.append(("inside", M + sign * (tol - EPS)))
            out.append(("boundary", M + sign * tol))
            out.append(("outside", M + sign * (tol + EPS)))
    srt = sorted(set(M for _, M in fl))
    for a, b in zip(srt, srt[1:]):
        mid = (a + b) / 2
        out += [("midpoint", mid), ("beside-midpoint", mid - EPS), ("beside-midpoint", mid + EPS)]
    lo, hi = srt[0], srt[-1]
    for x in (-1.0, 0.0, lo / 2, lo - tol - EPS, lo - tol + EPS, hi + tol - EPS, hi + tol + EPS, hi + 1.0, 1000.0, 1700.0, 1e6):
        out.append(("off-table", x))
    return out


def out_of_order(T):
    """elements that have a heavier element before them in table order"""
    res, top = set(), None
    for s, M in T:
        if top is not None and M < top:
            res.add(s)
        top = M if top is None else max(top, M)
    return res


def separated(T, tol):
    """elements whose mass is at least 2*tol away from every other table mass"""
    return {s for s, M in T if all(abs(M - M2) >= 2 * tol for s2, M2 in T if s2 != s)}


def distinguishable(T):
    """elements whose mass differs from EVERY other table mass by more than 1e-5: the rounding of a written mass (%10.6f,
    at most 5e-7) cannot make another element as near, so under the nearest rule they must survive a write/read cycle at
    any tolerance above the rounding.  (On the present table: everything except Cm and Bk, whose masses are equal.)"""
    return {s for s, M in T if all(abs(M - M2) > Fraction(1, 10 ** 5) for s2, M2 in T if s2 != s)}


def run(ctx, oracle_only=False):
    ctx.rule = RULE
    rng = ctx.rng
    T = table()
    masses = dict(T)
    ooo = out_of_order(T)
    exact = {float(M) for _, M in T}
    syms = [s for s, _ in T]
    ops, impls, skip = [], [], []

    def nontrivial(ms):
        return any((float(m) not in exact) for m in ms) or any(float(m) == float(masses[s]) for m in ms for s in ooo)

    seen = {}      # mass -> earlier calls of this process that involved it (what a replay has to run first)
    CALL_KEYS = ("op", "masses", "tol", "tol_type", "default", "style", "comments", "types", "via_load", "atom_format", "mass_order", "mass_text", "layout")

    def earlier(call):
        out = []
        for x in call["masses"]:
            hs = seen.get(x, [])
            for h in (hs if len(hs) <= 6 else hs[:3] + hs[-3:]):
                if h not in out:
                    out.append(h)
        return out

    def add(inp, r, bad, ms, tol, amb):
        if inp.get("op") in ("guess", "load_elements") and "masses" in inp:
            rec = {k: inp[k] for k in CALL_KEYS if k in inp}
            for x in inp["masses"]:
                seen.setdefault(x, []).append(rec)
        ctx.case(inp, nontrivial=nontrivial(ms))
        if bad:
            ctx.fail(bad, inp, observed=r, required="nearest table element strictly within the tolerance, else rejection")
        ops.append(inp)
        impls.append(r)
        skip.append(amb)

    def call_case(call, history, kind):
        history = earlier(call) + [h for h in history if h not in earlier(call)]
        r, bad = do_call(T, call)
        ms = [float(Fraction(x)) for x in call["masses"]]
        ftol = Fraction(call["tol"])
        inp = dict(call, kind=kind, history=list(history))
        ctx.count("calls:" + kind)
        ctx.count("tol:%g" % float(ftol))
        if "ok" not in r:
            ctx.count("outcome:" + r["err"])
        add(inp, r, bad, ms, float(ftol), any(ambiguous(T, fr(m), ftol) for m in ms))

    def mk(op, ms, tol, **kw):
        c = {"op": op, "masses": [core.q(m) for m in ms], "tol": core.q(tol)}
        if op == "load_elements":
            c.update(comments=[None] * len(ms), types=list(range(len(ms))))
        c.update(kw)
        return c

    # corpus first: the stored minimal replays of past findings (corpus/C14/*.json)
    import glob
    import json
    import os
    for f in sorted(glob.glob(os.path.join(core.VERIF, "corpus", "C14", "*.json"))):
        ci = json.load(open(f))["input"]
        if ci.get("op") in ("guess", "load_elements"):
            call_case({k: ci[k] for k in CALL_KEYS if k in ci}, ci.get("history", []), "corpus:" + os.path.basename(f)[:-5])

    # 0. the shared mass table must be what the source says — before anything ran, after constructor calls with unknown /
    #    odd element names (which must not leave anything behind), and after the whole run; then small masses through
    #    both entry points (a polluted table would turn them into "elements")
    bad = table_check(T)
    ctx.case({"op": "table-check", "stage": "start", "constructs": []}, nontrivial=False)
    if bad:
        ctx.fail(bad, {"op": "table-check", "stage": "start", "constructs": []}, required="ATOMIC_MASSES equals the source table")
    constructs = []
    odd = ["M", "X", "D", "Xx", "Du", "Q_1", "1", "2", "", "c", "zr", "LP", "EP", "Null", "H+", "C13"]
    for k in range(ctx.n(40, 200)):
        names = [rng.choice(odd) for _ in range(rng.randint(1, 3))]
        good = rng.sample(syms, rng.randint(0, 3))
        els = good + names
        rng.shuffle(els)
        how = ["elements", "elements+masses", "types", "types+masses", "cml"][k % 5]
        c = {"op": "construct", "how": how, "elements": els, "masses": [], "tol": "0"}
        r, _ = do_call(T, c)
        constructs.append(c)
        ctx.case(c, nontrivial=True)
        ctx.count("construct:%s:%s" % (how, "ok" if "ok" in r else r["err"]))
        if k % 8 == 7 or k < 5:
            bad = table_check(T)
            rec = {"op": "table-check", "stage": "after-constructors", "constructs": list(constructs)}
            ctx.case(rec, nontrivial=True)
            if bad:
                ctx.fail(bad, rec, required="constructing structures (successfully or not) leaves ATOMIC_MASSES untouched")
            # then: small masses through both entry points, stateless oracle
            for m in (0.05, 0.0, 0.09, 0.0999, 1e-3, -0.05, 0.5):
                tol = rng.choice([0.1, 0.1, 0.5, 0.01, 1.0])
                call_case(mk("guess", [m], tol, default=(tol == 0.1)), list(constructs), "after-construct-guess")
                other = float(masses[rng.choice(syms)])
                call_case(mk("load_elements", [other, m], tol, default=(tol == 0.1), comments=["OW", "MW"], types=[0, 1, 1]),
                          list(constructs), "after-construct-load")

    # 1. every single mass of the sweep, through guess_elements_from_masses
    for tol in tolerances(ctx):
        ftol = fr(tol)
        for kind, m in single_masses(T, tol):
            fm = fr(m)
            default = (tol == 0.1 and kind in ("table", "midpoint"))    # these also exercise the default max_delta
            r = real_guess([m], tol, default=default)
            bad = oracle_list(T, [fm], ftol, r)
            inp = {"op": "guess", "masses": [core.q(m)], "tol": core.q(tol), "default": default, "kind": kind}
            ctx.count("guess:" + kind)
            ctx.count("tol:%g" % tol)
            ctx.count("outcome:" + ("element" if "ok" in r else r["err"]))
            add(inp, r, bad, [m], tol, ambiguous(T, fm, ftol))

    # 2. lists of masses: all good, one bad somewhere, numpy input
    import numpy as np
    for k in range(ctx.n(150, 1500)):
        tol = rng.choice(tolerances(ctx))
        n = rng.randint(1, 6)
        ms = [float(masses[rng.choice(syms)]) + rng.choice([0.0, 0.0, tol / 2, -tol / 2, tol / 4]) for _ in range(n)]
        if rng.random() < 0.4:
            ms[rng.randrange(n)] = rng.choice([13.0, 2.5, 1000.0, 1700.0, 0.0, float(masses[rng.choice(syms)]) + 2 * tol + 0.37])
        arg = np.array(ms, dtype=float) if k % 3 == 0 else ms
        r = real_guess(arg, tol)
        fms = [fr(m) for m in ms]
        bad = oracle_list(T, fms, fr(tol), r)
        inp = {"op": "guess", "masses": [core.q(m) for m in ms], "tol": core.q(tol), "default": False, "kind": "list"}
        ctx.count("guess:list")
        ctx.count("outcome:" + ("element" if "ok" in r else r["err"]))
        add(inp, r, bad, ms, tol, any(ambiguous(T, m, fr(tol)) for m in fms))

    # 3. the same rule through the real load_lmpdat: every element alone (exact mass and just inside / outside the
    #    tolerance), and files with several types, with / without / with partial label comments
    def load_case(ms, tol, comments, types, default, via_load, kind):
        r = real_load(ms, tol, comments, types, default=default, via_load=via_load)
        fms = [fr(m) for m in ms]
        bad = oracle_load(T, fms, fr(tol), comments, r)
        if not bad and "ok" in r:
            # atoms carry the element of their type
            if r["atom_elements"] != [r["ok"]["elements"][t] for t in types] or r["types"] != list(types):
                bad = "per-atom elements / types do not follow the type table"
        inp = {"op": "load_elements", "masses": [core.q(m) for m in ms], "tol": core.q(tol), "comments": list(comments),
               "types": list(types), "default": default, "via_load": via_load, "kind": kind}
        ctx.count("load:" + kind)
        ctx.count("comments:" + ("all" if all(c is not None for c in comments) else "none" if all(c is None for c in comments) else "partial"))
        if "ok" in r:
            ctx.count("load-outcome:" + ("numbers" if r["ok"]["elements"] == [str(i + 1) for i in range(len(ms))] else "elements"))
        add(inp, {"ok": r["ok"]} if "ok" in r else r, bad, ms, tol, any(ambiguous(T, m, fr(tol)) for m in fms))

    for s, M in T:
        m = float(M)
        load_case([m], 0.1, [None], [0], True, False, "single-default")
        load_case([m], 0.1, ["%s_1" % s], [0, 0], True, True, "single-default-label")
        for tol in (0.01, 0.5):
            load_case([m + rng.choice([1, -1]) * (tol - EPS)], tol, [None], [0], False, False, "single-inside")
            load_case([m + rng.choice([1, -1]) * (tol + EPS)], tol, [None], [0], False, False, "single-outside")
    labels_pool = ["C_1", "Zr1", "O_ring", "H_a", "type three", "x", "N_R", "Cu+2", "7"]
    for k in range(ctx.n(200, 3000)):
        tol = rng.choice(tolerances(ctx))
        n = rng.randint(1, 6)
        ms = [float(masses[rng.choice(syms)]) + rng.choice([0.0, 0.0, tol / 2, -tol / 2]) for _ in range(n)]
        if rng.random() < 0.35:
            ms[rng.randrange(n)] = rng.choice([13.0, 2.5, 1000.0, 0.0, float(masses[rng.choice(syms)]) + 2 * tol + 0.37])
        style = rng.choice(["all", "all", "none", "partial"])
        comments = [rng.choice(labels_pool) + str(i) if (style == "all" or (style == "partial" and rng.random() < 0.5)) else None
                    for i in range(n)]
        types = [rng.randrange(n) for _ in range(rng.randint(1, 8))]
        default = (tol == 0.1 and rng.random() < 0.5)
        load_case(ms, tol, comments, types, default, rng.random() < 0.5, "multi")

    # 3b. data texts with MANY atom types (10…30 distinct elements, two-digit type ids; every type used by an atom, atoms
    #     in shuffled type order): type k's element must be the element nearest to the k-th mass of the file
    for k in range(ctx.n(40, 400)):
        n = rng.randint(10, 30) if k else 12
        els = rng.sample(syms, n)
        tol = rng.choice([0.1, 0.1, 0.01, 0.5])
        ms = [float(masses[e]) + rng.choice([0.0, 0.0, tol / 2, -tol / 2]) for e in els]
        if k % 5 == 4:          # one bad mass among many good ones: ALL types fall back to their numbers
            ms[rng.randrange(n)] = rng.choice([13.0, 2.5, 1000.0, float(masses[rng.choice(syms)]) + 2 * tol + 0.37])
        style = ["all", "none", "partial"][k % 3] if k % 5 != 3 else "all"
        comments = [("%s_t%d" % (els[i], i + 1)) if (style == "all" or (style == "partial" and rng.random() < 0.6)) else None
                    for i in range(n)]
        types = list(range(n)) + [rng.randrange(n) for _ in range(rng.randint(0, 10))]
        rng.shuffle(types)
        load_case(ms, tol, comments, types, tol == 0.1 and k % 2 == 0, k % 4 == 1, "many-types")

    # 3c. every keyword at default / edge / non-default values, and SEQUENCES of calls in one process
    # edge tolerances: 0 (int and float and numpy: nothing is strictly within 0), tiny, negative, huge — masses are exact
    # table masses, masses clearly off (so that "within 0" cannot be a rounding question) and absurd ones
    picks = rng.sample(syms, ctx.n(12, 60)) + ["C", "K", "Bk"]
    for e in picks:
        M = float(masses[e])
        for tol, tt in [(0.0, "float"), (0, "int"), (0.0, "np"), (1e-9, "float"), (-0.1, "float"), (1, "int"), (1e6, "float"), (1e300, "float")]:
            for m in (M, M + 0.05, M - 0.003):
                call_case(mk("guess", [m], tol, tol_type=tt, style=rng.choice(["kw", "pos", "allkw"])), [], "edge-tol-guess")
            others = [float(masses[x]) for x in rng.sample(syms, 2)]
            call_case(mk("load_elements", [M + 0.05] + others, tol, tol_type=tt, via_load=rng.random() < 0.5), [], "edge-tol-load")
            call_case(mk("load_elements", [M] + others, tol, tol_type=tt, comments=["x1", "x2", "x3"],
                         atom_format=rng.choice([None, "full", "atomic"])), [], "edge-tol-load")
    for m in (0.0, -1.0, 1e5, 1e300):
        for tol in (0.0, 1e6, 1e300):
            call_case(mk("guess", [m], tol), [], "edge-tol-guess")
    # keyword spellings / non-default atom_format at ordinary tolerances
    for k in range(ctx.n(40, 400)):
        tol = rng.choice(tolerances(ctx))
        n = rng.randint(1, 5)
        ms = [float(masses[rng.choice(syms)]) + rng.choice([0.0, tol / 2, -tol / 2, 2 * tol + 0.37]) for _ in range(n)]
        call_case(mk("guess", ms, tol, style=rng.choice(["pos", "allkw"]), default=(tol == 0.1 and k % 2 == 0)), [], "keywords-guess")
        call_case(mk("load_elements", ms, tol, atom_format=rng.choice(["full", "atomic"]), via_load=k % 2 == 0,
                     default=(tol == 0.1 and k % 3 == 0), types=[rng.randrange(n) for _ in range(rng.randint(1, 6))]), [], "keywords-load")
    # sequences: the SAME masses with different tolerances one after the other (large first / small first / back again),
    # through both entry points, mixed; masses are fresh ones (table mass + an offset accepted only by the larger tolerance)
    for k in range(ctx.n(40, 400)):
        big, small = rng.choice([(1.0, 0.1), (0.5, 0.01), (1.0, 0.01), (0.5, 0.1), (1e6, 0.1)])
        n = rng.randint(1, 3)
        ms = [float(masses[rng.choice(syms)]) + rng.choice([1, -1]) * rng.uniform(small * 1.5 + 0.02, min(big, 0.5) * 0.9) for _ in range(n)]
        if k == 0:
            ms, big, small = [12.5], 1.0, 0.1
        order = [big, small, big] if k % 2 == 0 else [small, big, small]
        hist = []
        for step, tol in enumerate(order):
            op = ["guess", "load_elements"][(k // 2 + step) % 2] if k % 3 else ["load_elements", "load_elements", "guess"][step]
            call = mk(op, ms, tol, default=(tol == 0.1 and op == "load_elements"))
            call_case(call, hist, "sequence-%s" % ("large-first" if k % 2 == 0 else "small-first"))
            hist.append(call)

    # 3d. the Masses lines in ANY order (each line carries its type id): 2…30 types — mostly ten or more, so that the order
    #     of the ids as strings differs from their order as integers —, shuffled / reversed / rotated / one pair swapped,
    #     with all / no / partial label comments, one bad mass now and then; masses and `comments` below are in TYPE order
    #     (what the oracle judges), `mass_order` is the order of the lines in the file (what the model is given)
    for k in range(ctx.n(60, 600)):
        n = rng.randint(10, 30) if k % 4 else rng.randint(2, 9)
        if k == 0:
            n = 2
        els = rng.sample(syms, n)
        tol = rng.choice([0.1, 0.1, 0.1, 0.01, 0.5])
        ms = [float(masses[e]) + rng.choice([0.0, 0.0, tol / 2, -tol / 2]) for e in els]
        if k % 6 == 5:
            ms[rng.randrange(n)] = rng.choice([13.0, 2.5, 1000.0])
        style = ["all", "none", "partial"][k % 3]
        comments = [("%s_t%d" % (els[i], i + 1)) if (style == "all" or (style == "partial" and rng.random() < 0.6)) else None
                    for i in range(n)]
        order = list(range(n))
        how = ["shuffled", "reversed", "rotated", "swapped"][k % 4]
        if how == "shuffled":
            rng.shuffle(order)
        elif how == "reversed":
            order.reverse()
        elif how == "rotated":
            r = rng.randint(1, n - 1)
            order = order[r:] + order[:r]
        else:
            i, j = rng.sample(range(n), 2)
            order[i], order[j] = order[j], order[i]
        types = list(range(n)) + [rng.randrange(n) for _ in range(rng.randint(0, 6))]
        rng.shuffle(types)
        call_case(mk("load_elements", ms, tol, comments=comments, types=types, mass_order=order,
                     default=(tol == 0.1 and k % 2 == 0), via_load=k % 4 == 1, atom_format=[None, "full", "atomic"][k % 3]),
                  [], "masses-order-" + how)

    # 4. write/read cycle: every element alone, random small groups, and structures with 12…40 atom types
    sep = distinguishable(T)
    groups = [[s] for s in syms] + [rng.sample(syms, rng.randint(2, 6)) for _ in range(ctx.n(60, 1000))]
    groups += [rng.sample(syms, rng.randint(12, 40)) for _ in range(ctx.n(25, 300))] + [list(syms)]
    for els in groups:
        r = real_roundtrip(els)
        inp = {"op": "roundtrip", "elements": list(els)}
        ctx.case(inp, nontrivial=bool(set(els) & ooo))
        ctx.count("roundtrip:%s" % ("single" if len(els) == 1 else "group" if len(els) < 12 else "12+types"))
        bad = oracle_roundtrip(T, sep, els, r)
        if bad:
            ctx.fail(bad, inp, observed={k: v for k, v in r.items() if k != "text"},
                     required="every element whose mass differs from all other table masses comes back unchanged")
        elif "ok" in r:
            # tie: the masses actually written, through the model
            ms, cs = masses_section(r["text"])
            ops.append({"op": "load_elements", "masses": [core.q(m) for m in ms], "tol": core.q(0.1), "comments": cs,
                        "kind": "roundtrip"})
            impls.append({"ok": r["ok"]})
            skip.append(any(ambiguous(T, fr(m), fr(0.1)) for m in ms))

    # 4b. the same cycle for structures ASSEMBLED from pieces with their own types (extend / extend_types / replace)
    modes = ["extend", "extend_types", "extend-twice", "replace"]
    for k in range(ctx.n(80, 800)):
        mode = modes[k % len(modes)]
        pool = rng.sample(syms, 12)
        nA = rng.randint(2 if mode != "replace" else 3, 5)
        A = [pool[i] for i in range(nA)]
        if mode != "replace" and rng.random() < 0.5:
            A.append(rng.choice(A))                       # a repeated element: fewer types than atoms
        nB = rng.randint(1, 3)
        B = pool[5:5 + nB] if rng.random() < 0.8 else [rng.choice(A)] + pool[5:5 + nB - 1]   # sometimes shares an element
        C = pool[8:8 + rng.randint(1, 3)] if mode == "extend-twice" else []
        if k == 0:
            mode, A, B, C = "extend", ["C", "H", "H"], ["Zr", "O"], []
        if k == 3:
            mode, A, B, C = "replace", ["C", "H", "N"], ["F"], []
        rec = {"op": "assembled", "mode": mode, "A": list(A), "B": list(B), "C": list(C)}
        r = real_assembled(rec)
        ctx.case(rec, nontrivial=True)
        ctx.count("assembled:" + mode + (":assembly-failed" if "skip" in r else ""))
        bad = oracle_assembled(T, sep, rec, r)
        if bad:
            ctx.fail(bad, rec, observed={k2: v for k2, v in r.items() if k2 != "text"},
                     required="every atom whose element has a mass different from all other table masses has the same element after save_lmpdat -> load_lmpdat")
        elif "ok" in r:
            ms, cs = masses_section(r["text"])
            ops.append({"op": "load_elements", "masses": [core.q(m) for m in ms], "tol": core.q(0.1), "comments": cs,
                        "kind": "assembled"})
            impls.append({"ok": r["ok"]})
            skip.append(any(ambiguous(T, fr(m), fr(0.1)) for m in ms))

    # 4c. the cycle through EVERY public entry point: direct functions and the dispatchers Atoms.save / Atoms.load (str path,
    #     pathlib.Path, explicit filetype=, open file), atom_format not passed / "full" / "atomic", file_comment, guess_atol;
    #     structures coming from elements=, from_ase_atoms, copy(), a[idx], or from a file; .elements and .symbols
    import ase.data
    ase_ok = [x for x in syms if x in ase.data.chemical_symbols]
    writers = ["save_lmpdat", "save-path", "save-pathlib", "save-filetype", "save-file"]
    readers = ["load_lmpdat", "load-path", "load-pathlib", "load-filetype", "load-file"]
    sources = ["elements", "ase", "copy", "subset", "reloaded"]
    combos = [(w, rd, f) for w in writers for rd in readers for f in (None, "full", "atomic")]
    rng.shuffle(combos)
    if ctx.tier != "quick":
        combos = combos * 6
    for k, (w, rd, fmt) in enumerate(combos):
        src = sources[k % len(sources)] if k >= 5 else "elements"
        pool = ase_ok if src == "ase" else syms
        els = rng.sample(pool, rng.randint(2, 8))
        if rng.random() < 0.5:
            els += [rng.choice(els) for _ in range(rng.randint(1, 3))]
        if k == 0:
            els = ["Ar", "K", "Co", "Ni"]
        rec = {"op": "cycle", "elements": els, "source": src, "writer": w, "reader": rd, "atom_format": fmt,
               "comment": k % 3 == 1, "atol": [None, None, 0.1][k % 3]}
        if src == "subset":
            rec["idx"] = sorted(rng.sample(range(len(els)), rng.randint(1, len(els))), reverse=(k % 2 == 0))
        r = real_cycle(rec)
        ctx.case(rec, nontrivial=True)
        ctx.count("cycle:%s->%s" % (w, rd))
        ctx.count("cycle-format:%s" % fmt)
        ctx.count("cycle-source:%s" % src)
        bad = oracle_cycle(T, sep, rec, r)
        if bad:
            ctx.fail(bad, rec, observed={k2: v for k2, v in r.items() if k2 != "text"},
                     required="every atom whose element has a mass different from all other table masses has the same element after the write/read cycle, through every entry point")
        elif "ok" in r:
            ms, cs = masses_section(r["text"])
            ops.append({"op": "load_elements", "masses": [core.q(m) for m in ms], "tol": core.q(0.1), "comments": cs, "kind": "cycle"})
            impls.append({"ok": r["ok"]})
            skip.append(any(ambiguous(T, fr(m), fr(0.1)) for m in ms))

    # 5. the SPELLING of the masses in the file: a LAMMPS data file may write a mass in any notation LAMMPS reads — fixed
    #    point with few / many digits, trailing zeros, a leading "+", exponent notation ("1.20107e+01", "1.20107E1",
    #    "120.107e-1", "0.0120107e3": what '%e' / '%g' / numpy printing produce), "12." / ".5" — and with any white space
    #    around the columns.  The mass of a type is the NUMBER its token denotes (read here by exact decimal arithmetic,
    #    text_value); the element must be the nearest table element to that number, however it is spelled.
    layouts = [[" ", " "], ["", " "], ["  ", "   "], ["\t", "\t"], [" ", "\t"], ["    ", "  "]]
    exp_families = ["exp", "exp-upper", "exp-short", "shifted"]

    def spelled(ms, families=None):
        """[(spelling, the double it denotes)] for the masses ms"""
        texts = [spell(rng, m, families[i] if families else None) for i, m in enumerate(ms)]
        for fam, _ in texts:
            ctx.count("spelling:" + fam)
        return [t for _, t in texts], [float(text_value(t)) for _, t in texts]

    # 5a. every element of the table alone, its mass in an exponent spelling and in a random one (default tolerance)
    for s_, M in T:
        for fam in (rng.choice(exp_families), None):
            texts, ms = spelled([float(M)], [fam])
            call_case(mk("load_elements", ms, 0.1, default=True, mass_text=texts, layout=rng.choice(layouts),
                         comments=[rng.choice([None, s_ + "_x"])], types=[0] * rng.randint(1, 3), via_load=rng.random() < 0.3),
                      [], "spelling-single")
    # 5b. masses on either side of the tolerance boundary, in full-precision exponent spellings (17 significant digits
    #     denote the same double), and non-atomic masses below / between / above the table in short exponent spellings
    for k in range(ctx.n(120, 1200)):
        tol = rng.choice(tolerances(ctx))
        M = float(masses[rng.choice(syms)])
        m = M + rng.choice([1, -1]) * (tol + rng.choice([-EPS, EPS, -tol / 3, tol / 3]))
        t = "%.16e" % m
        if k % 3 == 1:
            t = t.upper()
        elif k % 3 == 2:
            mant, ex = t.split("e")
            t = mant + "e" + str(int(ex))
        ctx.count("spelling:exp-full")
        call_case(mk("load_elements", [float(text_value(t))], tol, mass_text=[t], default=(tol == 0.1 and k % 2 == 0),
                     layout=rng.choice(layouts)), [], "spelling-boundary")
    for m in (1e3, 1.7e3, 1e5, 1e6, 1e-3, 1e-5, 2.5, 13.0, 0.5, 0.0, 100.0, 5e2, 4.0026e2, 1.00794e1, 1.00794e2, 1.20107e3):
        for fam in exp_families + ["g", "bare-dot"]:
            if fam == "shifted" and not 1e-3 <= m <= 1e6:
                continue
            texts, ms = spelled([m], [fam])
            tol = rng.choice([0.1, 0.5, 0.01])
            call_case(mk("load_elements", ms, tol, default=(tol == 0.1), mass_text=texts, layout=rng.choice(layouts)), [],
                      "spelling-off-table")
    # 5c. files with several types (1…6, sometimes 10…30), every line in its own spelling, sometimes one bad mass, sometimes
    #     the Masses lines shuffled, labels all / none / partial
    for k in range(ctx.n(150, 1500)):
        tol = rng.choice(tolerances(ctx))
        n = rng.randint(10, 30) if k % 6 == 5 else rng.randint(1, 6)
        els = [rng.choice(syms) for _ in range(n)]
        if k == 0:
            n, els, tol = 3, ["Ca", "C", "O"], 0.1
        ms = [float(masses[e]) + rng.choice([0.0, 0.0, 0.0, tol / 2, -tol / 2]) for e in els]
        if rng.random() < 0.3:
            ms[rng.randrange(n)] = rng.choice([13.0, 2.5, 1000.0, 1700.0, 100.0, 0.0, float(masses[rng.choice(syms)]) + 2 * tol + 0.37])
        fams = [rng.choice(exp_families) for _ in range(n)] if k % 3 == 0 else None
        texts, ms = spelled(ms, fams)
        style = rng.choice(["all", "none", "partial"])
        comments = [("%s_t%d" % (els[i], i + 1)) if (style == "all" or (style == "partial" and rng.random() < 0.5)) else None
                    for i in range(n)]
        types = [rng.randrange(n) for _ in range(rng.randint(1, 8))]
        order = None
        if k % 4 == 3 and n > 1:
            order = list(range(n))
            rng.shuffle(order)
        extra = {} if order is None else {"mass_order": order}
        call_case(mk("load_elements", ms, tol, default=(tol == 0.1 and k % 2 == 0), mass_text=texts, layout=rng.choice(layouts),
                     comments=comments, types=types, via_load=k % 5 == 1, atom_format=[None, "full", "atomic"][k % 3], **extra),
                  [], "spelling-multi")

    bad = table_check(T)
    ctx.case({"op": "table-check", "stage": "end", "constructs": []}, nontrivial=False)
    if bad:
        ctx.fail(bad, {"op": "table-check", "stage": "end", "constructs": []},
                 required="ATOMIC_MASSES equals the source table after the whole run")
    ctx.exhaustive = True
    ctx.notes.append("elements whose mass coincides (within 1e-5) with another element's (excluded from the 'survives unchanged' demand): %s"
                     % sorted(set(syms) - sep))
    if oracle_only:
        return
    def to_wire(o):
        if o.get("mass_order") is not None:      # the section as it stands in the file: lines in file order, each with its id
            return {"op": "load_masses", "tol": o["tol"],
                    "lines": [{"id": i + 1, "mass": o["masses"][i], "comment": o["comments"][i]} for i in o["mass_order"]]}
        return {k: v for k, v in o.items() if k in ("op", "masses", "tol", "comments")}
    wire = [to_wire(o) for o in ops]
    models = ctx.lean.run(wire)
    for inp, r, m, amb in zip(ops, impls, models, skip):
        if amb:
            ctx.ambiguous += 1
            continue
        ctx.compare(inp["op"], inp, r, m)


def oracle_roundtrip(T, sep, els, r):
    if "ok" not in r:
        return "write/read cycle raised %s" % r.get("err")
    # the elements are distinct, so there is one type per element, in order
    got = r["ok"]["elements"]
    if len(got) != len(els):
        return "%d types came back for %d elements" % (len(got), len(els))
    ms, cs = masses_section(r["text"])
    for e, g, m in zip(els, got, ms):
        if e in sep and g != e:
            return "element %s (mass distinguishable from all others) came back as %s" % (e, g)
        bad = oracle_one(T, fr(m), fr(0.1), g)
        if bad:
            return "element %s: %s" % (e, bad)
    if r["atom_elements"] != got:
        return "per-atom elements %s differ from the type elements %s" % (r["atom_elements"], got)
    if r["ok"]["labels"] != list(els):
        return "labels %s after the cycle, written %s" % (r["ok"]["labels"], list(els))
    return None


def search(ctx):
    """the sweep is exhaustive already; run it oracle-only with the thorough tolerances and list budgets"""
    saved = ctx.tier
    ctx.tier = "thorough"
    try:
        run(ctx, oracle_only=True)
    finally:
        ctx.tier = saved


def replay(ctx, rec):
    inp = rec["input"]
    T = table()
    if inp["op"] == "cycle":
        return oracle_cycle(T, distinguishable(T), inp, real_cycle(inp)) is None
    if inp["op"] == "assembled":
        return oracle_assembled(T, distinguishable(T), inp, real_assembled(inp)) is None
    if inp["op"] == "roundtrip":
        return oracle_roundtrip(T, distinguishable(T), inp["elements"], real_roundtrip(inp["elements"])) is None
    if inp["op"] in ("table-check", "construct"):
        return do_call(T, inp)[1] is None
    if "history" in inp:
        for c in inp["history"]:
            do_call(T, c)
        return do_call(T, inp)[1] is None
    ms = [float(Fraction(s)) for s in inp["masses"]]
    tol = float(Fraction(inp["tol"]))
    if inp["op"] == "guess":
        return oracle_list(T, [fr(m) for m in ms], fr(tol), real_guess(ms, tol, default=inp.get("default", False))) is None
    r = real_load(ms, tol, inp["comments"], inp.get("types", [0]), default=inp.get("default", False), via_load=inp.get("via_load", False),
                  atom_format=inp.get("atom_format"), mass_order=inp.get("mass_order"), mass_text=inp.get("mass_text"),
                  layout=inp.get("layout"))
    return oracle_load(T, [fr(m) for m in ms], fr(tol), inp["comments"], r) is None
