"""C17 — bond detection equals the minimum-image covalent-radius rule (mofun.detect_bonds.detect_bonds)."""
import itertools
import math
from fractions import Fraction

import numpy as np

from .. import core, gen_tables

RULE = ("structures: (a) PLANTED pairs — for element pairs of the radii table (a random sample in the quick tier, EVERY "
        "unordered pair in the thorough tier) two atoms at distance cutoff*(1±1e-4) (and at ±1e-3…±1e-1) placed directly and "
        "through a face, an edge and a corner image, on orthorhombic / triclinic(±tilt) / arbitrarily oriented cells whose "
        "perpendicular widths are between 1.02x and 3x the largest cutoff in use, and without a cell; (b) random clusters "
        "of 2–12 atoms grown at 0.5–1.6x the cutoff from earlier atoms, wrapped into the cell; (c) dyadic fractional "
        "coordinates (k/64) in tight cells; (d) 0/1-atom structures and unknown elements (tie only). Every structure is also produced through the library's own operations "
        "(structure[perm], structure[unsorted subset], copy(), to_ase/from_ase_atoms, import from an ASE object, translate()+wrap, "
        "Atoms(elements=...), replicate((1,1,1)), two halves joined with extend(), accessor reads) with ground truth from the "
        "harness's own construction; (e) strongly skewed in-domain cells "
        "(tilt 1–3 edges); (g) guard boundaries: smallest width in [1+1e-9, 1.02]x cutoff with negative-diagonal / left-handed / "
        "permuted cells, offsets of 1e-10 and 1e-11 around the cutoff, atoms ON the faces/edges/corners (fractional 0 or 1) and up "
        "to 1/64 of a cell length outside (margin guard of bonds_eq_minimage_margin), integer-typed cells and coordinates; "
        "(f) scan_min tie: the minimum over the 27 scanned images, model vs uc_neighbor_offsets+cdist of the "
        "real code, on structure pairs and on small narrow / mildly tilted / strongly skewed cells. Every case is also "
        "shifted by a random vector + wrapped back, and permuted, on the real code. Non-trivial = distinct unambiguous structure with "
        "at least one bond that exists only through a periodic image (not at the direct distance), or — without a cell — a "
        "pair within 1e-3 (relative) of its cutoff. max_bond_length: all ordered pairs of table elements.")

AMBIG = 1e-12      # decisions closer than this (relative, in dist^2) are within the float error of the code under test
OFFSETS = [1e-3, 5e-3, 2e-2, 1e-1]


# ------------------------------------------------------------------ independent tables

_T = {}


def tables():
    """radii / non-metals re-read from the source text (not from the imported module, not from the Lean files)"""
    if not _T:
        t = gen_tables.read_tables()
        _T["radii"] = {k: Fraction(m, 10 ** e) for k, (m, e) in t["radii"]}
        _T["nm"] = set(t["nonmetals"])
        _T["elems"] = [k for k, _ in t["radii"]]
    return _T


def cutoff(e1, e2):
    """the rule's cutoff as an exact rational: r1 + r2 (+ 0.45 when at least one is a non-metal)"""
    T = tables()
    c = T["radii"][e1] + T["radii"][e2]
    if e1 in T["nm"] or e2 in T["nm"]:
        c += Fraction(45, 100)
    return c


# ------------------------------------------------------------------ real code

def fl(v):
    return float(core.unq(v))


INT_DTYPE = [False]     # set by check_case for structures whose cell and coordinates are integers


def _arr(x):
    a = np.array(x, dtype=float)
    return a.astype(int) if INT_DTYPE[0] and np.all(a == np.round(a)) else a


def make_atoms(elems, pos, cell):
    """the structure built with the explicit-types constructor (no mass lookup: "D" has a radius but no mass)"""
    from mofun import Atoms
    if INT_DTYPE[0]:
        cell_ = None if cell is None else _arr(cell)
        if not elems:
            return Atoms(cell=cell_)
        types = list(dict.fromkeys(elems))
        return Atoms(atom_types=[types.index(e) for e in elems], atom_type_elements=types,
                     atom_type_masses=[1.0] * len(types), positions=_arr(pos).reshape(-1, 3), cell=cell_)
    if not elems:
        return Atoms(cell=None if cell is None else np.array(cell, dtype=float))
    types = []
    for e in elems:
        if e not in types:
            types.append(e)
    return Atoms(atom_types=[types.index(e) for e in elems], atom_type_elements=types,
                 atom_type_masses=[1.0] * len(types), positions=np.array(pos, dtype=float).reshape(-1, 3),
                 cell=None if cell is None else np.array(cell, dtype=float))


def bonds_of(make):
    """detect_bonds on the structure returned by `make()` -> {"pairs": sorted list} | {"err": ...}"""
    def f():
        from mofun.detect_bonds import detect_bonds
        b = detect_bonds(make())
        return sorted([int(x), int(y)] for x, y in b)
    r = core.result_of(f)
    return {"pairs": r["ok"]} if "ok" in r else r


def run_real(elems, pos, cell):
    """detect_bonds on the real code -> {"pairs": sorted list} | {"err": ...}"""
    return bonds_of(lambda: make_atoms(elems, pos, cell))


# ------------------------------------------------------------------ the same structure / its transforms, produced by
# the LIBRARY's own public operations (ground truth always from the harness's own construction + oracle)

ROUTES = ["getitem-perm", "getitem-subset", "copy", "ase-roundtrip", "ase-import", "translate-wrap",
          "elements-ctor", "replicate-111", "extend-halves", "accessors-then-detect"]


def _ase_ok(elems):
    from ase.data import chemical_symbols
    return all(e in chemical_symbols for e in elems)


def library_routes(inp, elems, pos, cell, want, routes):
    """[(what, observed, required)] for every library-side route whose result differs from the rule"""
    from mofun import Atoms
    bad = []
    n = len(elems)
    if n == 0:
        # the atom-less structure through the library's own operations: always no bonds
        e0 = lambda: make_atoms([], [], cell)
        for route, mk in [("copy", lambda: e0().copy()), ("ase-roundtrip", lambda: Atoms.from_ase_atoms(e0().to_ase())),
                          ("replicate-111", (lambda: e0().replicate((1, 1, 1))) if cell is not None else None),
                          ("getitem-empty-array", lambda: e0()[np.array([], dtype=int)])]:
            if mk is not None and route.split("-empty")[0] in routes + ["getitem"]:
                got = bonds_of(mk)
                if got.get("pairs") != []:
                    bad.append(("bonding of the atom-less structure differs from the rule [route %s]" % route, got, []))
        return bad
    perm = inp.get("perm") or list(range(n))
    inv = {old: k for k, old in enumerate(perm)}
    base = lambda: make_atoms(elems, pos, cell)

    def expect(route, got, required, what):
        if got.get("pairs") != required:
            bad.append(("%s [route %s]" % (what, route), got, required))

    for route in routes:
        if route == "getitem-perm":
            renamed = sorted(sorted([inv[i], inv[j]]) for i, j in want)
            # the index in one of the public spellings: list, tuple, numpy array, negative indices, numpy ints
            sp = (n + perm[0]) % 5
            idx = [list(perm), tuple(perm), np.array(perm), [o - n for o in perm], [np.int64(o) for o in perm]][sp]
            expect(route, bonds_of(lambda: base()[idx]), renamed,
                   "bonding of structure[perm] (the library's own indexing, spelling %s) does not follow the renaming"
                   % ["list", "tuple", "array", "negative", "np.int64"][sp])
            if n == 1:
                expect(route, bonds_of(lambda: base()[0]), [], "bonding of structure[0] (a python int index) is not empty")
        elif route == "getitem-subset":
            sub = list(perm[:max(1, n // 2 + 1)])              # an unsorted selection without repetition
            w, s = oracle([elems[o] for o in sub], [pos[o] for o in sub], cell)
            if s >= AMBIG:
                expect(route, bonds_of(lambda: base()[sub]), w,
                       "bonding of the sub-structure structure[indices] differs from the rule on the selected atoms")
        elif route == "copy":
            expect(route, bonds_of(lambda: base().copy()), want, "bonding of structure.copy() differs from the rule")
        elif route == "ase-roundtrip" and _ase_ok(elems):
            expect(route, bonds_of(lambda: Atoms.from_ase_atoms(base().to_ase())), want,
                   "bonding after Atoms.from_ase_atoms(structure.to_ase()) differs from the rule")
        elif route == "ase-import" and _ase_ok(elems):
            def mk():
                import ase
                kw = {} if cell is None else {"cell": np.array(cell, dtype=float), "pbc": True}
                return Atoms.from_ase_atoms(ase.Atoms(list(elems), positions=np.array(pos, dtype=float), **kw))
            expect(route, bonds_of(mk), want, "bonding of a structure imported from an ASE object differs from the rule")
        elif route == "translate-wrap" and cell is not None and inp.get("shift") is not None:
            t = np.array([fl(v) for v in inp["shift"]])
            P2 = wrap(np.array(pos) + t, np.array(cell))
            w2, s2 = oracle(elems, P2.tolist(), cell)
            if s2 >= AMBIG:
                def mk():
                    a = base().copy()
                    a.translate(t)
                    a.positions = wrap(a.positions, np.array(cell))
                    return a
                expect(route, bonds_of(mk), want,
                       "bonding changed when the structure was shifted with translate() and wrapped back into the cell")
        elif route == "elements-ctor":
            from mofun.atomic_masses import ATOMIC_MASSES
            if all(e in ATOMIC_MASSES for e in elems):
                expect(route, bonds_of(lambda: Atoms(elements=list(elems), positions=np.array(pos, dtype=float),
                                                     cell=None if cell is None else np.array(cell, dtype=float))), want,
                       "bonding of Atoms(elements=...) differs from the rule")
        elif route == "replicate-111" and cell is not None:
            expect(route, bonds_of(lambda: base().replicate((1, 1, 1))), want,
                   "bonding of structure.replicate((1,1,1)) differs from the rule")
        elif route == "extend-halves" and n >= 2:
            def mk():
                h = n // 2
                a = make_atoms(elems[:h], pos[:h], cell)
                a.extend(make_atoms(elems[h:], pos[h:], cell))
                return a
            expect(route, bonds_of(mk), want, "bonding of the structure assembled from two halves with extend() differs from the rule")
        elif route == "accessors-then-detect":
            def mk():
                a = base()
                _ = (a.elements, a.symbols, len(a), a.num_atom_types, a.cell_is_orthorhombic() if cell is not None else None)
                if list(a.elements) != list(elems):
                    raise AssertionError("elements accessor")
                return a
            expect(route, bonds_of(mk), want, "bonding after reading the accessors differs from the rule")
    return bad


def real_mbl(e1, e2):
    def f():
        from mofun.detect_bonds import max_bond_length
        return float(max_bond_length(e1, e2))
    return core.result_of(f)


# ------------------------------------------------------------------ the oracle: brute-force minimum over 7^3 images

_GRID = np.array(list(itertools.product(range(-3, 4), repeat=3)), dtype=float)
_GRID_NZ = _GRID[(np.abs(_GRID).sum(axis=1) > 0) & (np.abs(_GRID).max(axis=1) <= 2)]


def oracle(elems, pos, cell):
    """(pairs, slack): pair i<j bonded iff the smallest distance over a 7x7x7 block of images (plain distance without a
    cell) is below the rule's cutoff; slack = min over pairs of |dmin^2 - c^2| / c^2"""
    P = np.array(pos, dtype=float).reshape(-1, 3)
    shifts = np.zeros((1, 3)) if cell is None else _GRID @ np.array(cell, dtype=float)
    pairs, slack = [], math.inf
    n = len(elems)
    for i in range(n):
        for j in range(i + 1, n):
            c = float(cutoff(elems[i], elems[j]))
            d = P[i] + shifts - P[j]
            dmin = math.sqrt(float((d * d).sum(axis=1).min()))
            slack = min(slack, abs(dmin * dmin - c * c) / (c * c))
            if dmin < c:
                pairs.append([i, j])
    return pairs, slack


def wrap(P, cell):
    f = P @ np.linalg.inv(cell)
    f = f % 1.0
    return f @ cell


def widths(cell):
    a, b, c = cell
    vol = abs(np.dot(np.cross(a, b), c))
    return [vol / np.linalg.norm(np.cross(b, c)), vol / np.linalg.norm(np.cross(c, a)), vol / np.linalg.norm(np.cross(a, b))]


def check_case(inp):
    """the property on the real code for one structure.
    Returns (list of (what, observed, required), real, slack, nontrivial)."""
    elems = inp["elems"]
    pos = [[fl(v) for v in p] for p in inp["pos"]]
    cell = None if inp["cell"] is None else [[fl(v) for v in row] for row in inp["cell"]]
    INT_DTYPE[0] = bool(inp.get("intdtype"))
    try:
        return _check_case(inp, elems, pos, cell)
    finally:
        INT_DTYPE[0] = False


def _check_case(inp, elems, pos, cell):
    real = run_real(elems, pos, cell)
    T = tables()
    if any(e not in T["radii"] for e in elems):
        return [], real, math.inf, False    # outside the property's quantifier (tie only)
    want, slack = oracle(elems, pos, cell)
    bad = []
    if slack < AMBIG:
        return bad, real, slack, False
    if cell is None:
        nontriv = slack < 2.1e-3
    else:
        direct, _ = oracle(elems, pos, None)
        nontriv = any(p not in direct for p in want)
    if "pairs" not in real:
        bad.append(("detect_bonds raised %s on a structure of table elements" % real.get("err"), real, want))
        return bad, real, slack, nontriv
    if real["pairs"] != want:
        bad.append(("detected bonds differ from the minimum-image covalent-radius rule", real["pairs"], want))
    n = len(elems)
    # metamorphic 1: shift everything and wrap back into the cell
    if cell is not None and inp.get("shift") is not None and n:
        t = np.array([fl(v) for v in inp["shift"]])
        P2 = wrap(np.array(pos) + t, np.array(cell))
        w2, s2 = oracle(elems, P2.tolist(), cell)
        if s2 >= AMBIG:
            r2 = run_real(elems, P2.tolist(), cell)
            if r2.get("pairs") != real["pairs"]:
                bad.append(("bonding changed when the structure was shifted and wrapped back into the cell",
                            r2, real["pairs"]))
    # metamorphic 2: reorder the atoms
    if inp.get("perm") is not None and n:
        perm = inp["perm"]                                  # new atom k = old atom perm[k]
        inv = {old: k for k, old in enumerate(perm)}
        r3 = run_real([elems[o] for o in perm], [pos[o] for o in perm], cell)
        renamed = sorted(sorted([inv[i], inv[j]]) for i, j in real["pairs"])
        if r3.get("pairs") != renamed:
            bad.append(("bonding does not follow the renaming when atoms are reordered", r3, renamed))
    # the same relations through the library's own public operations
    routes = inp.get("routes")
    bad.extend(library_routes(inp, elems, pos, cell, want, ROUTES if routes is None else routes))
    return bad, real, slack, nontriv


# ------------------------------------------------------------------ generators

def unit(rng):
    while True:
        v = np.array([rng.gauss(0, 1) for _ in range(3)])
        n = np.linalg.norm(v)
        if n > 1e-3:
            return v / n


def make_cell(rng, kind, cmax, tight=None):
    """a cell (float 3x3, dyadic entries) of the given kind whose perpendicular widths are >= 1.02*cmax"""
    if tight is None:
        tight = rng.random() < 0.35
    lo, hi = (1.05, 1.3) if tight else (1.3, 3.0)
    if not tight and rng.random() < 0.3:
        lo, hi = 4.0, 9.0     # large cells (edges well above twice the largest cutoff) with proportionally large tilts
    d = lambda: math.ceil(cmax * rng.uniform(lo, hi) * 16) / 16
    a, b, c = d(), d(), d()
    if kind == "ortho":
        m = [[a, 0, 0], [0, b, 0], [0, 0, c]]
    elif kind in ("tri+", "tri-"):
        s = 1 if kind == "tri+" else -1
        t = lambda x: s * rng.randint(1, 8) / 16 * x
        m = [[a, 0, 0], [t(a), b, 0], [t(a), rng.choice([1, -1]) * t(b), c]]
    elif kind == "edge":
        # the boundary of the width guard: smallest perpendicular width in [1 + 1e-9, 1.02] * cmax, rows with negative
        # diagonal entries, left-handed (det < 0) and permuted cells
        m = np.array([[a, 0, 0], [rng.uniform(-0.5, 0.5) * a, b, 0],
                      [rng.uniform(-0.5, 0.5) * a, rng.uniform(-0.5, 0.5) * b, c]])
        if rng.random() < 0.3:
            m = np.diag(np.diag(m))
        m = m * np.array([rng.choice([1, -1]) for _ in range(3)]).reshape(3, 1)
        if rng.random() < 0.5:
            m = m[rng.sample(range(3), 3)]
        m = m * (cmax * rng.choice([1 + 1e-9, 1 + 1e-6, rng.uniform(1.0 + 1e-9, 1.02)]) / min(widths(m)))
        while min(widths(m)) < cmax * (1 + 5e-10):
            m = m * (1 + 1e-9)
        return m
    elif kind == "skew":  # strongly tilted (tilt factors of 1–3 edges): the NEAREST image can lie outside the 27
        t = lambda x: rng.choice([1, -1]) * rng.randint(16, 48) / 16 * x
        m = [[a, 0, 0], [t(a), b, 0], [t(a) if rng.random() < 0.5 else 0, t(b) if rng.random() < 0.5 else 0, c]]
        if rng.random() < 0.5:
            rng.shuffle(m)
    else:  # "rot": sheared and permuted, no zero pattern
        e = lambda: rng.randint(-8, 8) / 16 * cmax
        m = [[a, e(), e()], [e(), b, e()], [e(), e(), c]]
        rng.shuffle(m)
    m = np.array(m, dtype=float)
    m = np.round(m * 64) / 64
    if abs(np.linalg.det(m)) < 1e-6:
        return make_cell(rng, "ortho", cmax, tight)
    for _ in range(200):
        w = min(widths(m))
        if w >= 1.02 * cmax:
            break
        m = np.ceil(np.abs(m) * (1.02 * cmax / w) * 1.001 * 64) / 64 * np.sign(m)
    return m


def cmax_of(elems):
    return max(float(cutoff(a, b)) for a in set(elems) for b in set(elems))


def _place(rng, cell, d, c, mode):
    """p1, p2 inside the cell with p1 + n.L + v = p2, |v| = d, n non-zero on exactly `mode` axes, such that this image
    IS the nearest one (so the minimum-image distance is d) and, for mode >= 1, the direct distance is clearly
    above the cutoff"""
    inv = np.linalg.inv(cell)
    # candidate displacement vectors that are their own nearest image (batch, deterministic from rng)
    g = np.random.default_rng(rng.getrandbits(64))
    S = _GRID_NZ @ cell
    S2 = (S * S).sum(axis=1)
    for nb in (64, 512, 2048):
        U = g.normal(size=(nb, 3))
        U /= np.linalg.norm(U, axis=1).reshape(-1, 1)
        V = d * U
        V = V[(2 * V @ S.T + S2).min(axis=1) > 1e-6 * d * d]
        if len(V) >= 4:
            break
    for v in V[:60]:
        delta = v @ inv                         # fractional displacement
        axes = rng.sample(range(3), mode)
        if any(abs(delta[k]) < 0.02 for k in axes):
            continue
        f1 = np.zeros(3)
        nvec = np.zeros(3)
        ok = True
        for k in range(3):
            u = rng.uniform(0.15, 0.85)
            if k in axes:
                if delta[k] < 0:               # image +1: p1 near the bottom, p2 near the top
                    nvec[k] = 1
                    f1[k] = -delta[k] * u
                else:
                    nvec[k] = -1
                    f1[k] = 1 - delta[k] * u
            else:
                lo, hi = max(0.0, -delta[k]) + 0.01, min(1.0, 1 - delta[k]) - 0.01
                if lo >= hi:
                    ok = False
                    break
                f1[k] = lo + (hi - lo) * u
        if not ok:
            continue
        p1 = f1 @ cell
        p2 = p1 + nvec @ cell + v
        f2 = p2 @ inv
        if not (np.all(f2 > 0.002) and np.all(f2 < 0.998) and np.all(f1 > 0.002) and np.all(f1 < 0.998)):
            continue
        dd = p1 + _GRID @ cell - p2
        dmin = math.sqrt(float((dd * dd).sum(axis=1).min()))
        if abs(dmin - d) > 1e-9 * d:
            continue                            # another image is nearer than the planted one
        if mode >= 1 and np.linalg.norm(p2 - p1) < 1.02 * c:
            continue
        return [p1, p2]
    return None


def planted(rng, e1, e2, mode, rel, kind, extra=False):
    """two atoms at distance cutoff*(1+rel): mode 0 = direct, 1/2/3 = only through a face/edge/corner image.
    Returns the input dict or None when no placement was found."""
    c = float(cutoff(e1, e2))
    d = c * (1.0 + rel)
    elems = [e1, e2]
    if kind == "none":
        p1 = np.array([rng.randint(-256, 256) / 64 for _ in range(3)])
        P = [p1, p1 + d * unit(rng)]
        cell = None
    else:
        cm = cmax_of(elems)
        P = None
        for attempt in range(4):
            cell = make_cell(rng, kind, cm, tight=None if attempt == 0 else False)
            P = _place(rng, cell, d, c, mode)
            if P is not None:
                break
        if P is None:
            return None
    if rng.random() < 0.5:
        elems, P = elems[::-1], P[::-1]
    if extra:
        e3 = rng.choice([e1, e2])
        if cell is None:
            P.append(P[0] + rng.uniform(0.3, 2.5) * cutoff_f(e3, elems[0]) * unit(rng))
        else:
            P.append(np.array([rng.randint(1, 63) / 64 for _ in range(3)]) @ cell)
        elems = elems + [e3]
    return build(rng, elems, P, cell, "planted/%s/%s/%+.0e" % (kind, ["direct", "face", "edge", "corner"][mode], rel))


def cutoff_f(a, b):
    return float(cutoff(a, b))


def build(rng, elems, P, cell, kind):
    n = len(elems)
    inp = {"op": "bonds", "elems": list(elems),
           "pos": [[core.q(float(v)) for v in p] for p in P],
           "cell": None if cell is None else [[core.q(float(v)) for v in row] for row in cell],
           "kind": kind, "shift": None, "perm": None}
    if cell is not None:
        inp["shift"] = [core.q(rng.randint(-2048, 2048) / 128) for _ in range(3)]
    perm = list(range(n))
    rng.shuffle(perm)
    inp["perm"] = perm
    return inp


PALETTE = ["C", "H", "O", "N", "Zr", "Cu", "Zn", "F", "S", "Cl", "Si", "Li", "Fe", "D", "Br", "Al"]


def cluster(rng, kind, nmax):
    T = tables()
    n = rng.randint(2, nmax)
    pool = rng.sample(PALETTE, rng.randint(1, 4)) + rng.sample(T["elems"], rng.randint(0, 2))
    elems = [rng.choice(pool) for _ in range(n)]
    cell = None if kind == "none" else make_cell(rng, kind, cmax_of(elems))
    P = []
    for i in range(n):
        for _ in range(100):
            if i == 0 or rng.random() < 0.15:
                p = np.array([rng.uniform(0, 6) for _ in range(3)])
            else:
                k = rng.randrange(i)
                p = P[k] + rng.uniform(0.5, 1.6) * cutoff_f(elems[i], elems[k]) * unit(rng)
            if cell is not None:
                p = wrap(p.reshape(1, 3), cell)[0]
                f = p @ np.linalg.inv(cell)
                if not (np.all(f > 0.001) and np.all(f < 0.999)):
                    continue
            break
        P.append(p)
    return build(rng, elems, P, cell, "cluster/%s" % kind)


def dyadic(rng, kind, nmax):
    """dyadic fractional coordinates in a tight cell: dense bonding through the boundaries"""
    n = rng.randint(2, nmax)
    pool = rng.sample(PALETTE, rng.randint(1, 3))
    elems = [rng.choice(pool) for _ in range(n)]
    cell = make_cell(rng, kind, cmax_of(elems), tight=True)
    den = rng.choice([8, 16, 64])
    P = [np.array([rng.randint(0 if den < 64 else 1, den - 1) / den for _ in range(3)]) @ cell for _ in range(n)]
    return build(rng, elems, P, cell, "dyadic/%s" % kind)


CELL_KINDS = ["ortho", "tri+", "tri-", "rot"]


def cases(ctx):
    rng = ctx.rng
    T = tables()
    out = []
    els = T["elems"]
    allpairs = [(a, b) for i, a in enumerate(els) for b in els[i:]]
    if ctx.tier == "quick":
        pairs = rng.sample(allpairs, 200)
        # always some pairs of each class: metal–metal, metal–non-metal, non-metal–non-metal
        pairs += [("Cu", "Zn"), ("C", "Cu"), ("C", "H"), ("Fr", "Fr"), ("H", "H"), ("D", "Fe")]
    else:
        pairs = list(allpairs)
    for (a, b) in pairs:
        if rng.random() < 0.5:
            a, b = b, a
        for mode in range(4):
            kind = rng.choice(CELL_KINDS)
            for sgn in (-1, 1):
                out.append(planted(rng, a, b, mode, sgn * 1e-4, kind, extra=rng.random() < 0.25))
            out.append(planted(rng, a, b, mode, rng.choice([-1, 1]) * rng.choice(OFFSETS), rng.choice(CELL_KINDS)))
        for sgn in (-1, 1):
            out.append(planted(rng, a, b, 0, sgn * 1e-4, "none", extra=rng.random() < 0.25))
        out.append(planted(rng, a, b, 0, rng.choice([-1, 1]) * rng.choice(OFFSETS), "none"))
    for _ in range(ctx.n(160, 2500)):
        out.append(cluster(rng, rng.choice(CELL_KINDS + ["none"]), ctx.n(8, 12)))
    for _ in range(ctx.n(60, 800)):
        out.append(dyadic(rng, rng.choice(CELL_KINDS), ctx.n(6, 9)))
    # degenerate sizes and the malformed stream (unknown element: tie only)
    cell = make_cell(rng, "ortho", 3.0)
    out.append(build(rng, [], [], None, "empty"))
    out.append(build(rng, [], [], cell, "empty"))
    out.append(build(rng, ["C"], [np.array([0.5, 0.5, 0.5])], cell, "single"))
    out.append(build(rng, ["Xx"], [np.array([0.5, 0.5, 0.5])], None, "single-unknown"))
    for _ in range(ctx.n(6, 40)):
        e = [rng.choice(PALETTE) for _ in range(rng.randint(1, 4))]
        e.insert(rng.randint(0, len(e)), rng.choice(["Xx", "Q", "c", ""]))
        P = [np.array([rng.randint(1, 63) / 64 for _ in range(3)]) @ cell for _ in e]
        out.append(build(rng, e, P, rng.choice([None, cell]), "unknown-element"))
    # strongly skewed cells inside the property's domain (widths >= cutoffs; appended last so that the earlier stream
    # of cases is unchanged): the nearest image of a far pair may be outside the 27, bonded pairs never are
    for (a, b) in rng.sample(pairs, min(len(pairs), ctx.n(40, 400))):
        for mode in range(4):
            out.append(planted(rng, a, b, mode, rng.choice([-1, 1]) * 1e-4, "skew", extra=rng.random() < 0.25))
    for _ in range(ctx.n(20, 200)):
        out.append(cluster(rng, "skew", ctx.n(6, 9)))
    # the boundaries of the guards (appended after everything else): width floor 1.00*cmax with negative-diagonal /
    # left-handed cells, offsets of 1e-10 / 1e-11 around the cutoff, atoms ON the faces and slightly outside the cell,
    # integer-typed cells and coordinates
    for (a, b) in rng.sample(pairs, min(len(pairs), ctx.n(50, 500))):
        for mode in range(4):
            out.append(planted(rng, a, b, mode, rng.choice([-1, 1]) * rng.choice([1e-4, 1e-10, 1e-11]), "edge"))
        out.append(planted(rng, a, b, 0, rng.choice([-1, 1]) * rng.choice([1e-10, 1e-11]), "none"))
    for _ in range(ctx.n(60, 600)):
        out.append(boundary_case(rng, ctx.n(6, 9)))
    for _ in range(ctx.n(30, 300)):
        out.append(integer_case(rng, ctx.n(6, 9)))
    return [c for c in out if c is not None], out.count(None)


def boundary_case(rng, nmax):
    """atoms ON the faces / edges / corners of the cell (fractional coordinates exactly 0 or 1) and up to delta = 1/64 of a
    cell length outside it, in a cell whose widths are just enough for the margin guard: cutoff <= (1 - 2 delta) * width"""
    n = rng.randint(2, nmax)
    pool = rng.sample(PALETTE, rng.randint(1, 3))
    elems = [rng.choice(pool) for _ in range(n)]
    outside = rng.random() < 0.5
    delta = Fraction(1, 64) if outside else Fraction(0)
    cm = cmax_of(elems) / float(1 - 2 * delta)
    cell = make_cell(rng, "edge", cm) if rng.random() < 0.5 else make_cell(rng, rng.choice(CELL_KINDS), cm, tight=True)
    d = float(delta)
    def fr():
        if outside:
            return rng.choice([-d, 1 + d, -d / 2, 1 + d / 2, rng.uniform(-d, 1 + d), rng.randint(0, 64) / 64])
        return rng.choice([0.0, 1.0, 0.0, 1.0, rng.randint(0, 64) / 64, rng.random()])
    F = np.array([[fr() for _ in range(3)] for _ in range(n)])
    if outside:
        F = np.clip(F, -d * (1 - 1e-9), 1 + d * (1 - 1e-9))      # strictly within the margin after rounding
    inp = build(rng, elems, list(F @ cell), cell, "boundary/%s" % ("outside" if outside else "faces"))
    inp["margin"] = core.q(delta if outside else Fraction(1, 2 ** 40))
    return inp


def integer_case(rng, nmax):
    """integer-typed cell and integer coordinates (numpy int arrays handed to the constructor)"""
    n = rng.randint(2, nmax)
    pool = rng.sample(PALETTE, rng.randint(1, 3))
    elems = [rng.choice(pool) for _ in range(n)]
    cm = cmax_of(elems)
    k = math.ceil(cm) + rng.randint(1, 3)
    s = lambda: rng.choice([1, -1])
    cell = np.array([[s() * (k + rng.randint(0, 3)), 0, 0], [rng.randint(-2, 2), s() * (k + rng.randint(0, 3)), 0],
                     [rng.randint(-2, 2), rng.randint(-2, 2), s() * (k + rng.randint(0, 4))]], dtype=float)
    if rng.random() < 0.5:
        cell = cell[rng.sample(range(3), 3)]
    while min(widths(cell)) < cm * 1.001:
        cell = cell * 2
    # integer points whose fractional coordinates lie in [0, 1)
    inv = np.linalg.inv(cell)
    P = []
    lo, hi = (np.minimum(cell, 0).sum(axis=0)).astype(int), (np.maximum(cell, 0).sum(axis=0)).astype(int)
    for _ in range(n):
        for _ in range(200):
            p = np.array([rng.randint(int(lo[i]), int(hi[i])) for i in range(3)], dtype=float)
            f = p @ inv
            if np.all(f > 1e-9) and np.all(f < 1 - 1e-9) or np.all(np.abs(f - np.round(f)) < 1e-12) and np.all(np.round(f) == 0):
                break
        else:
            p = np.zeros(3)
        P.append(p)
    inp = build(rng, elems, P, cell, "integer")
    inp["intdtype"] = True
    return inp


_GRID13 = np.array(list(itertools.product(range(-6, 7), repeat=3)), dtype=float)


def real_scan_min(p, q, cell):
    """the smallest squared distance among the images the REAL code scans: atom1 + uc_neighbor_offsets(cell) vs atom2"""
    def f():
        from mofun import uc_neighbor_offsets
        from scipy.spatial import distance
        offs = uc_neighbor_offsets(np.array(cell, dtype=float))
        ss = distance.cdist(np.array(p, dtype=float) + offs, [q], "euclidean")
        return [len(offs), float(ss.min()) ** 2]
    return core.result_of(f)


def scan_cases(ctx, structs):
    """(p, q, cell) triples for the `scan_min` tie: pairs taken from the generated structures, plus small cells of three
    shapes — orthorhombic and NARROWER than a bond (scanReduced, outside the width guard), mildly tilted, strongly
    skewed (outside both guards)"""
    rng = ctx.rng
    out = []
    withcell = [c for c in structs if c["cell"] is not None and len(c["elems"]) >= 2]
    for c in rng.sample(withcell, min(len(withcell), ctx.n(120, 1500))):
        out.append((c["pos"][0], c["pos"][1], c["cell"], "structure"))
    for _ in range(ctx.n(180, 2500)):
        shape = rng.choice(["narrow-ortho", "mild", "skewed"])
        d = lambda: rng.randint(8, 96) / 16
        a, b, c = d(), d(), d()
        if shape == "narrow-ortho":
            m = [[a, 0, 0], [0, b, 0], [0, 0, c]]
        elif shape == "mild":
            t = lambda x: rng.randint(-6, 6) / 16 * x
            m = [[a, 0, 0], [t(a), b, 0], [0 if rng.random() < 0.5 else t(a), 0, c]]
        else:
            t = lambda x: rng.randint(-64, 64) / 16 * x
            m = [[a, 0, 0], [t(a), b, 0], [t(a), t(b), c]]
        if rng.random() < 0.3:
            rng.shuffle(m)
        m = np.array(m, dtype=float)
        f1, f2 = [np.array([rng.randint(0, 63) / 64 for _ in range(3)]) for _ in range(2)]
        out.append(([core.q(float(v)) for v in f1 @ m], [core.q(float(v)) for v in f2 @ m],
                    [[core.q(float(v)) for v in row] for row in m], shape))
    return out


def witness_for_cutoff(ctx, e1, e2, got, want):
    """a structure on which a wrong cutoff shows in detect_bonds: two atoms at a distance between the two values"""
    if got is None:
        d = 0.5 * want
    else:
        d = 0.5 * (got + want)
    P = [np.array([0.25, 0.5, 0.75]), np.array([0.25 + d, 0.5, 0.75])]
    inp = build(ctx.rng, [e1, e2], P, None, "witness/cutoff")
    bad, real, slack, _ = check_case(inp)
    return inp, bad, real


def run(ctx, oracle_only=False):
    ctx.rule = RULE
    T = tables()
    cs, unplaced = cases(ctx)
    if unplaced:
        ctx.count("planted:no-placement-found", unplaced)
    ops, impls = [], []
    for k, inp in enumerate(cs):
        # library-side routes: the reordering route always + rotating others (4 in the quick tier, 2 in the thorough tier);
        # every route is exercised by hundreds of cases in either tier
        rest = ROUTES[1:]
        w = 4 if ctx.tier == "quick" else 2
        inp["routes"] = [ROUTES[0]] + [rest[(k * w + t) % len(rest)] for t in range(w)]
        bad, real, slack, nontriv = check_case(inp)
        ctx.case({k: inp[k] for k in ("elems", "pos", "cell")}, nontrivial=nontriv)
        ctx.count("kind:" + inp["kind"].split("/")[0] + "/" + ("cell" if inp["cell"] else "nocell"))
        if inp["kind"].startswith("planted"):
            ctx.count("planted:" + inp["kind"].split("/")[2])
            ctx.count("celltype:" + inp["kind"].split("/")[1])
        ctx.count("atoms:%d" % len(inp["elems"]))
        if slack < AMBIG:
            ctx.ambiguous += 1
            ctx.count("ambiguous:oracle")
        for what, obs, req in bad:
            ctx.fail(what, inp, observed=obs, required=req)
        ops.append(inp)
        impls.append(real)
    # every pair of table elements: the cutoff itself (exhaustive)
    mops, mimpls = [], []
    names = T["elems"] + ["Xx"]
    for e1 in names:
        for e2 in names:
            r = real_mbl(e1, e2)
            mops.append({"op": "max_bond_length", "el1": e1, "el2": e2})
            mimpls.append(r)
            if e1 == "Xx" or e2 == "Xx":
                continue
            want = float(cutoff(e1, e2))
            got = r.get("ok")
            if got is None or abs(got - want) > 1e-12:
                winp, wbad, wreal = witness_for_cutoff(ctx, e1, e2, got, want)
                for what, obs, req in wbad[:1]:
                    ctx.fail("max_bond_length(%s,%s) = %s, the rule says %s; %s" % (e1, e2, got, want, what), winp,
                             observed=obs, required=req)
                if not wbad:
                    ctx.fail("max_bond_length(%s,%s) = %s, the rule says %s" % (e1, e2, got, want),
                             {"op": "max_bond_length", "el1": e1, "el2": e2}, observed=got, required=want)
    ctx.count("max_bond_length pairs", len(mops))
    if oracle_only:
        return
    # the scanned minimum: model (scanMinDist2 over ucOffsets) vs the images the real code builds
    sc = scan_cases(ctx, cs)
    sops = [{"op": "scan_min", "p": p, "q": q, "cell": cell, "shape": shape} for p, q, cell, shape in sc]
    smodels = ctx.lean.run(sops)
    for o, m in zip(sops, smodels):
        pf, qf = [fl(v) for v in o["p"]], [fl(v) for v in o["q"]]
        cf = [[fl(v) for v in row] for row in o["cell"]]
        r = real_scan_min(pf, qf, cf)
        ctx.count("scan_min:" + o["shape"] + ("/reduced" if m.get("reduced") else "/not-reduced"))
        if "ok" not in r or "scanmin" not in m:
            ctx.disagree("scan_min", o, r, m, "scan_min failed on one side")
            continue
        nimg, real2 = r["ok"]
        ctx.compare("scan_min", o, {"images": nimg, "q": core.q(real2)}, {"images": 27, "q": m["scanmin"]})
        if m["reduced"] and m["inside"]:
            # theorem scan_contains_minimiser_reduced, numerically: the scanned minimum is the minimum over a 13^3 block
            d = np.array(pf) + _GRID13 @ np.array(cf) - np.array(qf)
            brute = float((d * d).sum(axis=1).min())
            if not core.close(core.q(brute), m["scanmin"], 1e-9):
                ctx.disagree("scan_min", o, brute, m, "scanReduced cell: the 27 images do not contain the nearest image of a 13^3 block")
    models = ctx.lean.run(ops + mops)
    for inp, r, m in zip(ops, impls, models[:len(ops)]):
        if "bad" in m:
            ctx.disagree("bonds", inp, r, m, "driver rejected the op: %s" % m["bad"])
            continue
        if "err" in m:
            ctx.compare("bonds", inp, r, {"err": m["err"]})
            continue
        gkey = "guards_margin" if inp.get("margin") is not None else "guards"
        if inp["cell"] is not None and m.get(gkey) is not True and all(e in T["radii"] for e in inp["elems"]):
            ctx.disagree("bonds", inp, r, m, "generated case is outside the guards of bonds_eq_minimage%s (generator error)"
                         % ("_margin" if gkey == "guards_margin" else ""))
            continue
        if m.get("slack") is not None and core.unq(m["slack"]) < Fraction(1, 10 ** 12):
            ctx.ambiguous += 1
            ctx.count("ambiguous:model")
            continue
        ctx.compare("bonds", inp, r, {"pairs": sorted(m["pairs"])})
    for inp, r, m in zip(mops, mimpls, models[len(ops):]):
        a = {"q": core.q(r["ok"])} if "ok" in r else r
        b = {"q": m["ok"]} if "ok" in m else m
        ctx.compare("max_bond_length", inp, a, b, numeric_tol=1e-12)
    ctx.exhaustive = False
    ctx.notes.append("max_bond_length compared for all %d ordered pairs of table elements (+ an unknown element)" % len(mops))


def search(ctx):
    """focused search on the real code only (no model): the thorough budget through the oracle"""
    saved = ctx.tier
    ctx.tier = "thorough"
    try:
        run(ctx, oracle_only=True)
    finally:
        ctx.tier = saved


def replay(ctx, rec):
    inp = rec.get("input") or rec.get("correspondence", {}).get("input")
    if inp is None:
        return True                      # a broken proof obligation without an input: nothing to replay on the code
    if inp.get("op") == "max_bond_length":
        r = real_mbl(inp["el1"], inp["el2"])
        return "ok" in r and abs(r["ok"] - float(cutoff(inp["el1"], inp["el2"]))) <= 1e-12
    bad = check_case(inp)[0]
    return not bad
