"""C19 — term enumeration is complete and term typing depends only on UFF types
(rough_uff.calc_angles / calc_dihedrals / assign_*_types / retype_atoms_from_uff_types, helpers.typekey)."""
import itertools

from .. import core

RULE = ("bond graphs without self-loops and without 3-membered rings in which every atom has >= 1 bond: chains, random "
        "trees, rings >= 4, fused/spiro/linked ring assemblies, metal nodes of degree 4-8 (also bridged pairs), random "
        "triangle-free graphs, disconnected unions; vertices renumbered at random; bonds listed in random order and "
        "direction, with duplicate listings. Per graph: enumeration on two listings, typing of bonds/angles/dihedrals "
        "with random UFF types (plausible-by-degree, random friendly pool, random whole table), exclusion sets "
        "(none / too small / atoms of 1-2 terms / random subset / everything), term lists as enumerated, shuffled and with "
        "individual terms listed backwards, a renamed+permuted second run, the SAME atoms typed twice in one process with "
        "the term list in two orders, the parameter functions called key after key with their default arguments "
        "(forwards and backwards) against fresh explicit-argument evaluations, retype. UFF modes include assignments "
        "that MIX guessed bond orders in one structure (C_R/N_R next to C_3/H_/O_3, C_2 pairs) and toluene-like "
        "aromatic molecules (ring + methyl/hydroxyl/vinyl). Expected coefficient texts are evaluated in a fresh state "
        "(every argument explicit), re-evaluated after all assign calls, and cross-checked against the independent "
        "UFF formula oracle of the C18 harness. Dihedral typing additionally on chains that mix centres WITHOUT a defined "
        "torsion (sp X_1, metals) with ordinary sp3/sp2 centres, the term list ordered dropped-first / kept-first / "
        "alternating / shuffled and in EVERY permutation when there are <= 4 dihedrals; the renamed second run is itself "
        "checked by the typing oracle. Outside the property's domain, tie only: bond lists with self-bonds (model = "
        "networkx behaviour, theorems angles_exact / dihedrals_exact evaluated on the real output). Retype additionally "
        "on type lists with several types per element, in two atom orders. Every input reaches the real code in one of its "
        "public spellings, chosen by a hash of the input (a replay uses the same): bond lists as tuples / lists / (n,2) "
        "ndarray / numpy-integer tuples; term lists through the Atoms constructor, as python lists of tuples or lists, or "
        "as an ndarray set on the object; UFF types as list / tuple / ndarray; exclusion as set / frozenset / set of "
        "numpy integers (also on empty term lists); diatomic and empty bond lists; Du and Lw6+3 in the typing pools. "
        "Whether a dihedral must be kept is decided by the documented UFF rule written down independently of the code "
        "(both centres sp3/sp2/resonant by their label character -> defined, whatever the element; else sp centre -> none; "
        "else non-main-group centre -> none; else unsupported), not by calling dihedral_params; that rule is compared with "
        "the real function and with the Lean torsion case analysis for every table type as a centre against 14 partners "
        "(quick) / all 221 x 221 centre pairs (thorough). ZIF-like (Zn3+2/Zn3f2/Cu3f2/Ti3+4... with N_R rings) and "
        "paddlewheel-like nodes are generated. "
        "Thorough: additionally EVERY triangle-free graph on <= 6 labelled vertices with all degrees >= 1. "
        "Non-trivial = distinct input whose graph has a branch (degree >= 3) or a ring.")

ARITY = {"bond": 2, "angle": 3, "dihedral": 4}
PLURAL = {"bond": "bonds", "angle": "angles", "dihedral": "dihedrals"}

TERMINAL = ["H_", "H_", "H_", "F_", "Cl", "Br", "O_1", "O_2", "N_1"]
CHAIN2 = ["O_3", "O_R", "O_2", "N_2", "N_R", "C_1", "C_1", "N_1", "S_3+2", "O_3_z", "S_R", "C_2"]
BRANCH3 = ["C_R", "C_2", "N_3", "N_R", "B_2", "C_R", "P_3+3", "O_3_z", "N_2"]
BRANCH4 = ["C_3", "C_3", "N_3", "Si3", "P_3+5", "S_3+6", "Zn3+2", "B_3", "Zn3f2", "Ti3+4"]
METAL = ["Zr3+4", "Zr8f4", "Cu4+2", "Cu3f2", "Zn4+2", "Fe6+3", "Al6+3", "Ti6+4", "Zn3f2", "Mg6", "Zn3+2", "Ti3+4"]
FRIENDLY = sorted(set(TERMINAL + CHAIN2 + BRANCH3 + BRANCH4 + METAL))


def _uff():
    from mofun import rough_uff
    return rough_uff


def table_keys():
    from mofun.uff4mof import UFF4MOF
    return list(UFF4MOF.keys())


def massed_keys():
    """table keys whose element is in the mass table (retype's domain)"""
    from mofun.atomic_masses import ATOMIC_MASSES
    return [k for k in table_keys() if k[0:2].replace("_", "") in ATOMIC_MASSES]


# ------------------------------------------------------------------ graphs

def norm(e):
    return (e[0], e[1]) if e[0] <= e[1] else (e[1], e[0])


def has_triangle(edges):
    es = set(norm(e) for e in edges)
    adj = {}
    for a, b in es:
        adj.setdefault(a, set()).add(b)
        adj.setdefault(b, set()).add(a)
    return any(adj[a] & adj[b] for a, b in es)


def g_chain(rng, n):
    return [(i, i + 1) for i in range(n - 1)]


def g_tree(rng, n):
    return [(rng.randrange(i), i) for i in range(1, n)]


def g_ring(rng, n):
    return [(i, (i + 1) % n) for i in range(n)]


def g_assembly(rng, nmax):
    """rings >= 4 fused on an edge, spiro at a vertex or linked by a bond, plus a few substituents"""
    r = rng.randint(4, 6)
    edges = g_ring(rng, r)
    n = r
    for _ in range(rng.randint(1, 3)):
        r = rng.randint(4, 6)
        how = rng.choice(["fuse", "spiro", "link"])
        if how == "fuse":
            a, b = rng.choice(edges)
            k = r - 2
            if n + k > nmax:
                break
            path = [a] + list(range(n, n + k)) + [b]
        elif how == "spiro":
            a = rng.randrange(n)
            k = r - 1
            if n + k > nmax:
                break
            path = [a] + list(range(n, n + k)) + [a]
        else:
            a = rng.randrange(n)
            k = r
            if n + k > nmax:
                break
            path = [a] + list(range(n, n + k)) + [n]
        edges += [(path[i], path[i + 1]) for i in range(len(path) - 1)]
        n += k
    for _ in range(rng.randint(0, 3)):
        if n >= nmax:
            break
        edges.append((rng.randrange(n), n))
        n += 1
    return edges


def g_metal(rng, nmax):
    """a metal node of degree 4..8 with ligand atoms, some extended; optionally a second node bridged through ligands"""
    d = rng.randint(4, min(8, nmax - 1))
    edges = [(0, i) for i in range(1, d + 1)]
    n = d + 1
    if rng.random() < 0.5 and n + 1 <= nmax:
        m2 = n
        n += 1
        for lig in rng.sample(range(1, d + 1), rng.randint(2, min(4, d))):  # bridging ligands: 4-rings M-L-M'-L'
            edges.append((lig, m2))
    while n < nmax and rng.random() < 0.7:
        edges.append((rng.randrange(1, n), n))
        n += 1
    return edges


def g_random(rng, n):
    edges = set()
    target = rng.randint(n - 1, n + n // 2)
    for _ in range(6 * n):
        if len(edges) >= target:
            break
        a, b = rng.sample(range(n), 2)
        e = norm((a, b))
        if e in edges or has_triangle(list(edges) + [e]):
            continue
        edges.add(e)
    deg = {}
    for a, b in edges:
        deg[a] = deg.get(a, 0) + 1
        deg[b] = deg.get(b, 0) + 1
    edges = sorted(edges)
    for v in range(n):
        if v not in deg:
            w = rng.choice([u for u in range(n) if u != v])
            edges.append((v, w))
            deg[v] = 1
            deg[w] = deg.get(w, 0) + 1
    return edges


def nverts(edges):
    return 1 + max(max(e) for e in edges)


def rand_graph(rng, nmax, kind=None):
    kind = kind or rng.choice(["chain", "tree", "ring", "assembly", "assembly", "metal", "metal", "random", "random",
                               "disconnected", "disconnected"])
    if kind == "chain":
        edges = g_chain(rng, rng.randint(2, nmax))
    elif kind == "tree":
        edges = g_tree(rng, rng.randint(3, nmax))
    elif kind == "ring":
        edges = g_ring(rng, rng.randint(4, max(4, min(nmax, 9))))
    elif kind == "assembly":
        edges = g_assembly(rng, nmax)
    elif kind == "metal":
        edges = g_metal(rng, max(6, nmax))
    elif kind == "random":
        edges = g_random(rng, rng.randint(4, nmax))
    else:
        edges = []
        off = 0
        for _ in range(rng.randint(2, 3)):
            part, _k = rand_graph(rng, max(4, nmax // 2), rng.choice(["chain", "tree", "ring", "metal", "random", "assembly"]))
            edges += [(a + off, b + off) for a, b in part]
            off += nverts(part)
    edges = sorted(set(norm(e) for e in edges if e[0] != e[1]))
    assert not has_triangle(edges)
    if kind != "disconnected" or True:
        n = nverts(edges)
        p = list(range(n))
        rng.shuffle(p)
        edges = [norm((p[a], p[b])) for a, b in edges]
    return edges, kind


def g_aromatic(rng):
    """a six-membered aromatic ring (C_R, sometimes one N_R) whose atoms carry H_, methyl (C_3 with three H_), hydroxyl
    (O_3-H_), vinyl (C_2=C_2 with H_) or a second ring; returns (edges, per-atom UFF types), vertices renumbered at random"""
    edges = [(i, (i + 1) % 6) for i in range(6)]
    uff = ["C_R"] * 6
    if rng.random() < 0.3:
        uff[rng.randrange(6)] = "N_R"
    n = 6

    def add(to, ty):
        nonlocal n
        edges.append((to, n))
        uff.append(ty)
        n += 1
        return n - 1
    subs = [rng.choice(["H", "H", "H", "methyl", "hydroxyl", "vinyl", "none"]) for _ in range(6)]
    if "methyl" not in subs and "vinyl" not in subs:
        subs[rng.randrange(6)] = rng.choice(["methyl", "vinyl"])
    for i, sub in enumerate(subs):
        if sub == "H":
            add(i, "H_")
        elif sub == "methyl":
            c = add(i, "C_3")
            for _ in range(3):
                add(c, "H_")
        elif sub == "hydroxyl":
            add(add(i, "O_3"), "H_")
        elif sub == "vinyl":
            c1 = add(i, "C_2")
            add(c1, "H_")
            c2 = add(c1, "C_2")
            add(c2, "H_")
            add(c2, "H_")
    p = list(range(n))
    rng.shuffle(p)
    edges = sorted(set(norm((p[a], p[b])) for a, b in edges))
    types = [None] * n
    for a in range(n):
        types[p[a]] = uff[a]
    return edges, types


TET_METALS = ["Zn3+2", "Zn3f2", "Cu3f2", "Ti3+4", "Co3+2", "Fe3+2", "Zr3+4", "Cu2f2", "Zn2f2", "Ag2f2", "Cd3+2", "Mn3f2"]


def _relabel(rng, edges, uff):
    n = len(uff)
    p = list(range(n))
    rng.shuffle(p)
    edges = sorted(set(norm((p[a], p[b])) for a, b in edges))
    types = [None] * n
    for a in range(n):
        types[p[a]] = uff[a]
    return edges, types


def g_zif(rng):
    """ZIF-like node: a tetrahedral metal whose UFF label has hybridisation character '3' or '2' (Zn3+2, Zn3f2, Cu3f2,
    Ti3+4, ...) bonded to 2-4 ring nitrogens N_R, each carrying two C_R with a hydrogen; optionally two metals bridged by
    an imidazolate N_R-C_R-N_R.  The metal sits in the MIDDLE of chains C_R-N_R-M-N_R."""
    edges, uff = [], []

    def add(ty, to=None):
        uff.append(ty)
        if to is not None:
            edges.append((to, len(uff) - 1))
        return len(uff) - 1
    m = add(rng.choice(TET_METALS))
    for _ in range(rng.randint(2, 4)):
        nn = add("N_R", m)
        for _ in range(2):
            c = add(rng.choice(["C_R", "C_R", "C_2"]), nn)
            add("H_", c)
    if rng.random() < 0.5:
        n1 = add("N_R", m)
        c = add("C_R", n1)
        add("H_", c)
        n2 = add("N_R", c)
        m2 = add(rng.choice(TET_METALS), n2)
        add(rng.choice(["O_3", "N_R", "O_2"]), m2)
    return _relabel(rng, edges, uff)


def g_paddlewheel(rng):
    """paddlewheel-like node: two metals (labels with a '3'/'2' character or the usual Cu4+2) joined to each other and
    bridged by 2-4 carboxylates O_2-C_R(-C_R)-O_2 (five-membered rings M-O-C-O-M, no three-membered ring)"""
    edges, uff = [], []

    def add(ty, to=None):
        uff.append(ty)
        if to is not None:
            edges.append((to, len(uff) - 1))
        return len(uff) - 1
    ty = rng.choice(TET_METALS + ["Cu4+2"])
    m1 = add(ty)
    m2 = add(ty if rng.random() < 0.7 else rng.choice(TET_METALS), m1)
    for _ in range(rng.randint(2, 4)):
        o1 = add("O_2", m1)
        c = add("C_R", o1)
        o2 = add("O_2", c)
        edges.append((o2, m2))
        if rng.random() < 0.6:
            add(rng.choice(["C_R", "C_3", "H_"]), c)
    if rng.random() < 0.5:
        add(rng.choice(["O_3", "N_R"]), m1)
    return _relabel(rng, edges, uff)


def listing(rng, edges, dup=None):
    """the edge set as a bond list: random order and direction, optionally with duplicate listings"""
    l = [e if rng.random() < 0.5 else (e[1], e[0]) for e in edges]
    rng.shuffle(l)
    if dup if dup is not None else rng.random() < 0.4:
        for _ in range(rng.randint(1, 3)):
            e = rng.choice(edges)
            l.insert(rng.randint(0, len(l)), e if rng.random() < 0.5 else (e[1], e[0]))
    return [list(e) for e in l]


def is_nontrivial(edges):
    n = len(set(v for e in edges for v in e))
    deg = {}
    for a, b in edges:
        deg[a] = deg.get(a, 0) + 1
        deg[b] = deg.get(b, 0) + 1
    # components
    parent = {}

    def find(x):
        while parent.setdefault(x, x) != x:
            parent[x] = parent[parent[x]]
            x = parent[x]
        return x
    for a, b in edges:
        parent[find(a)] = find(b)
    comps = len(set(find(v) for v in deg))
    return max(deg.values()) >= 3 or len(edges) > n - comps


# ------------------------------------------------------------------ real code runners

def _res(fn):
    """run on the real code; map the outcome onto the protocol's enum"""
    try:
        with core.quiet():
            return {"ok": fn()}
    except IndexError:
        return {"err": "error:index"}
    except Exception as e:  # noqa
        if str(e).startswith("we don't know how to handle this dihedral"):
            return {"err": "reject:unsupported"}
        return {"err": "error:" + type(e).__name__}


def rows(arr):
    return [[int(v) for v in r] for r in arr]


SPELL = {}   # how often each public spelling of an input was used (reported in the input distribution)


def _pick(obj, salt, options):
    """a spelling chosen by a hash of the input itself: deterministic per input, so a replay uses the same one"""
    k = options[int(core.sha([salt, obj]), 16) % len(options)]
    SPELL[salt + ":" + k] = SPELL.get(salt + ":" + k, 0) + 1
    return k


def spell_bonds(bonds):
    """the same bond list as the public spellings the functions accept: list of tuples, list of lists, (n,2) ndarray,
    tuples of numpy integers"""
    import numpy as np
    how = _pick(bonds, "bonds-as", ["tuples", "lists", "ndarray", "np.int64-tuples"])
    if how == "lists":
        return [list(b) for b in bonds]
    if how == "ndarray" and len(bonds) > 0:
        return np.array([list(b) for b in bonds], dtype=int)
    if how == "np.int64-tuples":
        return [(np.int64(b[0]), np.int64(b[1])) for b in bonds]
    return [tuple(b) for b in bonds]


def real_enum(kind, bonds):
    f = _uff().calc_angles if kind == "angles" else _uff().calc_dihedrals
    with core.quiet():
        return {"terms": rows(f(spell_bonds(bonds)))}


def real_adjacency(bonds):
    import networkx as nx
    g = nx.Graph()
    g.add_edges_from([tuple(b) for b in bonds])
    return {"nodes": [int(n) for n in g.nodes], "adj": [[int(m) for m in g.adj[n]] for n in g.nodes],
            "edges": [[int(a), int(b)] for a, b in g.edges]}


def real_typekey(t):
    from mofun.helpers import typekey
    return {"key": list(typekey(list(t)))}


def real_assign(kind, terms, uff, exclude):
    import numpy as np
    from mofun import Atoms
    ru = _uff()
    n = len(uff)

    key = [kind, terms, uff, exclude]
    terms_as = _pick(key, "terms-as", ["constructor-ndarray", "python-list-of-tuples", "python-list-of-lists", "set-ndarray"])
    uff_as = _pick(key, "uff-as", ["list", "tuple", "ndarray"])
    excl_as = "none" if exclude is None else _pick(key, "exclude-as", ["set", "frozenset", "set-of-np.int64"])

    def f():
        if terms_as == "constructor-ndarray":
            kw = {PLURAL[kind]: [tuple(t) for t in terms], kind + "_types": [0] * len(terms)}
            a = Atoms(elements=["C"] * n, positions=np.zeros((n, 3)), **kw)
        else:
            a = Atoms(elements=["C"] * n, positions=np.zeros((n, 3)))
            if terms_as == "python-list-of-tuples":
                setattr(a, PLURAL[kind], [tuple(t) for t in terms])
            elif terms_as == "python-list-of-lists":
                setattr(a, PLURAL[kind], [list(t) for t in terms])
            else:
                setattr(a, PLURAL[kind], np.array([list(t) for t in terms], dtype=int) if terms else np.array([]))
        u = list(uff) if uff_as == "list" else tuple(uff) if uff_as == "tuple" else np.array(list(uff))
        if exclude is None:
            ex = None
        elif excl_as == "frozenset":
            ex = frozenset(exclude)
        elif excl_as == "set-of-np.int64":
            ex = set(np.int64(x) for x in exclude)
        else:
            ex = set(exclude)
        fn = getattr(ru, "assign_%s_types" % kind)
        fn(a, u, exclude=ex)
        return {"terms": rows(getattr(a, PLURAL[kind])), "types": [int(t) for t in getattr(a, kind + "_types")],
                "coeffs": [str(s) for s in getattr(a, kind + "_type_coeffs")]}
    return _res(f)


def real_retype(types):
    import numpy as np
    from mofun import Atoms
    ru = _uff()
    n = len(types)

    def f():
        a = Atoms(elements=["C"] * n, positions=np.zeros((n, 3)))
        ru.retype_atoms_from_uff_types(a, list(types))
        ru.assign_pair_coeffs(a)
        return {"label": [str(s) for s in a.atom_type_labels], "elem": [str(s) for s in a.atom_type_elements],
                "mass": [core.q(m) for m in a.atom_type_masses], "atom_types": [int(t) for t in a.atom_types],
                "pair": [str(s) for s in a.pair_coeffs]}
    r = _res(f)
    if r.get("err") == "error:ValueError":
        r = {"err": "reject:element"}
    return r


# ------------------------------------------------------------------ coefficient texts of the real parameter functions

_TEXT = {}


def _fresh_params(kind, seq, m=None):
    """parameter tuple of one UFF sequence from the real functions with EVERY argument given explicitly and freshly
    built for this call (bond orders from the real guess_bond_order, new list objects): nothing is taken from default
    arguments or from any earlier call, so the value cannot depend on call history"""
    ru = _uff()
    if kind == "bond":
        return ru.bond_params(seq[0], seq[1], bond_order=ru.guess_bond_order(seq[0], seq[1], None), bond_order_rules=None)
    if kind == "angle":
        bo = [ru.guess_bond_order(seq[0], seq[1], None), ru.guess_bond_order(seq[1], seq[2], None)]
        given = list(bo)
        p = ru.angle_params(seq[0], seq[1], seq[2], bond_orders=bo, bond_order_rules=None)
        if bo != given:
            raise AssertionError("angle_params changed the bond_orders list it was given")
        return p
    if kind == "pair":
        return ru.pair_coeffs(seq[0])
    return ru.dihedral_params(seq[0], seq[1], seq[2], seq[3], num_dihedrals_about_bond=m,
                              bond_order=ru.guess_bond_order(seq[1], seq[2], None), bond_order_rules=None)


def _format(kind, p, seq, m=None):
    """the way assign_* / assign_pair_coeffs write a parameter tuple"""
    if kind == "bond":
        return "%10.6f %10.6f # %s %s" % (*p, *seq)
    if kind == "angle":
        return _uff().angle2lammpsdat((*p, "%s %s %s" % tuple(seq)))
    if kind == "pair":
        return "%10.6f %10.6f # %s" % (*p, seq[0])
    return None if p is None else "%s %10.6f %d %d # %s %s %s %s M=%d" % (*p, *seq, m)


def fresh_text(kind, seq, m=None):
    """uncached: see key_text"""
    with core.quiet():
        try:
            return _format(kind, _fresh_params(kind, seq, m), seq, m)
        except AssertionError:
            raise
        except Exception as e:  # noqa
            if kind == "dihedral" and str(e).startswith("we don't know how to handle this dihedral"):
                return False
            raise


def default_text(kind, seq, m=None):
    """the same text through the functions' own DEFAULT arguments (the way assign_* calls them)"""
    ru = _uff()
    with core.quiet():
        try:
            if kind == "bond":
                p = ru.bond_params(seq[0], seq[1])
            elif kind == "angle":
                p = ru.angle_params(seq[0], seq[1], seq[2])
            elif kind == "pair":
                p = ru.pair_coeffs(seq[0])
            else:
                p = ru.dihedral_params(seq[0], seq[1], seq[2], seq[3], m)
            return _format(kind, p, seq, m)
        except Exception as e:  # noqa
            if kind == "dihedral" and str(e).startswith("we don't know how to handle this dihedral"):
                return False
            raise


def key_text(kind, seq, m=None):
    """coefficient text for a UFF sequence from the real bond_params / angle_params / dihedral_params evaluated in a
    FRESH state (explicit arguments, see _fresh_params), formatted the way the assign functions write it;
    None = no torsion defined; False = the combination is not supported (raises)"""
    k = (kind, tuple(seq), m)
    if k in _TEXT:
        return _TEXT[k]
    v = fresh_text(kind, list(seq), m)
    _TEXT[k] = v
    return v


def independent_ok(kind, seq, m, text):
    """the numbers of a coefficient text vs. the INDEPENDENT evaluation of the UFF formulas (oracle of the C18 harness:
    own table reader, own formulas, own bond-order guess).  True / False, or None when that oracle cannot evaluate the
    combination (then only the real-function text is demanded)."""
    from . import c18
    coef = text.split(" # ")[0]
    verdicts = []
    for s in (list(seq), list(seq)[::-1]):
        try:
            if kind == "bond":
                k, r = c18.o_bond(s[0], s[1], c18.o_bond_order(s[0], s[1]))
                verdicts.append(c18._coef_close("bond " + coef, {"style": "bond", "v": [k, r]}))
            elif kind == "angle":
                st, v = c18.o_angle(s[0], s[1], s[2], c18.o_bond_order(s[0], s[1]), c18.o_bond_order(s[1], s[2]))
                verdicts.append(c18._coef_close(coef, {"style": st, "v": v}))
            else:
                _, want = c18.o_torsion(s[0], s[1], s[2], s[3], m, c18.o_bond_order(s[1], s[2]))
                if "v" not in want:
                    return None
                verdicts.append(c18._coef_close(coef, want))
        except Exception:  # noqa
            return None
    return any(verdicts)


def oracle_param_sequence(kind, keys):
    """call-history independence of the parameter functions as assign_* uses them (default arguments): evaluating the
    keys one after the other, forwards and then backwards, must give for every key the text of its fresh evaluation"""
    want = [fresh_text(kind, list(s), m) for s, m in keys]
    order = list(range(len(keys))) + list(range(len(keys) - 1, -1, -1))
    for i in order:
        s, m = keys[i]
        got = default_text(kind, list(s), m)
        if got != want[i]:
            return ("%s parameters of %s%s depend on the calls made before: %r after other sequences, %r evaluated on its own"
                    % (kind, " ".join(s), "" if m is None else " M=%d" % m, got, want[i]))
    again = [fresh_text(kind, list(s), m) for s, m in keys]
    if again != want:
        return "%s parameters with explicit arguments changed between two evaluations (state carried between calls)" % kind
    return None


def central(t):
    return frozenset((t[1], t[2]))


def multiplicity(terms):
    """number of dihedrals of the (input) list about each central bond, by unordered atom pair"""
    c = {}
    for t in terms:
        c[central(t)] = c.get(central(t), 0) + 1
    return c


def param_table(kind, terms, uff):
    """key -> text for both orientations of every input term (dihedrals: with the multiplicity of its central bond)"""
    mult = multiplicity(terms) if kind == "dihedral" else None
    out = {}
    for t in terms:
        seq = [uff[a] for a in t]
        for s in (seq, seq[::-1]):
            if kind == "dihedral":
                m = mult[central(t)]
                out["|".join(s + [str(m)])] = key_text(kind, s, m)
            else:
                out["|".join(s)] = key_text(kind, s)
    return out


# ------------------------------------------------------------------ the property, stated on inputs and real outputs

def canon(t):
    t = tuple(t)
    return min(t, t[::-1])


def expected_angles(edges):
    es = set(frozenset(e) for e in edges)
    vs = sorted(set(v for e in edges for v in e))
    out = set()
    for a in vs:
        for v in vs:
            for b in vs:
                if a < b and frozenset((a, v)) in es and frozenset((v, b)) in es:
                    out.add((a, v, b))
    return out


def expected_dihedrals(edges):
    es = set(frozenset(e) for e in edges)
    vs = sorted(set(v for e in edges for v in e))
    nb = {v: [w for w in vs if frozenset((v, w)) in es and w != v] for v in vs}
    out = set()
    for j in vs:
        for k in nb[j]:
            for i in vs:
                if i == k or frozenset((i, j)) not in es or i == j:
                    continue
                for l in vs:
                    if l == j or l == i or l == k or frozenset((k, l)) not in es:
                        continue
                    out.add(canon((i, j, k, l)))
    return out


def oracle_enum(kind, bonds, got):
    """completeness + uniqueness up to reversal, from the edge SET"""
    edges = set(norm(b) for b in bonds)
    want = expected_angles(edges) if kind == "angles" else expected_dihedrals(edges)
    terms = [canon(t) for t in got["terms"]]
    ar = 3 if kind == "angles" else 4
    if any(len(t) != ar for t in terms):
        return "a %s term does not have %d atoms" % (kind, ar)
    if len(set(terms)) != len(terms):
        d = [t for t in set(terms) if terms.count(t) > 1][0]
        return "%s %s is enumerated more than once (up to reversal)" % (kind, list(d))
    extra = set(terms) - want
    if extra:
        return "%s %s is enumerated but is not a chain of distinct bonds of the graph" % (kind, list(sorted(extra)[0]))
    missing = want - set(terms)
    if missing:
        return "%s %s of the graph is not enumerated" % (kind, list(sorted(missing)[0]))
    return None


def oracle_enum_invariance(kind, got1, got2):
    a = sorted(canon(t) for t in got1["terms"])
    b = sorted(canon(t) for t in got2["terms"])
    if a != b:
        return "%s enumeration depends on the order/direction in which the bonds are listed" % kind
    return None


_MAIN = None


def main_group():
    """MAIN_GROUP_ELEMENTS read from the SOURCE TEXT of the repo under test (own reader, not an import of the code)"""
    global _MAIN
    if _MAIN is None:
        from .. import gen_tables
        _MAIN = set(gen_tables.read_tables()["maingroup"])
    return _MAIN


def torsion_rule(a1, a2, a3, a4):
    """whether UFF defines a torsion about the central bond a2-a3, decided from the documented rule alone, with the
    cases in their documented ORDER (Rappe et al. 1992 sec. II.E as the code's comments restate it):
      1. both centres sp3 (third character '3')                        -> defined (eq. 16; group-6 exception)
      2. both centres sp2 / resonant ('2', 'R')                        -> defined (eq. 17)
      3. one centre sp2/resonant, the other sp3                        -> defined (mixed cases)
      4. otherwise, a centre that is sp-hybridised ('1')               -> NO torsion
      5. otherwise, a centre that is not a main-group element          -> NO torsion
      6. otherwise                                                     -> not handled (the code raises)
    The hybridisation is the third character of the type label whatever the element (Zn3+2 is a '3' centre).
    Returns 'defined' | 'undefined' | 'unsupported'."""
    h2 = a2[2] if len(a2) > 2 else None
    h3 = a3[2] if len(a3) > 2 else None
    e2 = "".join(ch for ch in a2[:2] if ch != "_")
    e3 = "".join(ch for ch in a3[:2] if ch != "_")
    if h2 in ("3", "2", "R") and h3 in ("3", "2", "R"):
        return "defined"
    if h2 == "1" or h3 == "1":
        return "undefined"
    if e2 not in main_group() or e3 not in main_group():
        return "undefined"
    return "unsupported"


def real_torsion_defined(seq, m=1):
    """the same three-way outcome from the real dihedral_params (fresh explicit arguments)"""
    t = fresh_text("dihedral", list(seq), m)
    return "unsupported" if t is False else "undefined" if t is None else "defined"


def oracle_torsion_defined(seq):
    want = torsion_rule(*seq)
    got = real_torsion_defined(seq)
    got_rev = real_torsion_defined(list(seq)[::-1])
    if got != want or got_rev != want:
        return ("torsion %s: the documented rule says %s, dihedral_params says %s (reversed sequence: %s)"
                % (" ".join(seq), want, got, got_rev))
    return None


def expected_kept(kind, terms, uff, exclude):
    """(kept terms in input order, their (sequence, multiplicity), unsupported?) by the property's own words"""
    ar = ARITY[kind]
    mult = multiplicity(terms) if kind == "dihedral" else None
    ex = None if exclude is None else set(exclude)
    kept, unsupported = [], False
    for t in terms:
        if ex is not None and len(ex) >= ar and set(t) <= ex:
            continue
        seq = [uff[a] for a in t]
        if kind == "dihedral":
            m = mult[central(t)]
            rule = torsion_rule(*seq)      # INDEPENDENT of the code's case analysis (documented rule, documented order)
            if rule == "unsupported":
                unsupported = True
                continue
            if rule == "undefined":
                continue
            kept.append((tuple(t), tuple(seq), m))
        else:
            kept.append((tuple(t), tuple(seq), None))
    return kept, unsupported


def oracle_assign(kind, terms, uff, exclude, r):
    kept, unsupported = expected_kept(kind, terms, uff, exclude)
    if "ok" not in r:
        if unsupported and r.get("err") == "reject:unsupported":
            return None  # the property is silent about combinations the torsion rules do not handle
        return "assign_%s_types raised %s" % (kind, r.get("err"))
    if unsupported:
        return None
    r = r["ok"]
    got = [tuple(t) for t in r["terms"]]
    if sorted(got) != sorted(k[0] for k in kept):
        extra = [t for t in got if t not in set(k[0] for k in kept)]
        missing = [k[0] for k in kept if k[0] not in set(got)]
        if extra:
            return "%s %s should have been removed (excluded / no torsion defined) but is kept" % (kind, list(extra[0]))
        if missing:
            return "%s %s should have been kept but was removed" % (kind, list(missing[0]))
        return "%s terms after assignment are not the expected multiset" % kind
    if len(r["types"]) != len(got):
        return "number of %s types differs from the number of %ss" % (kind, kind)
    m = len(r["coeffs"])
    if any(t < 0 or t >= m for t in r["types"]):
        return "a %s type id has no entry in the coefficient table" % kind
    if set(r["types"]) != set(range(m)):
        return "%s coefficient table has an entry no term uses (ids are not 0..m-1 all used)" % kind
    info = {}
    for k in kept:
        info[k[0]] = k
    keyof = []
    for t in got:
        _, seq, mu = info[t]
        keyof.append((canon(seq), mu))
    for i in range(len(got)):
        for j in range(i + 1, len(got)):
            if (r["types"][i] == r["types"][j]) != (keyof[i] == keyof[j]):
                return ("%ss %s and %s: same type = %s but same UFF sequence up to reversal%s = %s"
                        % (kind, list(got[i]), list(got[j]), r["types"][i] == r["types"][j],
                           " and multiplicity" if kind == "dihedral" else "", keyof[i] == keyof[j]))
    for i, t in enumerate(got):
        _, seq, mu = info[t]
        ok = [key_text(kind, list(seq), mu), key_text(kind, list(seq)[::-1], mu)]
        if kind == "dihedral" and not all(isinstance(x, str) for x in ok):
            return ("dihedral %s (%s): UFF defines a torsion for this sequence but dihedral_params returns %r"
                    % (list(t), " ".join(seq), ok))
        if r["coeffs"][r["types"][i]] not in ok:
            return ("%s %s (%s%s): coefficient text %r is not the text of the parameters of its sequence %r"
                    % (kind, list(t), " ".join(seq), "" if mu is None else " M=%d" % mu, r["coeffs"][r["types"][i]], ok[0]))
        if independent_ok(kind, seq, mu, r["coeffs"][r["types"][i]]) is False:
            return ("%s %s (%s%s): coefficient text %r is not what the UFF formulas give for its sequence (independent "
                    "evaluation)" % (kind, list(t), " ".join(seq), "" if mu is None else " M=%d" % mu,
                                     r["coeffs"][r["types"][i]]))
    return None


def real_assign_reordered(kind, terms, uff, exclude, perm):
    """assign_*_types TWICE on the SAME Atoms object within this process: first with the term list as given, then with
    the list re-ordered by `perm`; returns the two results"""
    import numpy as np
    from mofun import Atoms
    ru = _uff()
    n = len(uff)
    out = []
    with core.quiet():
        a = Atoms(elements=["C"] * n, positions=np.zeros((n, 3)))
    for order in (list(range(len(terms))), list(perm)):
        def f():
            setattr(a, PLURAL[kind], np.array([tuple(terms[i]) for i in order]) if order else [])
            getattr(ru, "assign_%s_types" % kind)(a, list(uff), exclude=None if exclude is None else set(exclude))
            return {"terms": rows(getattr(a, PLURAL[kind])), "types": [int(t) for t in getattr(a, kind + "_types")],
                    "coeffs": [str(x) for x in getattr(a, kind + "_type_coeffs")]}
        out.append(_res(f))
    return out


def oracle_reorder(kind, terms, uff, exclude, r1, r2):
    if ("ok" in r1) != ("ok" in r2):
        return "assign_%s_types outcome (%s vs %s) changes when the term list is re-ordered" % (
            kind, r1.get("err", "ok"), r2.get("err", "ok"))
    if "ok" not in r1:
        return None
    if term_texts(r1) != term_texts(r2):
        a, b = dict(term_texts(r1)), dict(term_texts(r2))
        t = [t for t in a if b.get(t) != a[t]]
        return ("per-term %s coefficients change when the term list is re-ordered (same atoms, same process)%s"
                % (kind, ": %s has %r, then %r" % (list(t[0]), a[t[0]], b.get(t[0])) if t else ""))
    # each of the two runs must by itself satisfy the typing property
    return oracle_assign(kind, terms, uff, exclude, r1) or oracle_assign(kind, terms, uff, exclude, r2)


def term_texts(r):
    """term -> coefficient text (multiset-safe: list of pairs, sorted)"""
    r = r["ok"]
    m = len(r["coeffs"])
    return sorted((tuple(t), r["coeffs"][ty] if 0 <= ty < m else "<type id %d has no entry in the coefficient table>" % ty)
                  for t, ty in zip(r["terms"], r["types"]))


def renamed(terms, uff, exclude, sigma, perm):
    n = len(uff)
    terms2 = [[sigma[a] for a in terms[i]] for i in perm]
    uff2 = [None] * n
    for a in range(n):
        uff2[sigma[a]] = uff[a]
    ex2 = None if exclude is None else [sigma[a] for a in exclude]
    return terms2, uff2, ex2


def oracle_rename(kind, terms, uff, exclude, sigma, perm, r1, r2):
    if ("ok" in r1) != ("ok" in r2):
        return "assign_%s_types outcome (%s vs %s) changes under atom renaming / term permutation" % (
            kind, r1.get("err", "ok"), r2.get("err", "ok"))
    if "ok" not in r1:
        return None
    a = sorted((tuple(sigma[x] for x in t), txt) for t, txt in term_texts(r1))
    b = term_texts(r2)
    if a != b:
        return "per-term %s coefficients change under atom renaming / term-list permutation" % kind
    return None


def oracle_retype(types, r):
    from mofun.atomic_masses import ATOMIC_MASSES
    if "ok" not in r:
        return "retype_atoms_from_uff_types raised %s" % r.get("err")
    r = r["ok"]
    k = len(r["label"])
    if len(r["elem"]) != k or len(r["mass"]) != k or len(r["pair"]) != k:
        return "atom type tables have different lengths"
    if len(set(r["label"])) != k:
        return "atom type labels are not unique"
    if set(r["label"]) != set(types):
        return "atom type labels are not the set of per-atom UFF types"
    if len(r["atom_types"]) != len(types):
        return "atom_types has the wrong length"
    for i, s in enumerate(types):
        t = r["atom_types"][i]
        if t < 0 or t >= k or r["label"][t] != s:
            return "atom %d has UFF type %s but its type id %d is labelled %s" % (i, s, t, r["label"][t] if 0 <= t < k else None)
    for j in range(k):
        el = r["label"][j][0:2].replace("_", "")
        if r["elem"][j] != el:
            return "type %s has element %s" % (r["label"][j], r["elem"][j])
        if not core.close(r["mass"][j], core.q(ATOMIC_MASSES[el])):
            return "type %s has mass %s" % (r["label"][j], r["mass"][j])
        if not r["pair"][j].endswith("# " + r["label"][j]):
            return "pair coefficient %d is not the one of label %s" % (j, r["label"][j])
    return None


def oracle_typekey(t, r):
    k = list(r["key"])
    if k != list(t) and k != list(t)[::-1]:
        return "typekey is neither the tuple nor its reverse"
    k2 = list(real_typekey(list(t)[::-1])["key"])
    if k != k2:
        return "typekey differs between a tuple and its reverse"
    return None


# ------------------------------------------------------------------ generators of typing inputs

def rand_uff(rng, edges, n, mode=None):
    mode = mode or rng.choice(["plausible", "plausible", "plausible", "friendly", "friendly", "table",
                               "mixed-bo", "mixed-bo", "mixed-bo"])
    deg = [0] * n
    for a, b in edges:
        deg[a] += 1
        deg[b] += 1
    if mode == "plausible":
        few = rng.random() < 0.6  # few distinct types -> many terms share a type
        pools = {1: TERMINAL, 2: CHAIN2, 3: BRANCH3, 4: BRANCH4}
        if few:
            pools = {k: rng.sample(v, min(len(v), 2)) for k, v in pools.items()}
            metal = rng.sample(METAL, 1)
        else:
            metal = METAL
        out = [rng.choice(pools[d]) if d in pools else rng.choice(metal) for d in deg]
    elif mode == "mixed-bo":
        # guessed bond orders 1.5 (C_R-C_R, N_R-N_R), 2 (C_2-C_2, N_2-N_2, O_2-O_2) and 1 (anything with H_/C_3/N_3/O_3,
        # unequal pairs) side by side in one structure
        inner = rng.choice([["C_R", "C_R", "C_R", "C_3"], ["C_R", "N_R", "C_3", "O_3"], ["C_2", "C_2", "C_3", "C_R"],
                            ["C_R", "C_R", "C_2", "C_2", "N_3"], ["N_R", "N_R", "C_R", "O_3"], ["C_2", "N_2", "N_2", "C_3"]])
        outer = rng.choice([["H_", "H_", "C_3"], ["H_", "O_2", "O_2"], ["H_", "C_R", "F_"], ["O_2", "C_2", "H_"]])
        out = [rng.choice(outer) if d == 1 else rng.choice(inner) for d in deg]
    elif mode == "friendly":
        pool = rng.sample(FRIENDLY, rng.randint(2, 6))
        out = [rng.choice(pool) for _ in range(n)]
    else:
        pool = rng.sample(table_keys(), rng.randint(2, 8))
        if rng.random() < 0.15:
            pool += rng.sample(["Du", "Lw6+3"], rng.randint(1, 2))   # the two table keys without a tabulated element
        out = [rng.choice(pool) for _ in range(n)]
    return out, mode


def rand_exclude(rng, terms, n, arity):
    how = rng.choice(["none", "none", "small", "terms", "terms", "terms", "subset", "all"])
    if how == "none":
        return None, "none"
    if not terms:   # nothing to exclude from: the set must simply be accepted
        return sorted(rng.sample(range(n), rng.randint(0, n))), "on-empty-term-list"
    if how == "small":
        return sorted(rng.sample(range(n), min(n, rng.randint(0, arity - 1)))), how
    if how == "terms":
        s = set()
        for t in rng.sample(terms, min(len(terms), rng.randint(1, 2))):
            s |= set(t)
        for _ in range(rng.randint(0, 2)):
            s.add(rng.randrange(n))
        return sorted(s), how
    if how == "subset":
        return sorted(rng.sample(range(n), rng.randint(min(n, arity), n))), how
    return list(range(n)), how


# ------------------------------------------------------------------ one graph -> list of (input, real result, oracle verdict)

class Batch:
    def __init__(self, ctx):
        self.ctx = ctx
        self.ops = []      # ops for the Lean driver
        self.impls = []    # real results of those ops

    def tie(self, inp, impl):
        self.ops.append(inp)
        self.impls.append(impl)


def check_enum(ctx, bt, bonds, nontrivial, with_adj=True):
    out = {}
    for kind in ("angles", "dihedrals"):
        inp = {"op": kind, "bonds": bonds}
        r = real_enum(kind, bonds)
        ctx.case(inp, nontrivial=nontrivial)
        ctx.count(kind)
        bad = oracle_enum(kind, bonds, r)
        if bad:
            ctx.fail(bad, inp, observed=r, tags=["enum"])
        bt.tie(inp, r)
        out[kind] = r
    if with_adj:
        inp = {"op": "adjacency", "bonds": bonds}
        bt.tie(inp, real_adjacency(bonds))
    return out


def check_assign(ctx, bt, kind, terms, uff, exclude, nontrivial, rng=None):
    inp = {"op": "assign", "kind": kind, "terms": terms, "uff": uff, "exclude": exclude,
           "params": param_table(kind, terms, uff)}
    r = real_assign(kind, terms, uff, exclude)
    ctx.case(inp, nontrivial=nontrivial)
    ctx.count("assign:" + kind)
    if "err" in r:
        ctx.count("assign-err:" + r["err"])
    elif kind == "dihedral" and len(r["ok"]["terms"]) < len(terms):
        ctx.count("dihedrals-removed")
    bad = oracle_assign(kind, terms, uff, exclude, r)
    if bad:
        ctx.fail(bad, inp, observed=r, tags=["assign", kind])
    bt.tie(inp, r)
    if rng is not None:
        n = len(uff)
        sigma = list(range(n))
        rng.shuffle(sigma)
        perm = list(range(len(terms)))
        rng.shuffle(perm)
        inp2 = {"op": "assign_rename", "kind": kind, "terms": terms, "uff": uff, "exclude": exclude,
                "sigma": sigma, "perm": perm}
        t2, u2, e2 = renamed(terms, uff, exclude, sigma, perm)
        r2 = real_assign(kind, t2, u2, e2)
        ctx.case(inp2, nontrivial=nontrivial)
        ctx.count("rename:" + kind)
        bad = oracle_rename(kind, terms, uff, exclude, sigma, perm, r, r2)
        if bad:
            ctx.fail(bad, inp2, observed={"first": r, "second": r2}, tags=["rename", kind])
        bad = oracle_assign(kind, t2, u2, e2, r2)   # the second run is a typing case of its own
        if bad:
            ctx.fail(bad, {"op": "assign", "kind": kind, "terms": t2, "uff": u2, "exclude": e2,
                           "params": param_table(kind, t2, u2)}, observed=r2, tags=["assign", kind])
        # the second run is also a typing case of its own for the tie
        bt.tie({"op": "assign", "kind": kind, "terms": t2, "uff": u2, "exclude": e2,
                "params": param_table(kind, t2, u2)}, r2)
        # the SAME atoms typed twice within this process, the term list in two different orders
        perm2 = list(range(len(terms)))[::-1] if rng.random() < 0.5 else rng.sample(range(len(terms)), len(terms))
        inp3 = {"op": "assign_reorder", "kind": kind, "terms": terms, "uff": uff, "exclude": exclude, "perm": perm2}
        ra, rb = real_assign_reordered(kind, terms, uff, exclude, perm2)
        ctx.case(inp3, nontrivial=nontrivial)
        ctx.count("reorder:" + kind)
        bad = oracle_reorder(kind, terms, uff, exclude, ra, rb)
        if bad:
            ctx.fail(bad, inp3, observed={"first": ra, "second": rb}, tags=["reorder", kind])
        # the parameter functions, called the way assign_* calls them (default arguments), one key after the other
        keys = structure_keys(kind, terms, uff)
        if len(keys) >= 2:
            inp4 = {"op": "param_sequence", "kind": kind, "keys": [[list(sq), m] for sq, m in keys]}
            ctx.case(inp4, nontrivial=len(set(guessed_orders(kind, keys))) >= 2)
            ctx.count("param-sequence:" + kind)
            if len(set(guessed_orders(kind, keys))) >= 2:
                ctx.count("param-sequence-mixed-bond-orders:" + kind)
            bad = oracle_param_sequence(kind, keys)
            if bad:
                ctx.fail(bad, inp4, tags=["param-sequence", kind])
    return r


def structure_keys(kind, terms, uff):
    """the distinct (sequence, multiplicity) keys of a structure's terms, first-seen order, as listed"""
    mult = multiplicity(terms) if kind == "dihedral" else None
    out = []
    for t in terms:
        k = (tuple(uff[a] for a in t), mult[central(t)] if kind == "dihedral" else None)
        if k not in out:
            out.append(k)
    return out[:12]


def guessed_orders(kind, keys):
    """the bond orders the (independent) guess gives to the bonds of the keys: a structure mixes bond orders when this
    has more than one value"""
    from . import c18
    out = []
    for sq, _ in keys:
        pairs = {"bond": [(0, 1)], "angle": [(0, 1), (1, 2)], "dihedral": [(1, 2)]}[kind]
        out.append(tuple(c18.o_bond_order(sq[i], sq[j]) for i, j in pairs))
    return out


def check_retype(ctx, bt, types, oracle=True):
    inp = {"op": "retype", "types": types, "pair": {s: key_text("pair", [s]) for s in set(types) if s in set(table_keys())}}
    r = real_retype(types)
    ctx.case(inp, nontrivial=len(set(types)) >= 2)
    ctx.count("retype")
    if oracle:
        bad = oracle_retype(types, r)
        if bad:
            ctx.fail(bad, inp, observed=r, tags=["retype"])
    bt.tie(inp, r)


def check_typekey(ctx, bt, t):
    inp = {"op": "typekey", "t": t}
    r = real_typekey(t)
    r = {"key": [x if isinstance(x, str) else int(x) for x in r["key"]]}
    ctx.case(inp, nontrivial=len(t) >= 2 and list(t) != list(t)[::-1])
    ctx.count("typekey")
    bad = oracle_typekey(t, r)
    if bad:
        ctx.fail(bad, inp, observed=r, tags=["typekey"])
    bt.tie(inp, r)


def graph_case(ctx, bt, edges, kind, typing=True, given_uff=None):
    rng = ctx.rng
    nt = is_nontrivial(edges)
    ctx.count("graph:" + kind)
    n = nverts(edges)
    ctx.count("size:%s" % ("<=6" if n <= 6 else "7-12" if n <= 12 else ">12"))
    l1 = listing(rng, edges)
    e1 = check_enum(ctx, bt, l1, nt)
    # a second listing of the same edge set: other order, other directions, other duplicates
    l2 = listing(rng, edges)
    e2 = check_enum(ctx, bt, l2, nt, with_adj=False)
    for k in ("angles", "dihedrals"):
        inp = {"op": "enum_invariance", "kind": k, "bonds": l1, "bonds2": l2}
        ctx.case(inp, nontrivial=nt)
        bad = oracle_enum_invariance(k, e1[k], e2[k])
        if bad:
            ctx.fail(bad, inp, observed={"first": e1[k], "second": e2[k]}, tags=["enum"])
    if not typing:
        return
    if given_uff is not None:
        uff, mode = list(given_uff), "given"
    else:
        uff, mode = rand_uff(rng, edges, n)
    ctx.count("uff:" + mode)
    bond_terms = [list(e) if rng.random() < 0.5 else [e[1], e[0]] for e in edges]
    rng.shuffle(bond_terms)
    term_lists = {"bond": bond_terms, "angle": e1["angles"]["terms"], "dihedral": e1["dihedrals"]["terms"]}
    for k in ("bond", "angle", "dihedral"):
        terms = [list(t) for t in term_lists[k]]
        if rng.random() < 0.3:
            rng.shuffle(terms)
        if rng.random() < 0.4:  # a term listed backwards is the same term
            terms = [t[::-1] if rng.random() < 0.5 else t for t in terms]
            ctx.count("terms-with-reversed-listings")
        ex, how = rand_exclude(rng, terms, n, ARITY[k])
        ctx.count("exclude:" + how)
        check_assign(ctx, bt, k, terms, uff, ex, nt, rng=rng)
    in_domain = set(uff) <= set(massed_keys())
    if not in_domain:
        ctx.count("retype-with-Du-or-Lw6+3(tie only: rejected)")
    check_retype(ctx, bt, uff, oracle=in_domain)


SP_OR_METAL = ["C_1", "C_1", "N_1", "Zr3+4", "Cu4+2", "Zn4+2", "Fe6+3", "Ti6+4", "Zn3+2", "Cu3f2"]
ORDINARY = ["C_3", "C_3", "C_2", "C_R", "N_3", "O_3", "N_R", "C_2"]


def g_torsionless(rng):
    """a heavy-atom chain (4-8 atoms, a few H_/C_3 branches) in which torsion-less centres (sp `X_1`, metals) and
    ordinary sp3/sp2 centres alternate in blocks, e.g. C_3-C_1-C_1-C_3-C_3-C_2-C_2: some dihedral types have no torsion
    defined, others do; returns (edges, per-atom UFF types), vertices renumbered at random"""
    n = rng.randint(5, 8)
    uff = []
    while len(uff) < n:
        pool = SP_OR_METAL if (len(uff) // 2 + rng.randrange(2)) % 2 else ORDINARY
        uff += [rng.choice(pool)] * 1 + [rng.choice(pool)]
    uff = uff[:n]
    if not any(u in SP_OR_METAL for u in uff[1:-1]):
        uff[rng.randint(1, n - 2)] = rng.choice(SP_OR_METAL)
    edges = [(i, i + 1) for i in range(n - 1)]
    for _ in range(rng.randint(0, 3)):
        edges.append((rng.randrange(len(uff)), len(uff)))
        uff.append(rng.choice(["H_", "H_", "C_3", "O_2"]))
    n = len(uff)
    p = list(range(n))
    rng.shuffle(p)
    edges = sorted(set(norm((p[a], p[b])) for a, b in edges))
    types = [None] * n
    for a in range(n):
        types[p[a]] = uff[a]
    return edges, types


def torsionless_cases(ctx, bt, count):
    """dihedral typing where types WITHOUT a defined torsion are listed before, between and after surviving types:
    the enumerated order, dropped-first, kept-first, alternating, and EVERY permutation when there are <= 4 dihedrals"""
    rng = ctx.rng
    for _ in range(count):
        edges, uff = g_torsionless(rng)
        bonds = listing(rng, edges, dup=False)
        terms = real_enum("dihedrals", bonds)["terms"]
        if len(terms) < 2:
            continue
        mult = multiplicity(terms)

        def undefined(t):
            return key_text("dihedral", [uff[a] for a in t], mult[central(t)]) is None
        dropped = [t for t in terms if undefined(t)]
        kept = [t for t in terms if not undefined(t)]
        ctx.count("torsionless:" + ("mixed" if dropped and kept else "all-dropped" if dropped else "none-dropped"))
        orders = [terms, dropped + kept, kept + dropped,
                  [t for pair in itertools.zip_longest(dropped, kept) for t in pair if t is not None]]
        if len(terms) <= 4:
            orders += [list(p) for p in itertools.permutations(terms)]
            ctx.count("torsionless-all-permutations")
        else:
            for _ in range(3):
                o = list(terms)
                rng.shuffle(o)
                orders.append(o)
        seen = set()
        for k, o in enumerate(orders):
            key = tuple(tuple(t) for t in o)
            if key in seen:
                continue
            seen.add(key)
            ex = None
            if k >= 4 and rng.random() < 0.2:
                ex, _ = rand_exclude(rng, o, len(uff), 4)
            check_assign(ctx, bt, "dihedral", [list(t) for t in o], uff, ex, bool(dropped and kept),
                         rng=rng if k < 4 else None)


def general_exact(kind, bonds, got):
    """the statement of the theorems angles_exact / dihedrals_exact for ARBITRARY bond lists (self-bonds included),
    evaluated on the real enumeration: a self-bond (v,v) makes v its own neighbour; a chain through a self-bond is
    listed from both ends.  Returns None or a text.  (Self-bonds are outside the property's domain: a deviation here is
    reported as a broken tie, not as a property violation.)"""
    es = set(frozenset(b) for b in bonds)
    vs = sorted(set(v for b in bonds for v in b))
    bonded = lambda a, b: frozenset((a, b)) in es
    terms = [tuple(t) for t in got["terms"]]
    want = {}
    if kind == "angles":
        for v in vs:
            for a in vs:
                for b in vs:
                    if a != b and bonded(v, a) and bonded(v, b):
                        want[canon((a, v, b))] = 1
    else:
        for j in vs:
            for k in vs:
                if not bonded(j, k):
                    continue
                for i in vs:
                    for l in vs:
                        if bonded(i, j) and bonded(k, l) and i != k and j != l:
                            want[canon((i, j, k, l))] = 2 if j == k else 1
    have = {}
    for t in terms:
        have[canon(t)] = have.get(canon(t), 0) + (2 if t == t[::-1] else 1)
    if len(set(terms)) != len(terms):
        return "%s: a term is listed twice" % kind
    if have != want:
        d = sorted(set(have.items()) ^ set(want.items()))
        return "%s: occurrences up to reversal differ from the general exactness statement: %s" % (kind, d[:3])
    return None


def multigraph_cases(ctx, bt, count):
    """bond lists with self-bonds (an atom bonded to itself), on top of duplicates and both directions: outside the
    property's domain; the model follows networkx there (theorems angles_exact / dihedrals_exact) and is compared
    exactly; nothing is demanded by the property oracle"""
    rng = ctx.rng
    for _ in range(count):
        edges, _k = rand_graph(rng, rng.choice([4, 6, 9]))
        bonds = listing(rng, edges)
        vs = sorted(set(v for e in edges for v in e))
        for _ in range(rng.randint(1, 2)):
            v = rng.choice(vs)
            for _ in range(rng.randint(1, 2)):
                bonds.insert(rng.randint(0, len(bonds)), [v, v])
        for kind in ("angles", "dihedrals"):
            inp = {"op": kind, "bonds": bonds}
            r = real_enum(kind, bonds)
            ctx.case(inp, nontrivial=True)
            ctx.count("self-bond:" + kind)
            bad = general_exact(kind, bonds, r)
            if bad:
                ctx.disagree(kind, inp, r, None, "real enumeration vs theorem statement: " + bad)
            bt.tie(inp, r)
        bt.tie({"op": "adjacency", "bonds": bonds}, real_adjacency(bonds))
        # typing of the degenerate terms (repeated atoms): tie only.  An exclusion set made of the atoms of one such
        # term has FEWER members than the arity, so the `len(exclude) >= arity` guard of the code decides.
        n = nverts([tuple(b) for b in bonds])
        uff, _m = rand_uff(rng, edges, n, mode=rng.choice(["plausible", "mixed-bo", "friendly"]))
        seen, bond_terms = set(), []
        for b in bonds:
            if frozenset(b) not in seen:
                seen.add(frozenset(b))
                bond_terms.append(list(b))
        lists = {"bond": bond_terms, "angle": real_enum("angles", bonds)["terms"],
                 "dihedral": real_enum("dihedrals", bonds)["terms"]}
        for k in ("bond", "angle", "dihedral"):
            terms = lists[k]
            if not terms:
                continue
            degenerate = [t for t in terms if len(set(t)) < len(t)]
            ex = sorted(set(rng.choice(degenerate or terms))) if rng.random() < 0.7 else None
            inp = {"op": "assign", "kind": k, "terms": terms, "uff": uff, "exclude": ex, "params": param_table(k, terms, uff)}
            ctx.case(inp, nontrivial=True)
            ctx.count("self-bond:assign:" + k)
            if ex is not None and len(ex) < ARITY[k]:
                ctx.count("self-bond:exclusion-set-smaller-than-arity")
            bt.tie(inp, real_assign(k, terms, uff, ex))


def retype_cases(ctx, bt, count):
    """type lists in which several types share an element (the secondary, string order of the label table matters) and
    the same set of types in another atom order"""
    rng = ctx.rng
    keys = massed_keys()
    by_el = {}
    for k in keys:
        by_el.setdefault(k[0:2].replace("_", ""), []).append(k)
    rich = [e for e, v in by_el.items() if len(v) >= 3]
    for _ in range(count):
        pool = []
        for e in rng.sample(rich, rng.randint(1, 4)):
            pool += rng.sample(by_el[e], rng.randint(2, min(5, len(by_el[e]))))
        pool += rng.sample(keys, rng.randint(0, 3))
        types = [rng.choice(pool) for _ in range(rng.randint(len(pool), 2 * len(pool)))]
        check_retype(ctx, bt, types)
        shuffled = list(types)
        rng.shuffle(shuffled)
        check_retype(ctx, bt, shuffled)


def torsion_defined_sweep(ctx, oracle_only):
    """'is a torsion defined' for centre pairs: the documented rule vs the real dihedral_params (oracle) and vs the
    torsion case analysis of the Lean model (Model/UffLogic.lean, op `torsion_case` of drivers/Uff.lean).
    quick: every table type as a centre against 14 partner types (both positions); thorough: all 221 x 221 pairs."""
    rng = ctx.rng
    keys = table_keys()
    partners = ["C_3", "C_R", "C_2", "N_R", "O_3", "O_2", "C_1", "N_1", "Zn3+2", "Cu3f2", "Ti3+4", "Cu4+2", "Al6+3", "H_"]
    if ctx.tier == "thorough":
        pairs = [(a, b) for a in keys for b in keys]
    else:
        pairs = [(a, b) for a in keys for b in partners] + [(b, a) for a in keys for b in partners]
    ops, wants = [], []
    for a2, a3 in pairs:
        a1, a4 = (rng.choice(["C_3", "H_", "C_2", "N_R"]), rng.choice(["C_3", "H_", "C_2", "O_3"]))
        seq = [a1, a2, a3, a4]
        inp = {"op": "torsion_defined", "seq": seq}
        ctx.case(inp, nontrivial=torsion_rule(*seq) != "unsupported")
        want = torsion_rule(*seq)
        ctx.count("torsion-rule:" + want)
        if want == "defined" and (a2[:2].replace("_", "") not in main_group() or a3[:2].replace("_", "") not in main_group()):
            ctx.count("torsion-rule:defined-with-a-metal-centre")
        bad = oracle_torsion_defined(seq)
        if bad:
            ctx.fail(bad, inp, tags=["torsion-defined"])
        ops.append({"op": "torsion_case", "a1": a1, "a2": a2, "a3": a3, "a4": a4})
        wants.append(want)
    if oracle_only:
        return
    lean = core.Lean("drivers/Uff.lean")
    models = lean.run(ops)
    ctx.lean.lines += len(ops)
    for op, want, m in zip(ops, wants, models):
        c = m.get("case", "?")
        got = "undefined" if c == "undefined" else "unsupported" if c == "unsupported" else "defined"
        ctx.compare("torsion_case", op, {"defined": want}, {"defined": got})


def node_cases(ctx, bt, count):
    """ZIF-like and paddlewheel-like metal nodes: torsions about M-N / M-O bonds of metals labelled as '3'/'2' centres"""
    rng = ctx.rng
    for i in range(count):
        edges, types = (g_zif if i % 2 == 0 else g_paddlewheel)(rng)
        graph_case(ctx, bt, edges, "zif-node" if i % 2 == 0 else "paddlewheel-node", given_uff=types)


def typekey_cases(ctx, bt, count):
    rng = ctx.rng
    keys = table_keys()
    for _ in range(count):
        if rng.random() < 0.75:
            pool = rng.sample(keys, rng.randint(1, 3)) + rng.sample(["O_3", "O_3_z", "O_3_M", "O_", "C", "C_", "C_R", ""], 2)
            t = [rng.choice(pool) for _ in range(rng.randint(1, 5))]
        else:
            t = [rng.randint(0, 12) for _ in range(rng.randint(1, 4))]
        check_typekey(ctx, bt, t)


def all_small_graphs(nmax):
    """every triangle-free graph on the labelled vertices 0..n-1 (n <= nmax) in which every vertex has degree >= 1"""
    for n in range(2, nmax + 1):
        pairs = list(itertools.combinations(range(n), 2))
        for mask in range(1, 1 << len(pairs)):
            edges = [pairs[i] for i in range(len(pairs)) if mask >> i & 1]
            if len(set(v for e in edges for v in e)) != n:
                continue
            if has_triangle(edges):
                continue
            yield edges


def run(ctx, oracle_only=False):
    ctx.rule = RULE
    rng = ctx.rng
    bt = Batch(ctx)
    nmax = ctx.n(12, 18)
    for _ in range(ctx.n(400, 4000)):
        edges, kind = rand_graph(rng, rng.choice([6, 9, nmax]))
        graph_case(ctx, bt, edges, kind)
    # molecules that mix guessed bond orders (aromatic ring + methyl / hydroxyl / vinyl substituents, toluene-like)
    for _ in range(ctx.n(60, 600)):
        edges, types = g_aromatic(rng)
        graph_case(ctx, bt, edges, "aromatic", given_uff=types)
    node_cases(ctx, bt, ctx.n(40, 400))
    torsion_defined_sweep(ctx, oracle_only)
    # chains mixing torsion-less centres (sp, metals) with ordinary ones; dropped types listed before kept ones
    torsionless_cases(ctx, bt, ctx.n(60, 600))
    # diatomic and empty inputs: enumerations of shape (0,), assignment of empty term lists with an exclusion set
    for edges in ([(0, 1)], [(0, 1), (2, 3)]):
        graph_case(ctx, bt, edges, "diatomic")
    for kind in ("angles", "dihedrals"):
        inp = {"op": kind, "bonds": []}
        r = real_enum(kind, [])
        ctx.case(inp, nontrivial=False)
        bad = oracle_enum(kind, [], r)
        if bad:
            ctx.fail(bad, inp, observed=r, tags=["enum"])
        bt.tie(inp, r)
    multigraph_cases(ctx, bt, ctx.n(60, 600))
    retype_cases(ctx, bt, ctx.n(40, 400))
    typekey_cases(ctx, bt, ctx.n(300, 3000))
    state_check(ctx)
    for k, v in sorted(SPELL.items()):
        ctx.dist["spelling:" + k] = ctx.dist.get("spelling:" + k, 0) + v
    SPELL.clear()
    # types outside retype's domain (element not in the mass table): compared with the model only
    for s in (["Du", "C_3"], ["C_R", "Lw6+3", "H_"]):
        check_retype(ctx, bt, s, oracle=False)
    if ctx.tier == "thorough":
        k = 0
        for edges in all_small_graphs(6):
            k += 1
            graph_case(ctx, bt, edges, "exhaustive<=6", typing=(k % 10 == 0))
        ctx.notes.append("every triangle-free graph on <= 6 labelled vertices with all degrees >= 1 enumerated: %d graphs "
                         "(each in two random listings)" % k)
    if oracle_only:
        return
    models = ctx.lean.run(bt.ops)
    for inp, r, m in zip(bt.ops, bt.impls, models):
        ctx.compare(inp["op"], inp, r, m)
    ctx.notes.append("tie: enumeration order, adjacency/edge order and typing compared EXACTLY (same order) with the model")


def state_check(ctx):
    """every expected text used by the oracle so far was computed (in a fresh state) BEFORE or between the assign_*
    calls; computed again now, AFTER all of them, it must be the same"""
    bad = 0
    for (kind, seq, m), v in list(_TEXT.items()):
        again = fresh_text(kind, list(seq), m)
        if again != v:
            bad += 1
            ctx.fail("%s parameters of %s changed during the run: %r before, %r after (state carried between calls)"
                     % (kind, " ".join(seq), v, again),
                     {"op": "param_sequence", "kind": kind, "keys": [[list(seq), m]]}, tags=["param-sequence", kind])
            if bad >= 3:
                break
    ctx.count("expected-texts-recomputed", len(_TEXT))


def search(ctx):
    """focused search on the real code only (no model): the thorough budget through the oracle"""
    saved = ctx.tier
    ctx.tier = "thorough"
    try:
        run(ctx, oracle_only=True)
    finally:
        ctx.tier = saved


def real_of(inp):
    """the real code's result for a line-protocol op"""
    op = inp["op"]
    if op in ("angles", "dihedrals"):
        return real_enum(op, inp["bonds"])
    if op == "adjacency":
        return real_adjacency(inp["bonds"])
    if op == "assign":
        return real_assign(inp["kind"], inp["terms"], inp["uff"], inp["exclude"])
    if op == "retype":
        return real_retype(inp["types"])
    if op == "typekey":
        r = real_typekey(inp["t"])
        return {"key": [x if isinstance(x, str) else int(x) for x in r["key"]]}
    return None


def replay(ctx, rec):
    if "input" not in rec:
        # a record of kind "unchecked": no failing input was found; re-run the correspondence on the disagreeing input
        c = rec.get("correspondence")
        if not c:
            return True
        inp = c["input"]
        if inp["op"] == "assign":  # the texts come from the real parameter functions as they are now
            inp = dict(inp, params=param_table(inp["kind"], inp["terms"], inp["uff"]))
        impl = real_of(inp)
        model = ctx.lean.run([inp])[0]
        return core.same(impl, model) is None
    inp = rec["input"]
    op = inp["op"]
    if op in ("angles", "dihedrals"):
        return oracle_enum(op, inp["bonds"], real_enum(op, inp["bonds"])) is None
    if op == "enum_invariance":
        k = inp["kind"]
        return oracle_enum_invariance(k, real_enum(k, inp["bonds"]), real_enum(k, inp["bonds2"])) is None
    if op == "assign":
        r = real_assign(inp["kind"], inp["terms"], inp["uff"], inp["exclude"])
        return oracle_assign(inp["kind"], inp["terms"], inp["uff"], inp["exclude"], r) is None
    if op == "assign_rename":
        k, terms, uff, ex = inp["kind"], inp["terms"], inp["uff"], inp["exclude"]
        r1 = real_assign(k, terms, uff, ex)
        t2, u2, e2 = renamed(terms, uff, ex, inp["sigma"], inp["perm"])
        r2 = real_assign(k, t2, u2, e2)
        return oracle_rename(k, terms, uff, ex, inp["sigma"], inp["perm"], r1, r2) is None
    if op == "assign_reorder":
        k, terms, uff, ex = inp["kind"], inp["terms"], inp["uff"], inp["exclude"]
        ra, rb = real_assign_reordered(k, terms, uff, ex, inp["perm"])
        return oracle_reorder(k, terms, uff, ex, ra, rb) is None
    if op == "torsion_defined":
        return oracle_torsion_defined(inp["seq"]) is None
    if op == "param_sequence":
        return oracle_param_sequence(inp["kind"], [(tuple(sq), m) for sq, m in inp["keys"]]) is None
    if op == "retype":
        return oracle_retype(inp["types"], real_retype(inp["types"])) is None
    if op == "typekey":
        r = real_typekey(inp["t"])
        return oracle_typekey(inp["t"], {"key": [x if isinstance(x, str) else int(x) for x in r["key"]]}) is None
    return True
