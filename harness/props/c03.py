"""C03 — the set of matched atom groups does not depend on how crystal or pattern are represented.

Oracle (real code only, metamorphic): the key set (sorted index tuples) of a search is compared with the key set of
the search on an equivalent input: (a) structure shifted by a vector and wrapped into the cell, (b) atoms listed in
another order, (c) pattern rigidly rotated / translated, (d) every valid hint triple incl. index 0 and partial hints,
(e) other seeds of `random` / `numpy.random`, (f) a x b x c supercell (every occurrence once per image).
Tie: the transformed searches also run through the Lean model (views compared as in C01/C02), and the model's hint
resolution (`resolveAxis`, `resolveOpoint`) is compared with the axis the code actually used."""
import itertools
import math
import os
import random

import numpy as np

from .. import core, findlib as fl, gen_find_c02 as g, gen_find_c03 as g3, gen_find_c03_slab as gs

ATOL = 0.05
TWO_IMAGES_TAG = "supercell-two-images-one-group"
ILL_HINT_TAG = "hint-ill-conditioned-orientation-point"
ATOLS = [0.05, 0.05, 0.05, 0.05, 0.001, 0.01, 0.2]
RULE = ("base structures as in C02 (validated planted copies, per-atom perturbation <= atol/16; atol/40 for the hint runs); "
        "atol drawn from {0.001, 0.01, 0.05, 0.2} per base structure; patterns incl. CH2FCl-/CH3F-like ones with symmetry-"
        "related FIRST atoms, atoms listed copy by copy / slot-major / reversed / random; "
        "cells incl. 1, 2, 3 negative diagonal entries (alone or mixed with off-diagonal entries; every kind in a dedicated "
        "stream with the three half turns); relations: the whole crystal (cell + atoms) turned rigidly (half turns about the "
        "axes, quarter turns, arbitrary rational rotations); UNWRAPPED TWIN (the same crystal with per-atom lattice shifts of up to +-2 cells); plain call (return_positions_and_quats=False); shift by a random vector (|components| <= 2 cell lengths) + fractional wrap; random atom permutation (a freshly built object, and the SAME Atoms object permuted in place between two searches); "
        "pattern moved by a random rational rotation + translation; ALL hint triples (each entry None or an index; spelled "
        "as int / negative int / numpy int) of the patterns with <= 4 atoms whose given axis points are distinct and whose "
        "given orientation point is >= 0.05 A off the (resolved) axis, copies perturbed atol/8 (lever ratios ro<=3, ra<=2.5) "
        "or atol/40 (ro<=15, ra<=6); KNOWN-FINDING stream of ill-conditioned orientation hints (ro>=5, copies displaced "
        "0.1-0.25 atol); 3 other RNG seeds; replication <= 2x1x1 (quick) / <= 2x2x2 (thorough) when every cell width exceeds 2*(diameter+2*atol) (below that two images of one atom can both fit and the relation is mathematically false). Thorough also: "
        "docs/examples/uio66.cif + uio66-linker.cml (24 linkers) and tests/uio66/uio66-triclinic.lmpdat (6 linkers, "
        "atol 0.2): shift, permutation, pattern motion, reseed, 2x1x1. Separate small stream for the KNOWN FINDING (narrow "
        "cells with two fitting images of one atom: supercell along that cell vector, 3 quick / 20 thorough). "
        "NEARLY LINEAR patterns (3-5 atoms along a line, inner atoms at most f*atol off it, f in {0, <0.05, 0.1-0.5, 0.52-0.97 "
        "(weight 4/9), 1.03-1.6, 1.6-4}; 1-3 exact / atol/40 / atol/16 copies in distinct poses, validated by the enumerator): "
        "pattern moved arbitrarily and ROLLED ABOUT ITS OWN LONG AXIS (fixed and random angles), crystal turned, shift / "
        "permutation, valid hint triples with lever ratios ro<=3, ra<=2.5 (orientation atom a fraction of atol off the axis). "
        "SLAB CELLS (one or two perpendicular widths 0.3-0.95 of D = diameter + 2 atol, the others 1.15-2.6 D; orthorhombic / "
        "tilted / turned as a whole; random elongated patterns of 2-4 atoms, diameter 2.5-8 A; 1-3 exact or atol/16 copies in "
        "random poses whose fractional extent stays below 0.9 cell along every cell direction, so that each occurrence lies in "
        "the home cell and its adjacent images; bystander atoms; validated by the enumerator over ceil(D/width)+1 images): "
        "supercells of 2-3 cells along a thin direction (also combined with another direction) wherever the independent "
        "enumeration of unit cell and supercell confirms that the count relation is mathematically true; shift, permutation, "
        "pattern motion, crystal turned, unwrapped twin, reseed. Non-trivial = the base search reports at least "
        "one match and the transformation is not the identity.")

HINT_PATTERNS = [p for p in fl.PATTERNS if len(fl.PATTERNS[p][0]) <= 4]


# ------------------------------------------------------------------ running the real code on dict-shaped inputs

def base_of(case, atol=ATOL):
    return {"elems": list(case["elems"]), "pos": [list(map(float, p)) for p in case["pos"]],
            "cell": [list(map(float, r)) for r in case["cell"]],
            "pattern": {"elems": list(case["pattern"]["elems"]), "pos": [list(map(float, p)) for p in case["pattern"]["pos"]]},
            "atol": atol, "info": case.get("info", {})}


def real_search(base, hints=(None, None, None), seed=0):
    s = fl.mk_structure(base["elems"], base["pos"], base["cell"])
    p = g.mk_pattern(base)
    return fl.run_find(s, p, base["atol"], hints=tuple(hints), seed=seed)


def keys(res):
    return None if "ok" not in res else g.keys_of(res["ok"]["idx"])


# ------------------------------------------------------------------ transformations

def t_shift(base, v):
    cf = np.array(base["cell"])
    cinv = np.linalg.inv(cf)
    f = (np.array(base["pos"]) + np.array(v)).dot(cinv) % 1.0
    f[f >= 1.0] = 0.0
    return dict(base, pos=f.dot(cf).tolist())


def t_perm(base, order):
    return dict(base, elems=[base["elems"][i] for i in order], pos=[base["pos"][i] for i in order])


def t_pattern(base, quat, t):
    R = np.array([[float(x) for x in row] for row in fl.rotmat(quat)])
    P = np.array(base["pattern"]["pos"]).dot(R.T) + np.array(t)
    return dict(base, pattern={"elems": base["pattern"]["elems"], "pos": P.tolist()})


def t_rotate(base, quat):
    """the WHOLE crystal (cell vectors and atoms) turned rigidly: another Cartesian representation of the same crystal"""
    R = np.array([[float(x) for x in row] for row in fl.rotmat(quat)])
    return dict(base, pos=np.array(base["pos"]).dot(R.T).tolist(), cell=np.array(base["cell"]).dot(R.T).tolist())


def t_replicate(base, dims):
    s = fl.mk_structure(base["elems"], base["pos"], base["cell"])
    # the replication factors in the public spellings: tuple / list / numpy array / numpy integers (by their sum)
    spell = sum(dims) % 4
    d = tuple(dims) if spell == 0 else list(dims) if spell == 1 else np.array(dims) if spell == 2 else tuple(np.int64(x) for x in dims)
    with core.quiet():
        r = s.replicate(repldims=d)
    return dict(base, elems=[str(e) for e in r.elements], pos=np.array(r.positions, dtype=float).tolist(),
                cell=np.array(r.cell, dtype=float).tolist())


def widths_ok(base):
    """guard of the supercell relation. The property's guard (widths > diameter + 2 atol =: D) is NOT enough for
    `count(supercell) = a*b*c*count(unit cell)`: with D < width < 2D two different periodic images of the SAME atom
    can both fit (e.g. C-O pair 1.25 A in a 1.7 x 1.5 x 1.5 A cell, images (0,0,1) and (0,1,1) of the O at 1.238 and
    1.250 A from the C): in the unit cell they are one atom group (one match, as C02 demands), in the supercell two.
    The relation is therefore only demanded when every width exceeds 2 D (then the image is unique)."""
    P = np.array(base["pattern"]["pos"])
    d = max(np.linalg.norm(P[:, None, :] - P[None, :, :], axis=2).max(), 0.0)
    return min(fl.perp_widths(base["cell"])) > 2 * (d + 2 * base["atol"])


# ------------------------------------------------------------------ hints

valid_hints = g.valid_hints


def opoint_unique(ppos, a, b):
    """is the point farthest from the axis a-b unique by a clear margin? (then the code's float argmax is determined)"""
    P = np.array(ppos, dtype=float)
    u = P[b] - P[a]
    if np.linalg.norm(u) < 1e-9:
        return False
    off = sorted((np.linalg.norm(np.cross(u, p - P[a])) / np.linalg.norm(u) for p in P), reverse=True)
    return len(off) < 2 or off[0] - off[1] > 1e-6


# ------------------------------------------------------------------ one relation = one oracle evaluation

def relation(base, rel, param, base_keys=None):
    """evaluate one metamorphic relation on the real code. Returns (bad text | None, transformed input, result)."""
    if base_keys is None:
        base_keys = keys(real_search(base, seed=1))
    if base_keys is None:
        return "the base search raised", None, None
    hints, seed, want, plain = (None, None, None), 2, base_keys, False
    if rel == "shift":
        tb = t_shift(base, param)
    elif rel == "perm":
        tb = t_perm(base, param)
        inv = {old: new for new, old in enumerate(param)}
        want = sorted(tuple(sorted(inv[i] for i in k)) for k in base_keys)
    elif rel == "perm-inplace":
        # the SAME Atoms object: searched, its atoms exchanged IN PLACE (rows of positions / atom_types / charges /
        # groups re-ordered inside the existing arrays), searched again
        tb = t_perm(base, param)
        inv = {old: new for new, old in enumerate(param)}
        want = sorted(tuple(sorted(inv[i] for i in k)) for k in base_keys)
        s_ = fl.mk_structure(base["elems"], base["pos"], base["cell"])
        p_ = g.mk_pattern(base)
        first = keys(fl.run_find(s_, p_, base["atol"], seed=1))
        if first != base_keys:
            return "the same input searched twice gives %s and %s" % (base_keys[:4], None if first is None else first[:4]), tb, None
        order = list(param)
        for name in ("positions", "atom_types", "charges", "groups"):
            arr = getattr(s_, name)
            arr[list(range(len(order)))] = arr[order]
        res = fl.run_find(s_, p_, base["atol"], seed=2)
        got = keys(res)
        if got is None:
            return "the search after the in-place permutation raised %s (%s)" % (res.get("err"), res.get("msg", "")), tb, res
        if got != want:
            return "key set after permuting the SAME Atoms object in place: %s  vs  %s" % (got[:4], want[:4]), tb, res
        return None, tb, res
    elif rel == "unwrap":
        # the same crystal with atom i stored param[i] cells away (integer multipliers of the cell vectors)
        tb = dict(base, pos=(np.array(base["pos"]) + np.array(param, dtype=float).dot(np.array(base["cell"]))).tolist())
    elif rel == "rotate-crystal":
        tb = t_rotate(base, param)
    elif rel == "pattern":
        tb = t_pattern(base, param[0], param[1])
    elif rel == "hints":
        tb, hints = base, tuple(param)                       # python ints, possibly negative (python convention)
    elif rel == "hints-np":
        tb, hints = base, tuple(None if h is None else np.int64(h) for h in param)
    elif rel == "seed":
        tb, seed = base, int(param)
    elif rel == "plain":               # called with return_positions_and_quats=False (only index tuples returned)
        tb, seed, plain = base, int(param), True
    elif rel == "replicate":
        tb = t_replicate(base, param)
    else:
        raise ValueError(rel)
    if plain:
        from .c02 import run_plain
        res = run_plain(fl.mk_structure(tb["elems"], tb["pos"], tb["cell"]), g.mk_pattern(tb), tb["atol"], seed=seed)
    else:
        res = real_search(tb, hints=hints, seed=seed)
    got = keys(res)
    if got is None:
        return "the search on the transformed input raised %s (%s)" % (res.get("err"), res.get("msg", "")), tb, res
    if rel == "replicate":
        n = len(base["elems"])
        mult = param[0] * param[1] * param[2]
        if len(got) != mult * len(base_keys):
            return "supercell %s reports %d matches, unit cell %d (expected %d)" % (param, len(got), len(base_keys), mult * len(base_keys)), tb, res
        if len(set(got)) != len(got):
            return "supercell: a group reported more than once", tb, res
        folded = sorted(tuple(sorted(i % n for i in k)) for k in got)
        if folded != sorted(list(base_keys) * mult):
            return "supercell matches are not %d images of every unit-cell match" % mult, tb, res
        return None, tb, res
    if got != want:
        return "key set changed under '%s' %s: %s  vs  %s" % (rel, param if rel != "perm" else "", got[:4], want[:4]), tb, res
    return None, tb, res


def hint_failure_tags(base, h, base_keys, res):
    """A failure of the hint relation is attributed to the known finding C03-hint-ill-conditioned-orientation-point
    (exactly its tag) only if it has that finding's signature: an orientation point was hinted, its lever ratio
    ro = (largest distance of a pattern atom from the axis) / (distance of the hinted atom from the axis) is at least
    ILL_RO, the un-hinted search reports groups, and the hinted search merely LOSES some of them (reports a subset,
    raises nothing).  Any other dependence on the hints stays an untagged violation."""
    ra, ro, given_o = g.hint_levers(base["pattern"]["pos"], h)
    got = None if res is None else keys(res)
    if given_o and ro >= g.ILL_RO and base_keys and got is not None and set(got) < set(base_keys) and len(set(got)) == len(got):
        return [ILL_HINT_TAG]
    return ["rel:hints", "ro:%.2f" % ro, "ra:%.2f" % ra]


def inp_of(base, rel, param):
    return {"op": "find-invariance", "relation": rel, "param": param, "base": base}


# ------------------------------------------------------------------ the check

def check_rel(ctx, base, rel, param, base_keys, pairs=None, want_tie=False, tags=()):
    bad, tb, res = relation(base, rel, param, base_keys)
    inp = inp_of(base, rel, param)
    ctx.case(inp if len(base["elems"]) < 60 else {"op": "find-invariance", "relation": rel, "param": param, "file": base["info"]},
             nontrivial=bool(base_keys))
    ctx.count("rel:" + rel)
    if bad:
        ctx.fail(bad, inp, required="same key set after renaming", tags=["rel:" + rel] + list(tags))
    elif want_tie and pairs is not None and res is not None and "ok" in res:
        hints = tuple(param) if rel == "hints" else (None, None, None)
        pairs.append((inp, tb, hints, res))
    return bad


def tie(ctx, pairs):
    ops = []
    for inp, tb, hints, res in pairs:
        case = {"elems": tb["elems"], "pos": tb["pos"], "cell": tb["cell"], "pattern": tb["pattern"]}
        ops.append(g.model_op(case, tb["atol"], hints, res["hook"]))
    models = ctx.lean.run(ops) if ops else []
    for (inp, tb, hints, res), op, m in zip(pairs, ops, models):
        iv, mv = fl.impl_view(res), fl.model_view(m)
        if core.same(iv, mv) is None:
            ctx.compare("find", inp, iv, mv)
            continue
        # (findlib's views are order-free and the oracle is keyed by tuple: enumeration order does not matter)
        _, stable = fl.stable_under_atol(ctx.lean, op)
        if not stable:
            ctx.ambiguous += 1
            continue
        ctx.compare("find", inp, iv, mv)


def tie_resolve(ctx, items):
    """hint resolution alone: the model's `resolved` on an EMPTY structure vs. the axis exported by the code"""
    ops = []
    for pat, hints, axis in items:
        ops.append({"op": "find", "elems": [], "pos": [], "cell": [["1", "0", "0"], ["0", "1", "0"], ["0", "0", "1"]],
                    "pelems": pat["elems"], "ppos": [[core.q(x) for x in p] for p in pat["pos"]], "atol": core.q(ATOL),
                    "hints": list(hints), "axis": [None, None, None], "oracle": [], "choose": []})
    models = ctx.lean.run(ops) if ops else []
    for (pat, hints, axis), m in zip(items, models):
        npat = len(pat["pos"])                       # the code keeps a negative hint as it was given: same atom mod n
        want = [int(axis[0]) % npat, int(axis[1]) % npat, None if axis[2] is None else int(axis[2]) % npat]
        got = list(m.get("resolved", []))
        if hints[2] is None and want[2] is not None and not opoint_unique(pat["pos"], want[0], want[1]):
            got, want = got[:2], want[:2]      # several points equally far from the axis: float argmax is not determined
        ctx.compare("resolve", {"op": "resolve", "pattern": pat, "hints": list(hints)}, {"resolved": want}, {"resolved": got})


def gen_base(rng, pname=None, perturb_div=16.0, tight=None, boundary=None, atol=ATOL):
    for _ in range(50):
        case = g.random_case(rng, atol=atol, pname=pname, perturb_div=perturb_div, tight=tight, boundary=boundary)
        if case is not None and case["elems"]:
            return case
    return None


def crystal_turn(rng):
    """a rational quaternion for turning the whole crystal: half turns about a coordinate axis (an orthorhombic cell
    then has two negative diagonal entries), quarter turns, arbitrary rotations"""
    return fl.rat_quat(rng, rng.choice(["axis180", "axis180", "axis90", "random"]))


def rand_params(rng, base):
    cf = np.array(base["cell"])
    n = len(base["elems"])
    v = [rng.uniform(-2, 2) * float(np.abs(cf).sum(axis=0)[c]) for c in range(3)]
    order = list(range(n))
    rng.shuffle(order)
    quat = fl.rat_quat(rng, rng.choice(["random", "random", "axis90", "axis180"]))
    t = [rng.uniform(-5, 5) for _ in range(3)]
    return v, order, (list(quat), t)


def run(ctx, oracle_only=False, scale=1):
    ctx.rule = RULE
    rng = ctx.rng
    pairs, resolve_items = [], []
    n_tie = 0 if oracle_only else ctx.n(160, 500)
    # ---- (a) (b) (c) (e) (f) on random validated structures
    for _ in range(ctx.n(150, 1500) * scale):
        atol = rng.choice(ATOLS)
        case = gen_base(rng, atol=atol)
        if case is None:
            ctx.count("generator:rejected")
            continue
        base = base_of(case, atol)
        ctx.count("atol:%g" % atol)
        ctx.count("cell:" + case["info"]["cell"])
        ctx.count("pattern:" + case["info"]["pattern"])
        bres = real_search(base, seed=1)
        bk = keys(bres)
        if bk is None:
            ctx.fail("the search raised %s" % bres.get("err"), inp_of(base, "seed", 1), tags=["base"])
            continue
        v, order, pm = rand_params(rng, base)
        tieit = lambda: len(pairs) < n_tie and rng.random() < 0.5
        check_rel(ctx, base, "shift", v, bk, pairs, tieit())
        check_rel(ctx, base, "perm", order, bk, pairs, tieit())
        order2 = list(order)
        rng.shuffle(order2)
        check_rel(ctx, base, "perm-inplace", order2, bk, pairs, False)
        check_rel(ctx, base, "pattern", pm, bk, pairs, tieit())
        check_rel(ctx, base, "rotate-crystal", list(crystal_turn(rng)), bk, pairs, tieit())
        check_rel(ctx, base, "unwrap", g.lattice_shifts(rng, len(base["elems"])), bk, pairs, tieit())
        for sd in rng.sample(range(3, 10 ** 6), ctx.n(2, 3)):
            check_rel(ctx, base, "seed", sd, bk, pairs, False)
        if rng.random() < 0.5:
            check_rel(ctx, base, "plain", rng.randrange(3, 10 ** 6), bk, pairs, False)
        if widths_ok(base) and len(base["elems"]) <= 30:
            dims = rng.choice([(2, 1, 1), (1, 2, 1), (1, 1, 2), (3, 1, 1), (1, 1, 3)] if ctx.tier == "quick" and scale == 1 else
                              [(2, 1, 1), (1, 2, 1), (1, 1, 2), (2, 2, 1), (1, 2, 2), (2, 1, 2), (2, 2, 2), (3, 1, 1),
                               (1, 3, 2), (3, 3, 3) if len(base["elems"]) <= 12 else (3, 2, 1)])
            check_rel(ctx, base, "replicate", list(dims), bk, pairs, len(pairs) < n_tie and rng.random() < 0.15)
    # ---- patterns whose first atoms are symmetry-related (only some orderings rotatable), >= 2 copies: the key set must
    # not depend on the listing order of the atoms (copy by copy vs. slot-major vs. random)
    for i in range(ctx.n(9, 60) * scale):
        pname = list(g.MIRROR_FIRST)[i % len(g.MIRROR_FIRST)]
        case = None
        for _ in range(20):
            case = g.mirror_first_case(rng, atol=ATOL, pname=pname, mode=["slot-major", "random", "reversed"][i % 3])
            if case is not None:
                break
        if case is None:
            ctx.count("generator:rejected")
            continue
        base = base_of(case)
        ctx.count("stream:symmetric-first-atoms")
        bk = keys(real_search(base, seed=1))
        if bk is None:
            ctx.fail("the search raised", inp_of(base, "seed", 1), tags=["base"])
            continue
        n_at = len(base["elems"])
        k_at = len(base["pattern"]["elems"])
        v, order, pm = rand_params(rng, base)
        # back to copy-by-copy order is one particular permutation; also a random one and slot-major of the current one
        check_rel(ctx, base, "perm", order, bk, pairs, len(pairs) < n_tie and rng.random() < 0.3)
        check_rel(ctx, base, "perm", list(range(n_at - 1, -1, -1)), bk, pairs, False)
        check_rel(ctx, base, "perm", sorted(range(n_at), key=lambda a: (a % k_at, a)), bk, pairs, False)
        check_rel(ctx, base, "perm-inplace", order, bk, pairs, False)
        check_rel(ctx, base, "shift", v, bk, pairs, False)
        check_rel(ctx, base, "unwrap", g.lattice_shifts(rng, len(base["elems"])), bk, pairs, False)
        check_rel(ctx, base, "seed", rng.randrange(3, 10 ** 6), bk, pairs, False)
    # ---- cells with 1, 2, 3 negative diagonal entries (also mixed with off-diagonal entries), every kind in turn: all
    # relations, and in particular the same crystal turned by half turns (which flips the signs of two diagonal entries)
    for i in range(ctx.n(8, 48) * scale):
        kind = g.NEG_KINDS[i % len(g.NEG_KINDS)]
        case = None
        for _ in range(20):
            case = g.negdiag_case(rng, atol=ATOL, kind=kind)
            if case is not None and case["elems"]:
                break
        if case is None:
            ctx.count("generator:rejected")
            continue
        base = base_of(case)
        ctx.count("stream:negative-diagonal:" + kind)
        bk = keys(real_search(base, seed=1))
        if bk is None:
            ctx.fail("the search raised", inp_of(base, "seed", 1), tags=["base"])
            continue
        v, order, pm = rand_params(rng, base)
        check_rel(ctx, base, "shift", v, bk, pairs, len(pairs) < n_tie and rng.random() < 0.3)
        check_rel(ctx, base, "perm", order, bk, pairs, False)
        check_rel(ctx, base, "pattern", pm, bk, pairs, False)
        for ax in range(3):                       # the three half turns about the coordinate axes
            qq = [0, 0, 0, 0]
            qq[ax] = 1
            check_rel(ctx, base, "rotate-crystal", qq, bk, pairs, len(pairs) < n_tie and rng.random() < 0.2)
        check_rel(ctx, base, "rotate-crystal", list(fl.rat_quat(rng, "random")), bk, pairs, False)
        check_rel(ctx, base, "unwrap", g.lattice_shifts(rng, len(base["elems"])), bk, pairs, False)
        if widths_ok(base) and len(base["elems"]) <= 30:
            check_rel(ctx, base, "replicate", list(rng.choice([(2, 1, 1), (1, 2, 1), (1, 1, 2)])), bk, pairs, False)
    # ---- known finding C03-supercell-two-images-one-group: narrow cells (D < width < 2 D along one cell vector) in
    # which two periodic images of one atom both complete the pattern with the same partner.  Only the COUNT mismatch
    # of the supercell along that vector, with the reported supercell groups being exactly the groups an independent
    # enumeration finds in an independently built supercell, is attributed to the finding (exactly its tag).
    n_two, made = ctx.n(3, 20), 0
    while made < n_two:
        case = g.two_image_case(rng, atol=ATOL)
        if case is None:
            ctx.count("generator:rejected")
            continue
        made += 1
        base = base_of(case)
        dims = [1, 1, 1]
        dims[case["axis"]] = 2
        bk = keys(real_search(base, seed=1))
        inp = inp_of(base, "replicate", dims)
        ctx.case(inp, nontrivial=True)
        ctx.count("stream:two-images-one-group")
        if bk is None:
            ctx.fail("the search raised", inp, tags=["base"])
            continue
        bad, tb, res = relation(base, "replicate", dims, bk)
        if bad:
            known = False
            if bad.startswith("supercell %s reports" % dims) and res is not None and "ok" in res:
                se, sp, sc = g.replicate_indep(base["elems"], base["pos"], base["cell"], dims)
                ins, amb = g.brute_occurrences(se, sp, sc, base["pattern"]["elems"], base["pattern"]["pos"], base["atol"])
                known = not amb and sorted(ins) == keys(res) and bk == [(0, 1)]
            ctx.fail(bad, inp, required="count(supercell) = a*b*c * count(unit cell)",
                     tags=[TWO_IMAGES_TAG] if known else ["rel:replicate"])
        # the relation along the other cell vectors does hold
        for ax in range(3):
            if ax != case["axis"]:
                d2 = [1, 1, 1]
                d2[ax] = 2
                check_rel(ctx, base, "replicate", d2, bk, pairs, len(pairs) < n_tie and rng.random() < 0.3)
    # ---- (d) hints: every valid triple of every pattern with <= 4 atoms (given axis points distinct, given orientation
    # point >= 0.05 A off the axis), in the spellings int / negative int / numpy int.  The copies are perturbed as far as
    # the conditioning of the triple allows: atol/8 for well-conditioned triples (lever ratios ro <= 3, ra <= 2.5),
    # atol/40 for moderate ones (ro <= 15, ra <= 6); triples beyond that belong to the known finding below.
    for rep in range(ctx.n(1, 5) * scale):
        for pname in HINT_PATTERNS:
            hatol = rng.choice(ATOLS)
            ppos = [[float(x) for x in q] for q in fl.pattern_json(pname)["pos"]]
            classes = {8.0: [], 40.0: []}
            for h in g.valid_hints(ppos, min_off=0.05):
                ra, ro, _ = g.hint_levers(ppos, h)
                if ro <= 3 and ra <= 2.5:
                    classes[8.0].append(h)
                elif ro <= 15 and ra <= 6:
                    classes[40.0].append(h)
                else:
                    ctx.count("hint-triples:left-to-the-known-finding-stream")
            for pdiv, hs in classes.items():
                if not hs:
                    continue
                case = gen_base(rng, pname=pname, perturb_div=pdiv, tight=False, atol=hatol)
                if case is None:
                    ctx.count("generator:rejected")
                    continue
                base = base_of(case, hatol)
                bres = real_search(base, seed=1)
                bk = keys(bres)
                if bk is None:
                    ctx.fail("the search raised %s" % bres.get("err"), inp_of(base, "seed", 1), tags=["base"])
                    continue
                ctx.count("hint-triples:perturbation-atol/%g" % pdiv, len(hs))
                npat = len(ppos)
                for h in hs:
                    hs_spelled, spelling = g.spell_hints(rng, h, npat)
                    rel = "hints-np" if spelling == "numpy" else "hints"
                    param = [None if x is None else int(x) for x in hs_spelled]
                    bad, tb, res = relation(base, rel, param, bk)
                    inp = inp_of(base, rel, param)
                    ctx.case(inp, nontrivial=bool(bk) and h != (None, None, None))
                    ctx.count("rel:hints")
                    ctx.count("hint-spelling:" + spelling)
                    if 0 in h:
                        ctx.count("hints-with-index-0")
                    if bad:
                        ctx.fail(bad, inp, required="same key set for every valid hint triple",
                                 tags=hint_failure_tags(base, h, bk, res))
                        continue
                    if not oracle_only and res["hook"].find is not None and rep == 0:
                        resolve_items.append((base["pattern"], h, res["hook"].find["axis"]))
                        if (h.count(None) >= 1 and 0 in h and rng.random() < 0.2) or rng.random() < 0.02:
                            pairs.append((inp, tb, h, res))
    # ---- known finding C03-hint-ill-conditioned-orientation-point: the hinted orientation atom lies close to the axis
    # compared with the lever arm of the other atoms (ro >= ILL_RO); copies displaced by 0.1-0.25 atol per atom are found
    # without the hint and can be lost with it.  First the structure that established the finding, then generated ones.
    fc = g.FINDING_HINT_CASE
    ill = [(dict(fc), fc["hints"])]
    while len(ill) < 1 + ctx.n(6, 40) * scale:
        r = g.ill_conditioned_hint_case(rng, atol=ATOL)
        if r is not None:
            ill.append(r)
    for case, h in ill:
        base = base_of(case)
        bk = keys(real_search(base, seed=1))
        inp = inp_of(base, "hints", list(h))
        ctx.case(inp, nontrivial=True)
        ctx.count("stream:ill-conditioned-orientation-hint")
        if bk is None:
            ctx.fail("the search raised", inp, tags=["base"])
            continue
        bad, tb, res = relation(base, "hints", list(h), bk)
        if bad:
            ctx.fail(bad, inp, required="same key set for every valid hint triple", tags=hint_failure_tags(base, h, bk, res))
    # ---- nearly linear patterns (3-5 atoms, inner atoms at most f * atol off the long axis, f from 0 over the window
    # 0.5 < f < 1 to 4): the azimuth about the long axis is fixed by an atom that is only a fraction of the tolerance away
    # from the axis.  Copies in distinct poses, i.e. rolled about their own axis relative to the pattern as given.
    # Relations: pattern moved rigidly (arbitrary motion; rolls about its OWN long axis), whole crystal turned, valid
    # well-conditioned hint triples (orientation atom off the axis, ro <= 3, ra <= 2.5), shift, permutation.
    near_linear(ctx, rng, ctx.n(36, 300) * scale, pairs, n_tie if not oracle_only else 0)
    # ---- slab cells: thinner than the pattern is long in one or two directions, the occurrences lying along the others
    slab(ctx, rng, ctx.n(40, 300) * scale)
    if ctx.tier == "quick" and scale == 1 and HINT_PATTERNS:
        ctx.notes.append("hint triples enumerated completely for one structure per pattern with <= 4 atoms")
    # ---- the repository's MOF files (oracle only)
    if ctx.tier == "thorough" or scale > 1:
        mof_files(ctx, rng)
    if not oracle_only:
        tie_resolve(ctx, resolve_items)
        tie(ctx, pairs)


ROLLS = [math.pi / 2, math.pi, -math.pi / 2, math.pi / 4, 3 * math.pi / 4, 2 * math.pi / 3]


def near_linear(ctx, rng, n_cases, pairs, n_tie):
    tied = 0
    for i in range(n_cases):
        atol = rng.choice(ATOLS)
        case = g3.near_linear_case(rng, atol=atol)
        if case is None:
            ctx.count("generator:rejected")
            continue
        base = base_of(case, atol)
        ctx.count("stream:near-linear")
        ctx.count("near-linear:bend-" + case["info"]["bend"])
        ctx.count("near-linear:copies-%d" % case["info"]["copies"])
        bres = real_search(base, seed=1)
        bk = keys(bres)
        if bk is None:
            ctx.fail("the search raised %s" % bres.get("err"), inp_of(base, "seed", 1), tags=["base", "near-linear"])
            continue
        tg = ["near-linear", "bend:" + case["info"]["bend"]]
        ppos = base["pattern"]["pos"]
        v, order, pm = rand_params(rng, base)
        tie_it = tied < min(12, n_tie) and rng.random() < 0.4
        tied += bool(tie_it)
        check_rel(ctx, base, "pattern", pm, bk, pairs, tie_it, tags=tg)
        # the pattern rolled about its own long axis (and translated): two of the fixed angles, one random angle
        for ang in rng.sample(ROLLS, 2) + [rng.uniform(-math.pi, math.pi)]:
            t = [rng.choice([0.0, rng.uniform(-5, 5)]) for _ in range(3)]
            check_rel(ctx, base, "pattern", [g3.axis_roll(ppos, ang), t], bk, pairs, False, tags=tg)
        check_rel(ctx, base, "rotate-crystal", list(crystal_turn(rng)), bk, pairs, False, tags=tg)
        if i % 2 == 0:
            check_rel(ctx, base, "shift", v, bk, pairs, False, tags=tg)
        else:
            check_rel(ctx, base, "perm", order, bk, pairs, False, tags=tg)
        # hints: only for exact / atol/40 copies (as in the general hint stream), small lever ratios
        if case["info"]["perturb_div"] in (0.0, 40.0):
            hs = g3.conditioned_hints(ppos)
            with_o = [h for h in hs if h[2] is not None]
            picked = rng.sample(with_o, min(2, len(with_o))) + rng.sample(hs, min(1, len(hs)))
            npat = len(ppos)
            for h in picked:
                hs_spelled, spelling = g.spell_hints(rng, h, npat)
                rel = "hints-np" if spelling == "numpy" else "hints"
                param = [None if x is None else int(x) for x in hs_spelled]
                bad, tb, res = relation(base, rel, param, bk)
                inp = inp_of(base, rel, param)
                ctx.case(inp, nontrivial=bool(bk))
                ctx.count("rel:hints")
                ctx.count("near-linear:hint-triples")
                if bad:
                    ctx.fail(bad, inp, required="same key set for every valid hint triple",
                             tags=hint_failure_tags(base, h, bk, res) + tg)


def slab(ctx, rng, n_cases):
    """cells with a perpendicular width BELOW the pattern's diameter (outside the blanket width guard of the other
    streams) in which every occurrence still spans less than one cell along every cell direction.  The supercell
    relation is demanded where an independent enumeration of unit cell and (independently built) supercell says it is
    mathematically true; the other relations unconditionally."""
    for i in range(n_cases):
        atol = rng.choice(ATOLS)
        case = gs.slab_case(rng, atol=atol)
        if case is None:
            ctx.count("generator:rejected")
            continue
        base = base_of(case, atol)
        ctx.count("stream:slab")
        ctx.count("slab:" + case["info"]["cell"])
        ctx.count("slab:thin-directions-%d" % len(case["info"]["thin"]))
        ctx.count("slab:width/D<%.1f" % (math.floor(case["info"]["width_over_D"] * 5) / 5 + 0.2))
        bres = real_search(base, seed=1)
        bk = keys(bres)
        tg = ["slab", "cell:" + case["info"]["cell"]]
        if bk is None:
            ctx.fail("the search raised %s" % bres.get("err"), inp_of(base, "seed", 1), tags=["base"] + tg)
            continue
        big = ctx.tier != "quick" and len(base["elems"]) <= 8
        for _ in range(2):
            dims = gs.slab_dims(rng, case, big=big)
            true, n_unit, n_super = gs.supercell_truth(base, dims, case["info"]["span"])
            if true is None:
                ctx.ambiguous += 1
                ctx.count("slab:supercell-ambiguous")
            elif not true:
                ctx.count("slab:supercell-relation-mathematically-false(two images of one atom fit)")
            else:
                check_rel(ctx, base, "replicate", list(dims), bk, tags=tg)
        v, order, pm = rand_params(rng, base)
        check_rel(ctx, base, "shift", v, bk, tags=tg)
        check_rel(ctx, base, "perm", order, bk, tags=tg)
        check_rel(ctx, base, "pattern", pm, bk, tags=tg)
        check_rel(ctx, base, "rotate-crystal", list(crystal_turn(rng)), bk, tags=tg)
        if i % 2 == 0:
            check_rel(ctx, base, "unwrap", g.lattice_shifts(rng, len(base["elems"])), bk, tags=tg)
        else:
            check_rel(ctx, base, "seed", rng.randrange(3, 10 ** 6), bk, tags=tg)


MOFS = [("docs/examples/uio66.cif", "docs/examples/uio66-linker.cml", 0.05, 24, {}),
        ("tests/uio66/uio66-triclinic.lmpdat", "tests/uio66/uio66-linker.cml", 0.2, 6, {"atom_format": "full"})]


def load_mof(spath, ppath, atol, kw):
    from mofun import Atoms
    with core.quiet():
        s = Atoms.load(os.path.join(core.REPO, spath), **kw)
        p = Atoms.load(os.path.join(core.REPO, ppath))
    return {"elems": [str(e) for e in s.elements], "pos": np.array(s.positions, dtype=float).tolist(),
            "cell": np.array(s.cell, dtype=float).tolist(),
            "pattern": {"elems": [str(e) for e in p.elements], "pos": np.array(p.positions, dtype=float).tolist()},
            "atol": atol, "info": {"file": spath, "pattern_file": ppath}}


def mof_files(ctx, rng):
    for spath, ppath, atol, expected, kw in MOFS:
        base = load_mof(spath, ppath, atol, kw)
        bk = keys(real_search(base, seed=1))
        ctx.count("mof:" + os.path.basename(spath))
        if bk is None or len(bk) != expected:
            ctx.fail("%s: %s matches, the repository's tests expect %d" % (spath, None if bk is None else len(bk), expected),
                     inp_of(base, "seed", 1), tags=["mof"])
            continue
        for _ in range(3):
            v, order, pm = rand_params(rng, base)
            check_rel(ctx, base, "shift", v, bk, tags=["mof"])
            check_rel(ctx, base, "perm", order, bk, tags=["mof"])
            check_rel(ctx, base, "perm-inplace", order, bk, tags=["mof"])
            check_rel(ctx, base, "pattern", pm, bk, tags=["mof"])
            check_rel(ctx, base, "rotate-crystal", list(crystal_turn(rng)), bk, tags=["mof"])
            check_rel(ctx, base, "unwrap", g.lattice_shifts(rng, len(base["elems"])), bk, tags=["mof"])
            check_rel(ctx, base, "seed", rng.randrange(10 ** 6), bk, tags=["mof"])
        check_rel(ctx, base, "replicate", list(rng.choice([(2, 1, 1), (1, 2, 1), (1, 1, 2)])), bk, tags=["mof"])


def search(ctx):
    run(ctx, oracle_only=True, scale=3)


def replay(ctx, rec):
    inp = rec["input"]
    bad, _, _ = relation(inp["base"], inp["relation"], inp["param"])
    return bad is None
