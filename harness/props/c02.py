"""C02 — every occurrence of the pattern is found exactly once, also across periodic boundaries.

Oracle (real code only): the generator KNOWS the planted atom groups and has validated by an independent brute-force
enumeration (gen_find_c02.brute_occurrences) that these are exactly the groups well inside the tolerance and that no
other group is anywhere near it; the search must report exactly these groups, each once.
Tie: the same search through the Lean model (Model/Find.lean) with the rotation oracle / choices exported by the hook;
compared: near window, candidate groups, tuples passing the rotation check, reported matches."""
import itertools
import multiprocessing
import os
import random

from .. import core, findlib as fl, gen_find_c02 as g

ATOL = 0.05
RULE = ("periodic structures with 1-3 planted rigid copies (per-atom perturbation <= atol/8) of 11 patterns (1-5 atoms; "
        "asymmetric, symmetric, planar, collinear, chiral) in orthorhombic / triclinic(+/- tilt) / arbitrarily rotated "
        "cells, 20 % of them with smallest width only 3-30 % above diameter+2*atol; poses random / identity / 90 / 180 deg / "
        "antiparallel to the search axis; origins random or on the boundary-hugging grid {0,.01,.5,.99,.999}^3 "
        "(thorough: the complete grid x 5 poses x 11 patterns x 4 cell kinds); decoys: mirror images (chiral patterns "
        "only; a mirror image of an achiral pattern is planted as an occurrence), near misses with one distance off by "
        "3-5 atol, lone same-element atoms (occurrences for the one-atom pattern). Every structure is validated by an "
        "independent brute-force enumeration. Non-trivial = a planted copy straddles at least one cell face or the "
        "structure contains a decoy.")


def oracle_complete(planted, res):
    """the property on one search result: reported key list == planted key set, each key once"""
    if "ok" not in res:
        return "the search raised %s (%s)" % (res.get("err"), res.get("msg", ""))
    keys = g.keys_of(res["ok"]["idx"])
    want = sorted(tuple(k) for k in planted)
    if len(set(keys)) != len(keys):
        dup = sorted(k for k in set(keys) if keys.count(k) > 1)
        return "atom group reported more than once: %s" % (dup[:3],)
    missing = [k for k in want if k not in keys]
    if missing:
        return "occurrence not reported: %s (reported %d of %d)" % (missing[:3], len(keys), len(want))
    extra = [k for k in keys if k not in want]
    if extra:
        return "reported a group that is not an occurrence: %s" % (extra[:3],)
    if len(keys) != len(want):
        return "count %d differs from the number of occurrences %d" % (len(keys), len(want))
    return None


def inp_of(case, atol=ATOL, hints=(None, None, None), seed=0):
    return {"op": "find-complete", "elems": case["elems"], "pos": case["pos"], "cell": case["cell"],
            "pattern": case["pattern"], "atol": atol, "hints": list(hints), "seed": seed,
            "planted": [list(k) for k in case["planted"]], "info": case.get("info", {})}


def run_real(inp):
    s = fl.mk_structure(inp["elems"], inp["pos"], inp["cell"])
    p = g.mk_pattern(inp)
    return fl.run_find(s, p, inp["atol"], hints=tuple(inp["hints"]), seed=inp.get("seed", 0))


def one(inp):
    """real code + oracle on one input -> (res, failure text | None)"""
    res = run_real(inp)
    return res, oracle_complete(inp["planted"], res)


def nontrivial(case):
    return g.crossings(case) > 0 or any(k.startswith("decoy") for k in case["info"]["kinds"])


def tags_of(case):
    i = case["info"]
    return ["cell:" + i["cell"], "pattern:" + i["pattern"], "cross:%d" % g.crossings(case),
            "tight" if i["tight"] else "roomy"] + sorted(set(k for k in i["kinds"]))


# ------------------------------------------------------------------ systematic boundary enumeration

def grid_tasks(patterns=None, cells=None, poses=None, fracs=None):
    patterns = patterns or list(fl.PATTERNS)
    out = []
    for pname in patterns:
        for ck in (cells or g.CELLS):
            for pose in (poses or g.POSES):
                if len(fl.PATTERNS[pname][0]) == 1 and pose != "identity":
                    continue
                for fr in itertools.product(fracs or g.FRACS, repeat=3):
                    out.append((pname, ck, pose, fr))
    return out


def grid_case(seed, task):
    pname, ck, pose, fr = task
    rng = random.Random("c02-grid-%s-%s" % (seed, task))
    nd = rng.choice([0, 0, 1])
    return g.planted(rng, pname, ck, [(pose, list(fr))], atol=ATOL, ndecoy=nd, tight=rng.random() < 0.25)


def _grid_worker(args):
    seed, task = args
    case = grid_case(seed, task)
    if case is None:
        return task, None, None, None
    inp = inp_of(case)
    res, bad = one(inp)
    return task, (g.crossings(case), case["info"]["tight"], nontrivial(case)), bad, (inp if bad else core.sha(inp))


def run_grid(ctx, tasks, procs):
    args = [(ctx.seed, t) for t in tasks]
    if procs > 1:
        with multiprocessing.get_context("fork").Pool(procs) as pool:
            results = pool.map(_grid_worker, args, chunksize=64)
    else:
        results = [_grid_worker(a) for a in args]
    for task, meta, bad, inp in results:
        if meta is None:
            ctx.count("grid:unplaceable")
            continue
        cross, tight, nt = meta
        ctx.evaluations += 1
        if nt:
            ctx.nontrivial.add(inp if isinstance(inp, str) else core.sha(inp))
        ctx.count("grid")
        ctx.count("grid:cross:%d" % cross)
        ctx.count("grid:pose:" + task[2])
        ctx.count("grid:cell:" + task[1])
        if bad:
            ctx.fail(bad, inp, required="reported key set == planted key set, each once", tags=["grid"])


# ------------------------------------------------------------------ the check

def tie(ctx, pairs):
    """pairs: [(inp, case, res)] -> model run, comparison of the views"""
    ops = [fl.find_op(case, inp["atol"], tuple(inp["hints"]), res["hook"]) for inp, case, res in pairs]
    models = ctx.lean.run(ops) if ops else []
    for (inp, case, res), op, m in zip(pairs, ops, models):
        iv, mv = fl.impl_view(res), fl.model_view(m)
        if core.same(iv, mv) is None:
            ctx.compare("find", inp, iv, mv)
            continue
        # disagreement: decided by floating-point rounding on a threshold?
        _, stable = fl.stable_under_atol(ctx.lean, op)
        if not stable:
            ctx.ambiguous += 1
            continue
        ctx.compare("find", inp, iv, mv)


def run(ctx, oracle_only=False, scale=1):
    ctx.rule = RULE
    rng = ctx.rng
    pairs = []
    n_rand = ctx.n(1000, 8000) * scale
    n_tie = 0 if oracle_only else ctx.n(220, 700)
    made = 0
    while made < n_rand:
        case = g.random_case(rng, atol=ATOL)
        if case is None:
            ctx.count("generator:rejected")
            continue
        made += 1
        inp = inp_of(case, seed=rng.randrange(1 << 30))
        res, bad = one(inp)
        ctx.case(inp, nontrivial=nontrivial(case))
        for t in tags_of(case):
            ctx.count(t)
        if bad:
            ctx.fail(bad, inp, observed=res.get("ok", res.get("err")), required="reported key set == planted key set, each once",
                     tags=tags_of(case))
        elif len(pairs) < n_tie and "ok" in res:
            pairs.append((inp, case, res))
    # boundary grid: complete in the thorough tier, a random sample in the quick tier
    tasks = grid_tasks()
    if ctx.tier == "quick" and scale == 1:
        tasks = rng.sample(tasks, 1500)
    elif ctx.tier == "quick":
        tasks = rng.sample(tasks, 4000)
    else:
        ctx.exhaustive = False   # the grid is enumerated completely, the space of structures is not finite
    procs = 1 if len(tasks) <= 2000 else max(1, min(8, (os.cpu_count() or 2) // 2))
    run_grid(ctx, tasks, procs)
    if not oracle_only:
        # a few grid cases through the model too
        for t in rng.sample(tasks, min(len(tasks), ctx.n(30, 200))):
            case = grid_case(ctx.seed, t)
            if case is None:
                continue
            inp = inp_of(case)
            res, bad = one(inp)
            if not bad:
                pairs.append((inp, case, res))
        tie(ctx, pairs)


def search(ctx):
    """real code only, larger budget"""
    run(ctx, oracle_only=True, scale=3)


def replay(ctx, rec):
    inp = rec["input"]
    _, bad = one(inp)
    return bad is None
