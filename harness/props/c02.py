"""C02 — every occurrence of the pattern is found exactly once, also across periodic boundaries.

Oracle (real code only): the generator KNOWS the planted atom groups and has validated by an independent brute-force
enumeration (gen_find_c02.brute_occurrences) that these are exactly the groups well inside the tolerance and that no
other group is anywhere near it; the search must report exactly these groups, each once.
Tie: the same search through the Lean model (Model/Find.lean) with the rotation oracle / choices exported by the hook;
compared: near window, candidate groups, tuples passing the rotation check, reported matches."""
import itertools
import multiprocessing
import os
import random

from .. import core, findlib as fl, gen_find_c02 as g, gen_find_c02_soft as gs, gen_find_c02_tilt as gt

ATOL = 0.05
NEGDIAG_TAG = "negative-diagonal-orthorhombic-cell"
ATOLS = [0.05, 0.05, 0.05, 0.05, 0.001, 0.01, 0.2]


def hint_kind(h):
    if tuple(h) == (None, None, None):
        return "none"
    k = "%d-given" % (3 - list(h).count(None))
    return k + ("+index0" if 0 in h else "")
RULE = ("a share of the structures (30 % random, 25 % grid) stores its atoms OUTSIDE the cell (per-atom lattice shifts of up to "
        "+-2 cells; repaired by 517adff); periodic structures with 1-3 planted rigid copies (per-atom perturbation up to atol/8 ... 0.35 atol un-hinted; "
        "with hints atol/8 or atol/40 according to the lever ratios of the triple; hints spelled int / negative / numpy) of 11 patterns (1-5 atoms; "
        "asymmetric, symmetric, planar, collinear, chiral) in orthorhombic / triclinic(+/- tilt) / arbitrarily rotated "
        "cells, 20 % of them with smallest width only 0.1-30 % above diameter+2*atol; streams: occurrences sharing atoms "
        "(expectation = independent enumeration), exact copies with atol = 1e-6 / 1e-5 (tolerances below the ~1e-8 A noise of "
        "the arccos-based rotation are not demanded); poses random / identity / 90 / 180 deg / "
        "antiparallel to the search axis; origins random or on the boundary-hugging grid {0,.01,.5,.99,.999}^3 "
        "(thorough: the complete grid x 5 poses x 11 patterns x 4 cell kinds); decoys: mirror images (chiral patterns "
        "only; a mirror image of an achiral pattern is planted as an occurrence), near misses with one distance off by "
        "3-5 atol, lone same-element atoms (occurrences for the one-atom pattern). Every structure is validated by an "
        "independent brute-force enumeration. Patterns incl. CH2FCl- and CH3F-like ones whose FIRST atoms are symmetry-related "
        "(only some orderings rotatable); atoms listed copy by copy, slot-major (all first atoms, then all second ...), "
        "reversed or randomly permuted. Argument space: atol in {0.001, 0.01, 0.05, 0.2} (copies and decoys scale with "
        "it), 35 % of the random and 25 % of the grid cases searched WITH a valid explicit hint triple (partial hints, all "
        "three, index 0 in every position; copies then perturbed by atol/40), 20 % also called with "
        "return_positions_and_quats=False; sequences in one process (orthorhombic cell -> triclinic cell with the same "
        "diagonal -> the first again on the same objects; structure -> its supercell -> structure; ONE Atoms object "
        "searched with a short pattern / small atol and a long pattern / large atol in both orders). Cells also with tilt "
        "entries only above the diagonal or in a sparse subset of the off-diagonal entries. Stream of systematically "
        "distorted copies: atol 0.3-0.5 A, one pair of atoms (the search axis, automatic or hinted; bonds 1.1-1.5 A) moved "
        "apart/together by 0.40-0.46 atol each, validated with inside=0.5. Separate small stream for the KNOWN FINDING: diagonal cells with one or two "
        "negative entries (3 quick / 20 thorough). Stream of FLAT patterns (named collinear / planar ones and random rods of 3-5 "
        "atoms along x / y / z / a general direction, random planar groups of 4-6 atoms; atol 0.001-0.1) with 1-3 copies "
        "and 1-3 SOFT near misses: groups bent / puckered perpendicular to the pattern's line / plane so that every pairwise "
        "distance stays within 0.3-0.85 atol while the best rigid fit has rmsd > 2.3 atol (must not be reported). Stream of copies in NEARLY "
        "SPECIAL POSES: a special rotation (none, a turn about the search axis, quarter / half turn, the turn reversing the search "
        "axis, random as control) followed by a turn of theta = (atol/L) 10^u, u in [-2.5, 1.5], about a random axis; patterns: the named ones "
        "and random ones with one long pair L of 3-80 A (log-uniform), atol 0.001-0.05; exact or perturbed by atol/8; 20 % with "
        "hints (exact copies), near misses in nearly special poses. Non-trivial = a planted copy straddles at least one cell face or the "
        "structure contains a decoy.")


def oracle_complete(planted, res):
    """the property on one search result: reported key list == planted key set, each key once"""
    if "ok" not in res:
        return "the search raised %s (%s)" % (res.get("err"), res.get("msg", ""))
    keys = g.keys_of(res["ok"]["idx"])
    want = sorted(tuple(k) for k in planted)
    if len(set(keys)) != len(keys):
        dup = sorted(k for k in set(keys) if keys.count(k) > 1)
        return "atom group reported more than once: %s" % (dup[:3],)
    missing = [k for k in want if k not in keys]
    if missing:
        return "occurrence not reported: %s (reported %d of %d)" % (missing[:3], len(keys), len(want))
    extra = [k for k in keys if k not in want]
    if extra:
        return "reported a group that is not an occurrence: %s" % (extra[:3],)
    if len(keys) != len(want):
        return "count %d differs from the number of occurrences %d" % (len(keys), len(want))
    return None


def inp_of(case, atol=ATOL, hints=(None, None, None), seed=0):
    return {"op": "find-complete", "elems": case["elems"], "pos": case["pos"], "cell": case["cell"],
            "pattern": case["pattern"], "atol": atol, "hints": list(hints), "seed": seed,
            "planted": [list(k) for k in case["planted"]], "info": case.get("info", {})}


def run_plain(s, p, atol, hints=(None, None, None), seed=0):
    """the search called the way most users call it: return_positions_and_quats=False (only the index tuples)"""
    import random as _random
    import numpy as np
    import mofun.mofun as mm
    try:
        _random.seed(seed)
        np.random.seed(seed % (2 ** 32))
        with core.quiet():
            idx = mm.find_pattern_in_structure(s, p, axisp1_idx=hints[0], axisp2_idx=hints[1], opoint_idx=hints[2],
                                               atol=atol)
        return {"ok": {"idx": [[int(i) for i in t] for t in idx]}}
    except Exception as e:  # noqa
        return {"err": "error:" + type(e).__name__, "msg": str(e)[:200]}


def run_real(inp):
    import numpy as np
    s = fl.mk_structure(inp["elems"], inp["pos"], inp["cell"])
    p = g.mk_pattern(inp)
    hints = tuple(inp["hints"])
    if inp.get("hint_spelling") == "numpy":
        hints = tuple(None if h is None else np.int64(h) for h in hints)
    if inp.get("plain"):
        return run_plain(s, p, inp["atol"], hints=hints, seed=inp.get("seed", 0))
    return fl.run_find(s, p, inp["atol"], hints=hints, seed=inp.get("seed", 0))


def one(inp):
    """real code + oracle on one input -> (res, failure text | None)"""
    res = run_real(inp)
    return res, oracle_complete(inp["planted"], res)


def nontrivial(case):
    return g.crossings(case) > 0 or any(k.startswith("decoy") for k in case["info"]["kinds"])


def tags_of(case):
    i = case["info"]
    return ["cell:" + i["cell"], "pattern:" + i["pattern"], "cross:%d" % g.crossings(case),
            "tight" if i["tight"] else "roomy"] + sorted(set(k for k in i["kinds"]))


# ------------------------------------------------------------------ systematic boundary enumeration

def grid_tasks(patterns=None, cells=None, poses=None, fracs=None):
    patterns = patterns or list(fl.PATTERNS)
    out = []
    for pname in patterns:
        for ck in (cells or g.CELLS):
            for pose in (poses or g.POSES):
                if len(fl.PATTERNS[pname][0]) == 1 and pose != "identity":
                    continue
                for fr in itertools.product(fracs or g.FRACS, repeat=3):
                    out.append((pname, ck, pose, fr))
    return out


def grid_case(seed, task):
    """-> (case | None, atol, hints): a quarter of the grid cases is searched with explicit hints, a fifth with another atol"""
    pname, ck, pose, fr = task
    rng = random.Random("c02-grid-%s-%s" % (seed, task))
    nd = rng.choice([0, 0, 1])
    tight = rng.random() < 0.25
    hinted = rng.random() < 0.25
    atol = rng.choice(ATOLS) if rng.random() < 0.2 else ATOL
    case = g.planted(rng, pname, ck, [(pose, list(fr))], atol=atol, ndecoy=nd, tight=tight,
                     perturb_div=40.0 if hinted else 8.0)
    hints = g.pick_hints(rng, case["pattern"]["pos"]) if (hinted and case is not None) else (None, None, None)
    if case is not None and rng.random() < 0.25:
        case = g.unwrap(case, rng)                   # boundary-straddling copy whose atoms are stored in other cells
    return case, atol, hints


def _grid_worker(args):
    seed, task = args
    case, atol, hints = grid_case(seed, task)
    if case is None:
        return task, None, None, None
    inp = inp_of(case, atol=atol, hints=hints)
    res, bad = one(inp)
    return task, (g.crossings(case), case["info"]["tight"], nontrivial(case)), bad, (inp if bad else core.sha(inp))


def run_grid(ctx, tasks, procs):
    args = [(ctx.seed, t) for t in tasks]
    if procs > 1:
        with multiprocessing.get_context("fork").Pool(procs) as pool:
            results = pool.map(_grid_worker, args, chunksize=64)
    else:
        results = [_grid_worker(a) for a in args]
    for task, meta, bad, inp in results:
        if meta is None:
            ctx.count("grid:unplaceable")
            continue
        cross, tight, nt = meta
        ctx.evaluations += 1
        if nt:
            ctx.nontrivial.add(inp if isinstance(inp, str) else core.sha(inp))
        ctx.count("grid")
        ctx.count("grid:cross:%d" % cross)
        ctx.count("grid:pose:" + task[2])
        ctx.count("grid:cell:" + task[1])
        if bad:
            ctx.fail(bad, inp, required="reported key set == planted key set, each once", tags=["grid"])


# ------------------------------------------------------------------ searches in sequence (module-level state, caches)

def sequences(ctx, rng, n):
    """Several searches in ONE process on related inputs, each compared with what an evaluation that knows nothing of
    the others gives (the planted keys / the independent enumeration):
      A  an orthorhombic cell, then a triclinic cell with the SAME diagonal, then the first one again (same objects);
      B  a structure, then its supercell (built here, expected keys from the brute-force enumeration), then the
         structure again."""
    import numpy as np
    done = 0
    while done < n:
        atol = rng.choice(ATOLS)
        first = g.random_case(rng, atol=atol, cell_kind="ortho", tight=False)
        if first is None:
            continue
        steps = [("first", first)]
        r3 = rng.random()
        if r3 < 0.4:
            if same_object_two_searches(ctx, rng):
                done += 1
            continue
        if r3 < 0.7:
            pname = first["info"]["pattern"]
            cf = g.tilted_twin(rng, first["cell"])
            d = fl.diam(fl.pattern_json(pname)["pos"])
            if min(fl.perp_widths(cf)) <= d + 2 * atol + 0.5:
                continue
            twin = g.planted(rng, pname, "tri+", [(rng.choice(g.POSES), None) for _ in range(rng.randint(1, 2))],
                             atol=atol, ndecoy=rng.randint(0, 1), cell=cf)
            if twin is None:
                continue
            twin["info"]["cell"] = "tri(same diagonal)"
            steps.append(("tilted-twin", twin))
            kind = "ortho->tri-same-diagonal->ortho"
        else:
            if len(first["elems"]) > 16:
                continue
            dims = rng.choice([(2, 1, 1), (1, 2, 1), (1, 1, 2), (2, 2, 1)])
            se, sp, sc = g.replicate_indep(first["elems"], first["pos"], first["cell"], dims)
            ins, amb = g.brute_occurrences(se, sp, sc, first["pattern"]["elems"], first["pattern"]["pos"], atol)
            if amb:
                continue
            sup = {"elems": se, "pos": sp, "cell": sc, "pattern": first["pattern"], "planted": sorted(ins),
                   "info": dict(first["info"], cell="supercell%s" % (dims,))}
            steps.append(("supercell", sup))
            kind = "unit->supercell->unit"
        steps.append(("first-again", first))
        done += 1
        ctx.count("sequence:" + kind)
        objs = {}
        for name, case in steps:
            key = id(case)
            if key not in objs:          # the repeated search runs on the SAME Atoms objects
                objs[key] = (fl.mk_structure(case["elems"], case["pos"], case["cell"]), g.mk_pattern(case))
            s_, p_ = objs[key]
            sd = rng.randrange(1 << 30)
            res = fl.run_find(s_, p_, atol, seed=sd) if rng.random() < 0.7 else run_plain(s_, p_, atol, seed=sd)
            inp = inp_of(case, atol=atol, seed=sd)
            inp["sequence"] = {"kind": kind, "step": name}
            ctx.case(inp, nontrivial=True)
            bad = oracle_complete(inp["planted"], res)
            if bad:
                ctx.fail("in the sequence %s, step %s: %s" % (kind, name, bad), inp, observed=res.get("ok", res.get("err")),
                         required="every search of the sequence reports exactly the planted groups", tags=["sequence", kind])


SHORT = ["single", "pair", "pair_same", "pair@y", "bent"]
LONG = ["asym5", "chiral", "asym4", "planar4", "ch3", "collinear_asym"]


def same_object_two_searches(ctx, rng):
    """ONE Atoms object searched twice with different arguments: a short pattern / small atol and a long pattern /
    large atol, in both orders (thin search shell first, thick second — and the reverse), then the first search again.
    The structure holds boundary-straddling copies of the LONG pattern; what each search must report is the planted
    set (long pattern) resp. the independent enumeration (short pattern, other tolerance)."""
    long_p = rng.choice(LONG)
    atol_long = rng.choice([0.05, 0.05, 0.2])
    case = g.random_case(rng, atol=atol_long, pname=long_p, boundary=True, tight=False)
    if case is None:
        return False
    searches = [("long-pattern", case["pattern"], atol_long, [tuple(k) for k in case["planted"]])]
    # second argument set: a short pattern (whatever it matches in this structure) or the same pattern, tiny atol
    if rng.random() < 0.7:
        sp = fl.pattern_json(rng.choice(SHORT))
        spat = {"elems": sp["elems"], "pos": [[float(x) for x in p] for p in sp["pos"]], "name": sp["name"]}
        atol_s = rng.choice([0.001, 0.01, 0.05])
    else:
        spat, atol_s = case["pattern"], 0.001
    ins, amb = g.brute_occurrences(case["elems"], case["pos"], case["cell"], spat["elems"], spat["pos"], atol_s)
    if amb:
        return False
    searches.append(("short-pattern", spat, atol_s, sorted(ins)))
    order = [1, 0, 1] if rng.random() < 0.6 else [0, 1, 0]
    s_ = fl.mk_structure(case["elems"], case["pos"], case["cell"])           # the SAME object for all three searches
    kind = "same-object:" + "->".join(searches[k][0] for k in order)
    ctx.count("sequence:" + kind)
    for step, k in enumerate(order):
        name, pat, atol, want = searches[k]
        sd = rng.randrange(1 << 30)
        p_ = g.mk_pattern({"pattern": pat})
        res = fl.run_find(s_, p_, atol, seed=sd) if rng.random() < 0.7 else run_plain(s_, p_, atol, seed=sd)
        inp = {"op": "find-complete", "elems": case["elems"], "pos": case["pos"], "cell": case["cell"], "pattern": pat,
               "atol": atol, "hints": [None, None, None], "seed": sd, "planted": [list(x) for x in want],
               "info": case["info"], "sequence": {"kind": kind, "step": step,
                                                  "before": [{"pattern": searches[j][1], "atol": searches[j][2]} for j in order[:step]]}}
        ctx.case(inp, nontrivial=True)
        bad = oracle_complete(want, res)
        if bad:
            ctx.fail("same Atoms object, search %d of %s: %s" % (step + 1, kind, bad), inp,
                     observed=res.get("ok", res.get("err")),
                     required="every search reports exactly the occurrences of ITS pattern and tolerance", tags=["sequence", kind])
    return True


def distorted(ctx, rng, n, pairs, n_tie):
    """large tolerances relative to short bonds, copies distorted systematically (gen_find_c02.distorted_case)"""
    made = 0
    while made < n:
        r = g.distorted_case(rng)
        if r is None:
            ctx.count("generator:rejected")
            continue
        made += 1
        case, hints, atol = r
        inp = inp_of(case, atol=atol, hints=hints, seed=rng.randrange(1 << 30))
        res, bad = one(inp)
        ctx.case(inp, nontrivial=True)
        ctx.count("stream:distorted-copy-large-atol")
        ctx.count("atol:%g" % atol)
        if bad:
            ctx.fail(bad, inp, observed=res.get("ok", res.get("err")), required="reported key set == planted key set, each once",
                     tags=["distorted-copy", "pattern:" + case["info"]["pattern"]] + case["info"]["kinds"])
        elif len(pairs) < n_tie + 25 and "ok" in res and rng.random() < 0.3:
            pairs.append((inp, case, res))


def soft_decoys(ctx, rng, n, pairs, n_tie):
    """flat patterns (rods of >= 3 atoms, planar groups of >= 4 atoms) with copies AND soft near misses: groups bent /
    puckered perpendicular to the pattern's line / plane, every pairwise distance within the tolerance, positions
    clearly outside it (gen_find_c02_soft).  Clause: nothing clearly outside the tolerance is reported; count = number
    of occurrences."""
    made = 0
    while made < n:
        case = gs.soft_case(rng)
        if case is None:
            ctx.count("generator:rejected")
            continue
        made += 1
        atol = case["info"]["atol"]
        hints = (None, None, None)
        if rng.random() < 0.25:
            h = g.pick_hints(rng, case["pattern"]["pos"])
            ra, ro, _ = g.hint_levers(case["pattern"]["pos"], h)
            if ro <= 3 and ra <= 2.5:
                hints = h
        inp = inp_of(case, atol=atol, hints=hints, seed=rng.randrange(1 << 30))
        if rng.random() < 0.2:
            inp["plain"] = True
        res, bad = one(inp)
        ctx.case(inp, nontrivial=True)
        ctx.count("stream:flat-pattern-soft-decoys")
        ctx.count("soft:pattern:" + case["info"]["pattern"])
        ctx.count("soft:atol:%g" % atol)
        ctx.count("soft:cross:%d" % g.crossings(case))
        for k in set(case["info"]["kinds"]):
            if k.startswith("decoy"):
                ctx.count("soft:" + k)
        if bad:
            ctx.fail(bad, inp, observed=res.get("ok", res.get("err")), required="reported key set == planted key set, each once "
                     "(the bent / puckered groups are no occurrences: best rigid fit rmsd > 2 atol)",
                     tags=tags_of(case) + ["soft-decoy", "hints:" + hint_kind(hints)])
        elif len(pairs) < n_tie + 40 and "ok" in res and "hook" in res and rng.random() < 0.3:
            pairs.append((inp, case, res))


def tilted(ctx, rng, n):
    """copies in nearly special poses with lever arms long against the tolerance (gen_find_c02_tilt).  Clause: a rotated
    and translated copy (well inside the tolerance) is reported, whatever the rotation is."""
    made = 0
    while made < n:
        hinted = rng.random() < 0.2                # with hints only exact copies (no noise for the hinted atoms to amplify)
        case = gt.tilt_case(rng, exact=hinted)
        if case is None:
            ctx.count("generator:rejected")
            continue
        made += 1
        atol = case["info"]["atol"]
        hints = (None, None, None)
        if hinted:
            h = g.pick_hints(rng, case["pattern"]["pos"])
            ra, ro, _ = g.hint_levers(case["pattern"]["pos"], h)
            if ro <= 3 and ra <= 2.5:
                hints = h
        inp = inp_of(case, atol=atol, hints=hints, seed=rng.randrange(1 << 30))
        if rng.random() < 0.2:
            inp["plain"] = True
        res, bad = one(inp)
        ctx.case(inp, nontrivial=True)
        ctx.count("stream:nearly-special-poses")
        ctx.count("tilt:atol:%g" % atol)
        ctx.count("tilt:cross:%d" % g.crossings(case))
        ctx.count("tilt:diameter:%s" % ("<4" if case["info"]["diameter"] < 4 else "4-20" if case["info"]["diameter"] < 20 else ">=20"))
        for k in set(case["info"]["kinds"]):
            ctx.count("tilt:" + k)
        for x in case["info"]["theta*L/atol"]:
            ctx.count("tilt:theta*L/atol:%s" % ("<0.1" if x < 0.1 else "0.1-1" if x < 1 else "1-10" if x < 10 else ">=10"))
        if bad:
            ctx.fail(bad, inp, observed=res.get("ok", res.get("err")), required="reported key set == planted key set, each once "
                     "(every planted group is a rigid image of the pattern within atol/4; the pose differs from a special one by the "
                     "angles info.thetas)", tags=tags_of(case) + ["nearly-special-pose", "hints:" + hint_kind(hints)])


# ------------------------------------------------------------------ the check

def tie(ctx, pairs):
    """pairs: [(inp, case, res)] -> model run, comparison of the views"""
    ops = [g.model_op(case, inp["atol"], tuple(inp["hints"]), res["hook"]) for inp, case, res in pairs]
    models = ctx.lean.run(ops) if ops else []
    for (inp, case, res), op, m in zip(pairs, ops, models):
        iv, mv = fl.impl_view(res), fl.model_view(m)
        if core.same(iv, mv) is None:
            ctx.compare("find", inp, iv, mv)
            continue
        # disagreement: decided by floating-point rounding on a threshold?
        # (findlib's views are order-free and the oracle is keyed by tuple: enumeration order does not matter)
        _, stable = fl.stable_under_atol(ctx.lean, op)
        if not stable:
            ctx.ambiguous += 1
            continue
        ctx.compare("find", inp, iv, mv)


def run(ctx, oracle_only=False, scale=1):
    ctx.rule = RULE
    rng = ctx.rng
    pairs = []
    n_rand = ctx.n(850, 8000) * scale
    n_tie = 0 if oracle_only else ctx.n(220, 700)
    made = 0
    while made < n_rand:
        # the argument space: tolerance (copies / decoys scale with it), explicit hints, plain call
        atol = rng.choice(ATOLS)
        hinted = rng.random() < 0.35
        pname = rng.choice(list(fl.PATTERNS))
        hints, spelling = (None, None, None), "int"
        # un-hinted copies are displaced by up to atol/8 ... 0.35 atol per atom; hinted ones as far as the conditioning of
        # the hint triple allows (see harness/props/c03.py: atol/8 for lever ratios ro <= 3, ra <= 2.5, else atol/40)
        pdiv = rng.choice([8.0, 8.0, 8.0, 4.0, 2.86])
        if hinted:
            ppos = [[float(x) for x in q] for q in fl.pattern_json(pname)["pos"]]
            hints = g.pick_hints(rng, ppos)
            ra, ro, _ = g.hint_levers(ppos, hints)
            if ro > 15 or ra > 6:
                hints = (None, None, None)
            else:
                pdiv = 8.0 if (ro <= 3 and ra <= 2.5) else 40.0
                hints, spelling = g.spell_hints(rng, hints, len(ppos))
        case = g.random_case(rng, atol=atol, pname=pname, perturb_div=pdiv)
        if case is None:
            ctx.count("generator:rejected")
            continue
        made += 1
        if rng.random() < 0.3:                       # the same crystal, atoms stored in other cells (up to +-2 cells away)
            case = g.unwrap(case, rng)
        ctx.count("stored:" + str(case["info"].get("stored", "inside the cell")))
        inp = inp_of(case, atol=atol, hints=[None if h is None else int(h) for h in hints], seed=rng.randrange(1 << 30))
        if spelling == "numpy":
            inp["hint_spelling"] = "numpy"
        ctx.count("perturbation:atol/%g" % pdiv)
        ctx.count("hint-spelling:" + spelling)
        res, bad = one(inp)
        ctx.case(inp, nontrivial=nontrivial(case))
        for t in tags_of(case):
            ctx.count(t)
        ctx.count("atol:%g" % atol)
        ctx.count("hints:" + hint_kind(hints))
        ctx.count("listing:" + str(case["info"].get("listing", "copy-by-copy")))
        if bad:
            ctx.fail(bad, inp, observed=res.get("ok", res.get("err")), required="reported key set == planted key set, each once",
                     tags=tags_of(case) + ["hints:" + hint_kind(hints)])
        elif len(pairs) < n_tie and "ok" in res:
            pairs.append((inp, case, res))
        if rng.random() < 0.2:
            pin = dict(inp, plain=True, seed=rng.randrange(1 << 30))
            pres, pbad = one(pin)
            ctx.case(pin, nontrivial=nontrivial(case))
            ctx.count("call:return_positions_and_quats=False")
            if pbad:
                ctx.fail(pbad, pin, observed=pres.get("ok", pres.get("err")),
                         required="reported key set == planted key set, each once", tags=tags_of(case) + ["plain-call"])
    # patterns whose first atoms are symmetry-related (some orderings rotatable, some only mirror images), >= 2 copies,
    # atoms listed slot-major / randomly / reversed: the grouping of candidate tuples must not depend on the order in
    # which the start atoms are met
    made = 0
    while made < ctx.n(12, 90) * scale:
        pname = list(g.MIRROR_FIRST)[made % len(g.MIRROR_FIRST)]
        atol = rng.choice(ATOLS)
        case = g.mirror_first_case(rng, atol=atol, pname=pname, mode=["slot-major", "slot-major", "random"][made % 3])
        if case is None:
            ctx.count("generator:rejected")
            continue
        made += 1
        inp = inp_of(case, atol=atol, seed=rng.randrange(1 << 30))
        res, bad = one(inp)
        ctx.case(inp, nontrivial=True)
        ctx.count("stream:symmetric-first-atoms:" + case["info"]["listing"])
        if bad:
            ctx.fail(bad, inp, observed=res.get("ok", res.get("err")), required="reported key set == planted key set, each once",
                     tags=tags_of(case) + ["listing:" + case["info"]["listing"]])
        elif len(pairs) < n_tie + 10 and "ok" in res and rng.random() < 0.5:
            pairs.append((inp, case, res))
    # occurrences that SHARE atoms (dense structures, no separation between copies); expectation = independent enumeration
    made = 0
    while made < ctx.n(20, 200) * scale:
        atol = rng.choice([0.05, 0.05, 0.01])
        case = g.shared_atom_case(rng, atol=atol)
        if case is None:
            ctx.count("generator:rejected")
            continue
        made += 1
        if made % 3 == 0:
            case = g.unwrap(case, rng)
        inp = inp_of(case, atol=atol, seed=rng.randrange(1 << 30))
        res, bad = one(inp)
        ctx.case(inp, nontrivial=True)
        ctx.count("stream:shared-atoms")
        if bad:
            ctx.fail(bad, inp, observed=res.get("ok", res.get("err")), required="reported key set == the independently "
                     "enumerated occurrence set, each group once", tags=tags_of(case))
        elif len(pairs) < n_tie + 20 and "ok" in res and rng.random() < 0.3:
            pairs.append((inp, case, res))
    # very small tolerances with EXACT copies (any pose / cell, also across the boundary): atol = 1e-6 and 1e-5.
    # Not below: the code builds its rotation from arccos(v1.v2), which turns one ulp of rounding in the coordinates
    # into ~1.5e-8 rad, i.e. ~1e-8 A of misplacement — an exact copy with coordinates near 0 is then rejected at
    # atol = 1e-9 (observed; with atol = 0 copies are accepted only through np.allclose's rtol = 1e-5).  Tolerances
    # below the arithmetic's own noise are not demanded.
    made = 0
    while made < ctx.n(12, 100) * scale:
        case = g.exact_case(rng, False)
        if case is None:
            ctx.count("generator:rejected")
            continue
        made += 1
        atol = [1e-6, 1e-5][made % 2]
        inp = inp_of(case, atol=atol, seed=rng.randrange(1 << 30))
        res, bad = one(inp)
        ctx.case(inp, nontrivial=True)
        ctx.count("stream:exact-copies:atol=%g" % atol)
        if bad:
            ctx.fail(bad, inp, observed=res.get("ok", res.get("err")), required="reported key set == planted key set, each once",
                     tags=tags_of(case) + ["atol:%g" % atol])
        elif len(pairs) < n_tie + 30 and "ok" in res and rng.random() < 0.3:
            pairs.append((inp, case, res))
    sequences(ctx, rng, ctx.n(24, 200) * scale)
    distorted(ctx, rng, ctx.n(60, 600) * scale, pairs, n_tie)
    # own generator forked from the state of ctx.rng (a function of it, consuming nothing: the streams below stay as they were)
    soft_decoys(ctx, random.Random("c02-soft|%r" % (rng.getstate()[1][:16],)), ctx.n(60, 500) * scale, pairs, n_tie)
    tilted(ctx, random.Random("c02-tilt|%r" % (rng.getstate()[1][:16],)), ctx.n(160, 1500) * scale)
    # boundary grid: complete in the thorough tier, a random sample in the quick tier
    tasks = grid_tasks()
    if ctx.tier == "quick" and scale == 1:
        tasks = rng.sample(tasks, 1300)
    elif ctx.tier == "quick":
        tasks = rng.sample(tasks, 4000)
    else:
        ctx.exhaustive = False   # the grid is enumerated completely, the space of structures is not finite
    procs = 1 if len(tasks) <= 2000 else max(1, min(8, (os.cpu_count() or 2) // 2))
    run_grid(ctx, tasks, procs)
    # former finding C02-negative-diagonal-orthorhombic-cell (fixed in /repo by 6179f2d; the stream stays as a regression
    # check, a recurrence would again carry the finding's tag): diagonal cells with one or two NEGATIVE entries.
    # Only "planted occurrence not reported" is attributed to the finding (exactly its tag); anything else that goes
    # wrong in this stream (a group twice, a group that is no occurrence, an exception) stays an untagged failure.
    # The model follows the code's box test literally (it also selects nothing), so these cases go through the tie.
    n_neg, made = ctx.n(8, 48), 0          # every kind (1, 2, 3 negative entries, mixed with off-diagonals) in turn
    while made < n_neg:
        case = g.negdiag_case(rng, atol=ATOL, kind=g.NEG_KINDS[made % len(g.NEG_KINDS)])
        if case is None:
            ctx.count("generator:rejected")
            continue
        made += 1
        inp = inp_of(case, seed=rng.randrange(1 << 30))
        res, bad = one(inp)
        ctx.case(inp, nontrivial=True)
        ctx.count("stream:negative-diagonal-cell")
        if bad:
            known = bad.startswith("occurrence not reported")
            ctx.fail(bad, inp, observed=res.get("ok", res.get("err")), required="reported key set == planted key set, each once",
                     tags=[NEGDIAG_TAG] if known else tags_of(case))
        if not oracle_only and "ok" in res:
            pairs.append((inp, case, res))
    if not oracle_only:
        # a few grid cases through the model too
        for t in rng.sample(tasks, min(len(tasks), ctx.n(30, 200))):
            case, atol, hints = grid_case(ctx.seed, t)
            if case is None:
                continue
            inp = inp_of(case, atol=atol, hints=hints)
            res, bad = one(inp)
            if not bad:
                pairs.append((inp, case, res))
        tie(ctx, pairs)
        # the rotation construction itself (Model/QuatHelpers.lean at Float) against helpers.py / the candidate loop
        from .. import ext_quat; ext_quat.run_stream(ctx)


def search(ctx):
    """real code only, larger budget"""
    run(ctx, oracle_only=True, scale=3)


def replay(ctx, rec):
    inp = rec["input"]
    _, bad = one(inp)
    return bad is None
