"""C04 — replacement changes exactly the matched atoms and nothing else (mofun.replace_pattern_in_structure).

Oracle (real code only, written from the property text; atoms are recognised by the UNIQUE charge the generator gave
them; the atoms the two patterns share are computed from the pattern texts: same element, same coordinates):
  * reported count == number of matches replaced == a nearest integer to f x (number found);
  * the replaced matches are distinct found matches;
  * atom count and per-element counts change by exactly M x (replacement - search pattern);
  * every atom outside the replaced matches is in the result exactly once with the same position, element, type LABEL,
    mass, charge and group; atoms common to both patterns stay where they were (position, element, charge, group);
    atoms that occur only in the search pattern are gone; the inserted atoms are M x (atoms only in the replacement);
  * the structure and both patterns handed in are unmodified; disjoint matches never raise.
Tie: the same call through the Lean model `replaceCore` (Model/Replace.lean) on exactly the matches the code used
(indices, image positions, quaternions, selection order recorded by findlib.run_replace); compared: the complete
canonical result (atoms in order with type ids, charges, groups; type tables; terms), positions within 1e-7."""
import multiprocessing
import os
import random
from collections import Counter
from fractions import Fraction

from .. import core, findlib as fl, gen_replace_c04 as g

RULE = ("periodic structures from findlib.planted_structure (1-5 planted copies of 11 patterns of 1-5 atoms, any pose, "
        "origins random / hugging faces / corners, orthorhombic / triclinic +- tilt / rotated cells, decoys), 40 % of them "
        "given with partly UNWRAPPED coordinates (noble-gas bystanders and atoms of planted copies lying up to 0.4 A - and "
        "less than 0.8 search lengths - outside the cell; half of those also with whole copies given one or two lattice vectors "
        "outside and bystanders up to 1.6 cell widths outside; every planted copy of an unwrapped structure must be among the "
        "matches, by construction), a few atom-less structures (cell only), 15 % of the pattern "
        "pairs carrying a cell of their own, 25 % of the calls with numpy-typed scalars (np.float64 / np.int64 / np.bool_), unique charges, "
        "random groups, type labels = or != element names; replacement EMPTY (plain Atoms(), the search pattern with every atom deleted, zero atoms + type tables, + coefficient "
        "tables) / smaller / equal / larger, with / without "
        "atoms shared with the search pattern (same element + same coordinates; non-shared atoms differ in element or by "
        ">= 1/1024 A), shuffled atom order; atol in {.05 (mostly), .02, .1, .2} with the copies distorted by <= atol/8; axis / "
        "orientation hints none (75 %) or valid full / partial triples; return_num_matches on (85 %) / off; 20 % of the structures "
        "declare 1-2 spare atom types at the end of their tables that no atom uses; a stream with atol in {.2,.25,.3} and copies with one atom displaced radially "
        "by 0.10..atol/2 (must be matched) resp. atol in {.01,.02} and displacement 2..2.5 atol < 0.05 (must NOT be matched), "
        "judged against the construction and against find_pattern_in_structure called with the same arguments; 30 % of the cases give the replacement extra "
        "per-atom / per-bond columns the structure lacks (CIF-style labels; a bond term with an extra column) and / or the "
        "structure an own extra column; in 30 % the three objects handed in are Atoms.copy() copies and the originals are "
        "watched too; inputs are compared attribute by attribute (deep snapshot incl. label sets) and must stay "
        "self-consistent; TWO-STEP histories: a first replacement "
        "that replaces nothing (fraction 0, or a search pattern that is absent) or half of the matches, then an ordinary "
        "replacement on its result (re-tagged), the full oracle and the tie applied to each step relative to its own input; f in {0,.1,.25,.5,.75,1} or random; replace_all on/off; random seeds. "
        "Thorough adds the full grid mode x shared x f(1/16 steps) x replace_all. "
        "Non-trivial = distinct input on which at least one match was replaced.")

REQUIRED = ("matches worked on == matches found with the CALLER's tolerance; count == replaced == nearest integer to f*found; replaced subset of found; atom / per-element counts change by "
            "M x (replacement - search); bystanders keep position, element, label, mass, charge, group; shared atoms stay; "
            "inputs unmodified")


def elems_of(j):
    return [j["types"]["elem"][a["ty"]] for a in j["atoms"]]


def lattice_close(a, b, cell, tol):
    """a == b modulo a lattice vector, for an atom that sits ON a cell face: returns (equal modulo lattice, shifted).
    A shift is accepted only along axes on which the fractional coordinate of `b` is within 1e-6 of 0 or 1."""
    import numpy as np
    c = np.array(cell, dtype=float)
    cinv = np.linalg.inv(c)
    d = (np.array(a, dtype=float) - np.array(b, dtype=float)).dot(cinv)
    r = np.round(d)
    fb = np.array(b, dtype=float).dot(cinv)
    on_face = np.abs(fb - np.round(fb)) <= 1e-6
    if np.any((r != 0) & ~on_face):
        return False, True
    return bool(np.abs((d - r).dot(c)).max() <= tol), bool(np.abs(r).max() > 0)


def _near_mod_lattice(a, b, cell, tol):
    """a is within tol (max-norm) of SOME lattice image of b"""
    import numpy as np
    c = np.array(cell, dtype=float)
    d = (np.array(a, dtype=float) - np.array(b, dtype=float)).dot(np.linalg.inv(c))
    d -= np.round(d)
    return bool(np.abs(d.dot(c)).max() <= tol)


def removal_sets(used_idx, shared, replace_all, r_empty):
    """per replaced match: the atoms that occur only in the search pattern (the atoms the match removes)"""
    keepj = set() if (replace_all or r_empty) else set(shared.values())
    return [set(idx[j] for j in range(len(idx)) if j not in keepj) for idx in used_idx]


def oracle_replace(inp, out):
    """the property on the real result. Returns None or (text, observed)."""
    sj, pj, rj = inp["sj"], inp["pj"], inp["rj"]
    f = inp["f"]
    if out.get("found") is None:
        return "the search inside the replacement raised", out.get("err")
    found = [tuple(t) for t in out["found"][0]]
    M = len(found)
    used = [tuple(u["idx"]) for u in out["used"]]
    if not out["inputs_unchanged"]:
        return "the structure or a pattern handed in was modified by the call", out.get("inputs_changed_fields")
    # "the number found": found with the CALLER's tolerance.  Independent expectation from the construction of the case
    # (copies distorted clearly inside / clearly outside the requested atol, margins >= 2x) ...
    if inp.get("expect"):
        keys = set(tuple(sorted(t)) for t in found)
        for grp in inp["expect"].get("in", []):
            if tuple(grp) not in keys:
                return ("a copy of the search pattern that lies well within the requested tolerance is not among the matches the "
                        "replacement worked on", {"copy": list(grp), "atol": inp["atol"], "matches": sorted(keys),
                                                  "distortion": inp["info"].get("distorted")})
        for grp in inp["expect"].get("out", []):
            if tuple(grp) in keys:
                return ("a copy distorted well beyond the requested tolerance was treated as a match by the replacement",
                        {"copy": list(grp), "atol": inp["atol"], "matches": sorted(keys), "distortion": inp["info"].get("distorted")})
    # ... and the search itself, called with the same structure, pattern, tolerance and hints
    if out.get("find_keys") is not None:
        keys = sorted(tuple(sorted(t)) for t in found)
        if keys != [tuple(k) for k in out["find_keys"]]:
            return ("the matches the replacement worked on are not the matches find_pattern_in_structure reports for the same "
                    "structure, pattern, tolerance and hints", {"replace": keys, "find": out["find_keys"], "atol": inp["atol"]})
    pel, rel = elems_of(pj), elems_of(rj)
    shared = g.shared_pairs(rel, [a["pos"] for a in rj["atoms"]], pel, [a["pos"] for a in pj["atoms"]])
    # which matches were replaced
    sample = out.get("sample")
    if f < 1.0 and sample is None:
        # the recorder did not see the selection: read it off the result (atoms that occur only in the search pattern
        # are gone exactly for the replaced matches)
        dfound = removal_sets(found, shared, inp["replace_all"], not rel)
        if "ok" not in out:
            if all(not (dfound[i] & dfound[j]) for i in range(M) for j in range(i + 1, M)):
                return "replacing found matches none of which share a removed atom raised %s" % out.get("err"), out.get("err")
            return None
        tags = set(a["q"] for a in out["ok"]["atoms"])
        used = []
        for t, d in zip(found, dfound):
            gone = [sj["atoms"][x]["q"] not in tags for x in d]
            if not d:
                return "ambiguous"
            if any(gone) and not all(gone):
                return "a found match was only partly removed", {"match": t}
            if all(gone):
                used.append(t)
    elif f < 1.0:
        if len(set(sample)) != len(sample) or any(not (0 <= i < M) for i in sample):
            return "the selected matches are not distinct found matches", sample
    if any(u not in found for u in used) or len(set(used)) != len(used):
        return "a replaced match is not a (distinct) found match", {"used": used, "found": found}
    k = len(used)
    target = Fraction(f) * M
    if abs(k - target) > Fraction(1, 2) + Fraction(M, 2 ** 50):
        return "number of replaced matches is not a nearest integer to f x found", {"f": f, "found": M, "replaced": k}
    dsets = removal_sets(used, shared, inp["replace_all"], not rel)
    disjoint = all(not (dsets[i] & dsets[j]) for i in range(k) for j in range(i + 1, k))
    if "ok" not in out:
        if disjoint:
            return "replacing matches that remove no atom twice raised %s" % out.get("err"), out.get("err")
        return None        # overlapping removals: the business of C07
    if inp.get("return_num", True) and out["n"] != k:
        return "reported match count differs from the number of matches replaced", {"reported": out["n"], "replaced": k}
    if not disjoint:
        return None
    res = out["ok"]
    sel = Counter(elems_of(sj))
    rres = elems_of(res)
    n_sh = 0 if (inp["replace_all"] or not rel) else len(shared)
    # counts
    want_n = len(sj["atoms"]) + k * (len(rel) - len(pel))
    if len(res["atoms"]) != want_n:
        return "atom count did not change by M x (|replacement| - |search pattern|)", {"got": len(res["atoms"]), "want": want_n, "M": k}
    want_c = Counter(sel)
    for e in pel:
        want_c[e] -= k
    for e in rel:
        want_c[e] += k
    want_c = +want_c
    if Counter(rres) != want_c:
        return "per-element counts did not change by M x the difference of the patterns", {"got": dict(Counter(rres)), "want": dict(want_c)}
    # atom by atom, through the unique charges
    by_tag = {}
    for i, a in enumerate(res["atoms"]):
        by_tag.setdefault(a["q"], []).append(i)
    in_match = set(x for u in used for x in u)
    removed = set().union(*dsets) if dsets else set()
    stags = set()
    for i, a in enumerate(sj["atoms"]):
        stags.add(a["q"])
        hits = by_tag.get(a["q"], [])
        if i in removed:
            if hits:
                return "an atom that occurs only in the search pattern survived the replacement", {"atom": i}
            continue
        if len(hits) != 1:
            return "an atom that is not removed appears %d times in the result" % len(hits), {"atom": i}
        b = res["atoms"][hits[0]]
        same_pos = all(core.close(x, y, 1e-9) for x, y in zip(a["pos"], b["pos"]))
        e0 = sj["types"]["elem"][a["ty"]]
        e1 = res["types"]["elem"][b["ty"]] if b["ty"] < len(res["types"]["elem"]) else None
        if i not in in_match:
            l0, m0 = sj["types"]["label"][a["ty"]], sj["types"]["mass"][a["ty"]]
            l1 = res["types"]["label"][b["ty"]] if b["ty"] < len(res["types"]["label"]) else None
            m1 = res["types"]["mass"][b["ty"]] if b["ty"] < len(res["types"]["mass"]) else None
            if not (same_pos and e0 == e1 and l0 == l1 and m1 is not None and core.close(m0, m1) and a["g"] == b["g"]):
                return ("an atom outside the replaced matches changed (position / element / label / mass / group)",
                        {"atom": i, "before": [a["pos"], e0, l0, m0, a["g"]], "after": [b["pos"], e1, l1, m1, b["g"]]})
        else:
            if not (same_pos and e0 == e1 and a["g"] == b["g"]):
                return ("an atom common to both patterns did not stay where it was",
                        {"atom": i, "before": [a["pos"], e0, a["g"]], "after": [b["pos"], e1, b["g"]]})
    inserted = [i for i, a in enumerate(res["atoms"]) if a["q"] not in stags]
    if len(inserted) != k * (len(rel) - n_sh):
        return "number of inserted atoms is not M x (atoms only in the replacement)", {"inserted": len(inserted), "M": k}
    only_r = Counter(e for i, e in enumerate(rel) if (n_sh == 0 or i not in shared))
    if Counter(rres[i] for i in inserted) != Counter({e: c * k for e, c in only_r.items() if c * k}):
        return "the inserted atoms are not M copies of the atoms that occur only in the replacement", None
    # replace-all mode removes and re-inserts the atoms common to both patterns: they must come back where they were
    # (same element, same place up to the lattice and the search tolerance)
    if inp["replace_all"] and rel and shared and sj.get("cell"):
        cell = [[float(Fraction(v)) for v in row] for row in sj["cell"]]
        tol = 4 * float(inp.get("atol", 0.05)) + 1e-6
        for u in used:
            for kr, kp in shared.items():
                old = sj["atoms"][u[kp]]
                target = [float(Fraction(v)) for v in old["pos"]]
                if not any(rres[i] == rel[kr] and _near_mod_lattice([float(Fraction(v)) for v in res["atoms"][i]["pos"]], target, cell, tol)
                           for i in inserted):
                    return ("an atom common to both patterns did not stay where it was (replace-all re-inserted it elsewhere)",
                            {"match": list(u), "replacement_atom": kr, "expected_at": target})
    return None


def deep_snapshot(obj):
    """every attribute of a real Atoms object, by value (arrays as nested lists, label sets as lists): what must be
    identical before and after a call that promises to leave the object alone"""
    import numpy as np

    def norm(v):
        if isinstance(v, np.ndarray):
            return ["ndarray", list(v.shape), [norm(x) for x in v.tolist()] if v.dtype == object else v.tolist()]
        if isinstance(v, (list, tuple)):
            return [norm(x) for x in v]
        if isinstance(v, dict):
            return {str(k): norm(x) for k, x in v.items()}
        if isinstance(v, (str, int, float, bool)) or v is None:
            return v
        try:
            return [type(v).__name__, [norm(x) for x in v]]        # OrderedSet and other iterables
        except TypeError:
            return repr(v)
    return {k: norm(v) for k, v in vars(obj).items()}


def self_consistent(obj):
    """the object still passes the library's own consistency assertion"""
    try:
        with core.quiet():
            obj.assert_arrays_are_consistent_sizes()
        return True
    except AttributeError:
        return True
    except Exception:
        return False


def run_replace_kw(sj, pj, rj, atol, fraction, replace_all, ignore, hints, seed, return_num, rj_src=None, via_copy=False):
    """findlib.run_replace with `return_num_matches` selectable: with False only the structure comes back
    (out["n"] is then None).  Same recording of the found matches, of the random.sample selection and of
    inputs_unchanged."""
    import random
    import numpy as np
    import mofun.mofun as mm
    s, p = core.atoms_from_json(sj), core.atoms_from_json(pj)
    # an EMPTY replacement that still carries type tables is rebuilt as the real object it stands for
    r = core.atoms_from_json(rj) if rj_src is None else g.empty_by_deletion(rj_src)
    if core.same(core.canon_atoms(r), rj) is not None:
        raise RuntimeError("harness: the rebuilt replacement object is not the one described by the case")
    # the objects handed in may themselves be copies (Atoms.copy()) of objects the caller keeps: neither the copies
    # nor their originals may change
    originals = []
    if via_copy:
        originals = [s, p, r]
        with core.quiet():
            s, p, r = s.copy(), p.copy(), r.copy()
    watched = [s, p, r] + originals
    before = [deep_snapshot(o) for o in watched]
    rec = {}
    real_find, real_sample = mm.find_pattern_in_structure, random.sample

    def find_wrap(*a, **k):
        o = real_find(*a, **k)
        rec["found"] = ([[int(i) for i in t] for t in o[0]], np.array(o[1], dtype=float).tolist(),
                        [[float(x) for x in qq.as_quat()] for qq in o[2]])
        return o

    def sample_wrap(pop, k):
        o = real_sample(pop, k)
        rec["sample"] = list(o)
        return o

    mm.find_pattern_in_structure = find_wrap
    random.sample = sample_wrap
    random.seed(seed)
    np.random.seed(seed % (2 ** 32))
    try:
        res = core.result_of(lambda: mm.replace_pattern_in_structure(
            s, p, r, replace_fraction=fraction, atol=atol, axisp1_idx=hints[0], axisp2_idx=hints[1], opoint_idx=hints[2],
            replace_all=replace_all, ignore_atoms_should_not_be_deleted_twice=ignore, return_num_matches=bool(return_num)))
    finally:
        mm.find_pattern_in_structure = real_find
        random.sample = real_sample
    out = {"found": rec.get("found"), "sample": rec.get("sample"), "n": None}
    if "ok" in res:
        if return_num:
            if isinstance(res["ok"], tuple) and len(res["ok"]) == 2:
                out["ok"] = core.canon_atoms(res["ok"][0])
                out["n"] = int(res["ok"][1])
            else:
                out["err"] = "error:no-match-count-returned-with-return_num_matches"
        elif isinstance(res["ok"], tuple):
            out["err"] = "error:returned-a-tuple-without-return_num_matches"
        else:
            out["ok"] = core.canon_atoms(res["ok"])
    else:
        out["err"] = res["err"]
    out["inputs_unchanged"] = (core.same(core.canon_atoms(s), sj) is None and core.same(core.canon_atoms(p), pj) is None
                               and core.same(core.canon_atoms(r), rj) is None)
    # ... and attribute by attribute (label sets, tables, anything the canonical dump does not show), for the objects
    # handed in and for the objects they were copied from; and they must still be self-consistent
    after = [deep_snapshot(o) for o in watched]
    changed = sorted(set("%s.%s" % (["structure", "search", "replacement", "structure(original of the copy)",
                                     "search(original of the copy)", "replacement(original of the copy)"][i], k)
                         for i, (b, a) in enumerate(zip(before, after)) for k in set(b) | set(a) if b.get(k) != a.get(k)))
    if changed or not all(self_consistent(o) for o in watched):
        out["inputs_unchanged"] = False
        out["inputs_changed_fields"] = changed or ["an input object is no longer self-consistent"]
    if out["found"] is not None:
        idx, pos, quats = out["found"]
        order = out["sample"] if out["sample"] is not None else list(range(len(idx)))
        out["used"] = [{"idx": idx[i], "pos": [[core.q(x) for x in pp] for pp in pos[i]], "quat": [core.q(x) for x in quats[i]]}
                       for i in order]
    return out


def find_keys(inp):
    """the search on its own, with the caller's arguments: sorted atom groups (None when it raises)"""
    import mofun.mofun as mm
    import random as _r
    import numpy as np
    s, p = core.atoms_from_json(inp["sj"]), core.atoms_from_json(inp["pj"])
    h = tuple(inp.get("hints") or (None, None, None))
    _r.seed(inp["seed"])
    np.random.seed(inp["seed"] % (2 ** 32))
    res = core.result_of(lambda: mm.find_pattern_in_structure(s, p, axisp1_idx=h[0], axisp2_idx=h[1], opoint_idx=h[2], atol=inp["atol"]))
    if "ok" not in res:
        return None
    return sorted(sorted(int(i) for i in t) for t in res["ok"])


def np_typed(inp):
    """the same arguments spelled with numpy scalar types (np.float64 fraction / tolerance, np.int64 hints, np.bool_ flags)"""
    import numpy as np
    h = tuple(None if x is None else np.int64(x) for x in (inp.get("hints") or (None, None, None)))
    return dict(atol=np.float64(inp["atol"]), fraction=np.float64(inp["f"]), replace_all=np.bool_(inp["replace_all"]),
                ignore=np.bool_(inp.get("ignore", False)), hints=h)


def real(inp):
    out = _real(inp)
    if inp.get("check_find") or (inp.get("expect") and inp["info"].get("distorted")):
        out["find_keys"] = find_keys(inp)
    return out


def _real(inp):
    if inp.get("np_args"):
        a = np_typed(inp)
        return run_replace_kw(inp["sj"], inp["pj"], inp["rj"], atol=a["atol"], fraction=a["fraction"], replace_all=a["replace_all"],
                              ignore=a["ignore"], hints=a["hints"], seed=inp["seed"], return_num=inp.get("return_num", True),
                              rj_src=inp.get("rj_src"), via_copy=bool(inp.get("via_copy")))
    return run_replace_kw(inp["sj"], inp["pj"], inp["rj"], atol=inp["atol"], fraction=inp["f"], replace_all=inp["replace_all"],
                          ignore=inp.get("ignore", False), hints=tuple(inp.get("hints") or (None, None, None)), seed=inp["seed"],
                          return_num=inp.get("return_num", True), rj_src=inp.get("rj_src"), via_copy=bool(inp.get("via_copy")))


def one(inp):
    out = real(inp)
    return out, oracle_replace(inp, out)


def _worker(inp):
    out, bad = one(inp)
    return out, bad


def tags_of(inp, out):
    i = inp["info"]
    t = ["mode:" + i["mode"], "shared:%s" % ("yes" if i["shared"] else "no"), "cell:" + i["cell"], "pattern:" + i["pattern"],
         "replace_all:%s" % inp["replace_all"], "place:%s" % i.get("boundary"),
         "f:%s" % (inp["f"] if inp["f"] in g.FRACTIONS else "random"),
         "unwrapped-atoms:%s" % ("yes" if i.get("outside") else "no"), "atol:%g" % inp["atol"],
         "hints:%s" % "".join("-" if h is None else "x" for h in (inp.get("hints") or [None] * 3)),
         "return_num_matches:%s" % inp.get("return_num", True), "spare-types:%s" % bool(i.get("spare_types")),
         "empty-kind:%s" % i.get("empty_kind", "-"), "extra-columns:%s" % (i.get("extras") or "none"),
         "inputs-are-copies:%s" % bool(inp.get("via_copy")), "numpy-typed-args:%s" % bool(inp.get("np_args")),
         "patterns-with-cell:%s" % bool(i.get("pattern_cells")), "atomless-structure:%s" % bool(i.get("atomless")),
         "distorted-copies:%s" % (i["distorted"]["regime"] if i.get("distorted") else "no"), "step:%s" % (i.get("step", "single") if i.get("step") != 1 else "1:" + i.get("step1kind", "?"))]
    if i.get("step") == 2:
        t.append("step2-after:" + str(i.get("step1")))
    if out.get("found") is not None:
        t.append("found:%d" % len(out["found"][0]))
        t.append("replaced:%d" % len(out["used"]))
    return t


def impl_result(out):
    return {"ok": out["ok"]} if "ok" in out else {"err": out.get("err")}


def snap(impl, model, cell, ctx, tol=1e-7):
    """positions: an inserted atom that lands on a cell face may be wrapped to either side by the float code; such an
    atom is compared modulo a lattice vector (and counted)"""
    if "ok" not in impl or "ok" not in model or cell is None:
        return impl
    ia, ma = impl["ok"]["atoms"], model["ok"]["atoms"]
    if len(ia) != len(ma):
        return impl
    cellf = [[float(core.unq(v)) for v in row] for row in cell]
    out = dict(impl["ok"])
    out["atoms"] = []
    for a, b in zip(ia, ma):
        pa = [float(core.unq(v)) for v in a["pos"]]
        pb = [float(core.unq(v)) for v in b["pos"]]
        if max(abs(x - y) for x, y in zip(pa, pb)) > tol:
            ok, shifted = lattice_close(pa, pb, cellf, tol)
            if ok and shifted:
                ctx.count("tie:face-wrap-modulo-lattice")
                a = dict(a, pos=b["pos"])
        out["atoms"].append(a)
    return {"ok": out}


def record(ctx, inp, out, bad):
    if bad == "ambiguous":
        ctx.ambiguous += 1
        bad = None
    ctx.case(inp, nontrivial=bool(out.get("used")) and "ok" in out)
    for t in tags_of(inp, out):
        ctx.count(t)
    if "ok" not in out:
        ctx.count("raised:%s" % out.get("err"))
    if bad:
        ctx.fail(bad[0], inp, observed=bad[1], required=REQUIRED, tags=tags_of(inp, out))


def grid_cases(rng, nf=16):
    out = []
    for mode in g.MODES:
        for shared in ((False,) if mode == "empty" else (True, False)):
            for ra in (False, True):
                for kf in range(nf + 1):
                    out.append(g.random_case(rng, mode=mode, shared=shared, f=kf / nf, replace_all=ra))
    return out


def run(ctx, oracle_only=False, scale=1):
    ctx.rule = RULE
    rng = ctx.rng
    inps = [g.random_case(rng) for _ in range(ctx.n(800, 9000) * scale)]
    # every (mode, shared) combination at least a few times, with everything replaced
    for mode in g.MODES:
        for shared in ((False,) if mode == "empty" else (True, False)):
            for ra in (False, True):
                for _ in range(ctx.n(2, 6)):
                    inps.append(g.random_case(rng, mode=mode, shared=shared, f=1.0, replace_all=ra))
    if ctx.tier != "quick":
        inps += grid_cases(rng)
    # two-step histories: step 1 replaces nothing (fraction 0 / absent pattern) or half of the matches, step 2 is an
    # ordinary replacement on the RESULT of step 1, judged by the full oracle relative to its own input
    firsts = [g.first_step(rng) for _ in range(ctx.n(90, 700) * scale)]
    seeds2 = [rng.randrange(1 << 30) for _ in firsts]
    inps += [g.atomless_case(rng) for _ in range(ctx.n(4, 30))]
    # non-default tolerances with copies distorted between 0.05 and atol (resp. between atol and 0.05)
    inps += [g.distorted_case(rng) for _ in range(ctx.n(160, 1200) * scale)]
    pre = []
    for inp1, s2 in zip(firsts, seeds2):
        out1, bad1 = one(inp1)
        pre.append((inp1, (out1, bad1)))
        if bad1 is None and "ok" in out1:
            inps.append(g.second_step(random.Random(s2), inp1, out1["ok"]))
    procs = 1 if len(inps) <= 1500 else max(1, min(8, (os.cpu_count() or 2) // 2))
    if procs > 1:
        with multiprocessing.get_context("fork").Pool(procs) as pool:
            results = pool.map(_worker, inps, chunksize=32)
    else:
        results = [_worker(i) for i in inps]
    ties = []
    for inp, (out, bad) in pre + list(zip(inps, results)):
        record(ctx, inp, out, bad)
        if bad in (None, "ambiguous") and out.get("used") is not None:
            if inp["f"] < 1.0 and out.get("sample") is None:
                if not oracle_only:
                    ctx.compared += 1
                    ctx.disagree("replace", inp, None, None, "the selection of matches (random.sample) was not observable: "
                                 "the model cannot be run on the matches the code used")
                continue
            ties.append((inp, out))
    if oracle_only:
        return
    ties = ties[:ctx.n(1600, 14000)]
    ops = [fl.replace_op(inp["sj"], inp["pj"], inp["rj"], out["used"], inp["replace_all"], inp.get("ignore", False))
           for inp, out in ties]
    models = []
    for i in range(0, len(ops), 400):
        models += ctx.lean.run(ops[i:i + 400])
    for (inp, out), m in zip(ties, models):
        impl = snap(impl_result(out), m, inp["sj"]["cell"], ctx)
        ctx.compare("replace", inp, impl, m, numeric_tol=1e-7)


def search(ctx):
    """real code only, larger budget"""
    run(ctx, oracle_only=True, scale=4 if ctx.tier == "quick" else 1)


def replay(ctx, rec):
    inp = rec.get("input") or rec.get("correspondence", {}).get("input")
    if inp is None:
        return True
    _, bad = one(inp)
    return bad is None or bad == "ambiguous"
