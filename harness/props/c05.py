"""C05 — inserted atoms land where the replacement pattern says, modulo the lattice (replace_pattern_in_structure)."""
import contextlib
import itertools
import random
from fractions import Fraction

import numpy as np

from .. import core, findlib
from .. import gen_replace_c05 as G

RULE = ("[ordinary streams] structures: periodic cells (orthorhombic, triclinic with + and − tilts, arbitrarily rotated) with 1–3 planted, "
        "perturbed (≤ atol/8; in ~45 % of the cases a non-default tolerance 0.1 / 0.2 / 0.01 with copies distorted by up to "
        "0.6·atol, for 0.01 also beyond it — every occurrence an independent search with the SAME tolerance reports must be "
        "the set the replacement works on) copies of a search pattern in random / axis-aligned poses, origins random, face-hugging or "
        "at cell corners, plus decoys; search patterns: all of findlib.PATTERNS (asymmetric, symmetric, planar, collinear, "
        "1–2 atoms, with their long axis along x, y or z; ~12 % of the structures hold UNPERTURBED copies turned by exactly "
        "180°; ~12 % hold copies TILTED out of the pattern's own orientation by 1e-3 rad … 1.3·atol rad, mostly of 6–8 Å "
        "long patterns (angle × lever arm > tolerance although angle[rad] < atol[Å]); ~8 % hold ONE "
        "unperturbed copy whose long axis is (anti)parallel to the pattern's axis up to eps = 1e-9 … 1e-3 rad (turned by eps, "
        "π−eps, π, π+eps about axes perpendicular to it); ~3 % use a straight 10 Å 3-atom pattern next to a BENT group (middle "
        "atom 6–11·atol off the axis, distances within 0.7·atol) that is not an occurrence; ~7 % of the replacement patterns have whole-number coordinates and are CONSTRUCTED from "
        "plain ints (first search atom at a non-integer place); every 15th structure is a STAR: 3–4 occurrences of a two-atom "
        "pattern sharing their first atom, partners numbered in random order, only a fraction of them replaced; ~30 % of the calls pass axis hints axisp1/axisp2 (half of those also an orientation point), "
        "spelled as plain, negative or numpy integers; 2 in 7 cells are spelled with two rows exchanged (left-handed) or one row negated, atoms wrapped into the cell as spelled; in 20 % of the structures the atoms are GIVEN outside the unit cell, "
        "each atom shifted on its own by up to ±2 cells per direction; every 15th case has cell, structure and patterns typed "
        "and constructed with plain ints) given in a shifted frame (first atom not at the origin); replacement patterns derived from them "
        "(all search atoms kept + atoms sticking 3–9 Å out, some kept + new, all new incl. one exactly on the first "
        "search atom, one element substituted, one atom re-placed 0.02–0.09 Å away with the same element, atoms on the pattern axis), every replacement atom tagged by a unique "
        "charge; replace_all on/off; each case is run a second time with search and replacement pattern moved jointly "
        "by a random rigid motion. [HISTORY stream] 40/500 cases: the structure is first searched or replaced, then a second "
        "structure is derived from that object by the library's own operations (replicate, copy + cell scaling / row assignment, "
        "a[idx], extend, copy) and the replacement is done on the derived object — judged by the same image / in-cell oracle and "
        "required to equal the replacement on a fresh object built from the derived structure's dump. "
        "[STORAGE stream] 36/400 cases: the SAME coordinates, but the structure's coordinate array is ASSIGNED by the caller "
        "(structure.positions = array) in another numpy representation holding exactly the same numbers — whole-number "
        "structures (cell, atoms, search pattern typed with ints; replacement atoms mostly at non-integer places) as int64 / "
        "int32 / int16 / float32 / float16 arrays, Fortran-ordered, as a strided view of a larger array or read-only, in a third "
        "of those also the search pattern (and a whole-number replacement pattern) stored as integers; generated float structures "
        "(coordinates rounded to float32 first) as float32, Fortran-ordered, strided or read-only arrays — judged by the same "
        "occurrence / image / in-cell oracle and the joint-motion clause. "
        "[TAGGED stream, known finding collinear-search-pattern-offaxis-replacement] the "
        "identification case (C–O pair, replacement C–O + off-axis S) and 12/150 generated cases with one-atom, two-atom and "
        "collinear search patterns and off-axis replacement atoms, compared under a joint motion INCLUDING the atoms whose place "
        "the match does not determine; attributed to the finding only if the search pattern is degenerate, every differing atom "
        "is an inserted copy of an off-axis replacement atom, and all other atoms agree to 1e-6. Non-trivial = at least one match replaced, at least one atom inserted, and at least "
        "one inserted atom had to be wrapped (its unwrapped image lies outside the cell).")

TIE_TOL = 1e-7


# ------------------------------------------------------------------ helpers (oracle side; numpy only)

def fl(x):
    return float(Fraction(x)) if isinstance(x, str) else float(x)


def quat_R(q):
    x, y, z, w = [float(v) for v in q]
    n = x * x + y * y + z * z + w * w
    return np.array([[w * w + x * x - y * y - z * z, 2 * (x * y - z * w), 2 * (x * z + y * w)],
                     [2 * (x * y + z * w), w * w - x * x + y * y - z * z, 2 * (y * z - x * w)],
                     [2 * (x * z - y * w), 2 * (y * z + x * w), w * w - x * x - y * y + z * z]]) / n


def cell_of(j):
    return np.array([[fl(v) for v in row] for row in j["cell"]])


def positions(j):
    return np.array([[fl(v) for v in a["pos"]] for a in j["atoms"]]).reshape(-1, 3)


def elements(j):
    return [j["types"]["elem"][a["ty"]] for a in j["atoms"]]


def lattice_dist(x, e, cell, cinv):
    """max-norm distance between x and the nearest lattice image of e (via rounding of the fractional difference)"""
    f = (np.asarray(x) - np.asarray(e)).dot(cinv)
    f = f - np.round(f)
    return float(np.abs(f.dot(cell)).max())


def multiset_equal_mod_lattice(a, b, cell, tol):
    """a, b: lists of (element, position). One-to-one pairing with equal element and lattice distance ≤ tol."""
    if len(a) != len(b):
        return "atom counts differ: %d vs %d" % (len(a), len(b))
    cinv = np.linalg.inv(cell)
    free = list(range(len(b)))
    for e, x in a:
        hit = None
        for k in free:
            if b[k][0] == e and lattice_dist(x, b[k][1], cell, cinv) <= tol:
                hit = k
                break
        if hit is None:
            return "no partner for %s at %s" % (e, [round(float(v), 6) for v in x])
        free.remove(hit)
    return None


# ------------------------------------------------------------------ the property, stated on the real result

def independent_find(case, scale=1.0):
    """the occurrences a plain search with the SAME tolerance (times `scale`) reports in the original structure
    (sorted atom index sets)"""
    import random as _random
    import mofun.mofun as mm
    with int_constructed([case["s"], case["p"]] if case.get("int_typed") else []):
        s = core.atoms_from_json(case["s"])
        p = core.atoms_from_json(case["p"])
    _random.seed(case["seed"])
    np.random.seed(case["seed"] % (2 ** 32))
    with core.quiet():
        h = spelled_hints(case) if "p" in case and isinstance(case.get("p"), dict) else (None, None, None)
        found = mm.find_pattern_in_structure(s, p, atol=case["atol"] * scale, axisp1_idx=h[0], axisp2_idx=h[1], opoint_idx=h[2])
    return sorted(tuple(sorted(int(i) for i in t)) for t in found)


def occurrence_bracket(case):
    """(clearly inside, possibly inside): the occurrences at 0.7·atol and at 1.4·atol. A copy whose verdict flips
    between the two is ON the tolerance boundary (its verdict may depend on the pattern's frame: which of two
    equally far atoms becomes the orientation point) and is outside the property's quantifier."""
    return independent_find(case, 0.7), independent_find(case, 1.4)


def oracle_c05(case, out):
    """case: generator dict; out: findlib.run_replace(...) record. Returns (None | text, stats)."""
    stats = {"inserted": 0, "wrapped": 0, "matches": 0}
    if "ok" not in out:
        if out.get("err") == "overlap" and out.get("found"):
            # two found matches share a structure atom: refusing them is the documented behaviour (property C07), not a
            # placement failure; such an input is outside what C05 speaks about
            idx = [set(t) for t in out["found"][0]]
            if any(idx[i] & idx[j] for i in range(len(idx)) for j in range(i + 1, len(idx))):
                stats["overlapping_matches"] = True
                return None, stats
        return "replacement raised %s" % out.get("err"), stats
    if not out.get("inputs_unchanged", True):
        return "replace_pattern_in_structure modified one of its inputs", stats
    # (0) the replacement works on exactly the occurrences that a search with this tolerance reports; with
    #     replace_fraction = 1 every one of them is replaced (and placed: clauses 1, 2), and nothing else
    lo, hi = occurrence_bracket(case)
    key = lambda t: tuple(sorted(int(i) for i in t))
    rep = sorted(key(m["idx"]) for m in (out.get("used") or []))
    seen = sorted(key(t) for t in out["found"][0]) if out.get("found") else rep
    miss = [t for t in lo if t not in seen]
    extra = [t for t in seen if t not in hi]
    if miss:
        return ("a search with atol=%g (even with 0.7·atol) reports the occurrence(s) %s; the replacement (same atol) "
                "considered only %d: %s" % (case["atol"], miss[:4], len(seen), seen[:4])), stats
    if extra:
        return ("the replacement (atol=%g) works on %s, which a search does not report even with 1.4·atol"
                % (case["atol"], extra[:4])), stats
    if case.get("fraction", 1.0) >= 1.0 and [t for t in lo if t not in rep]:
        return ("a search with atol=%g reports %d clear occurrence(s) %s, the replacement (same atol) replaced %d: %s"
                % (case["atol"], len(lo), lo[:4], len(rep), rep[:4])), stats
    if any(r not in hi for r in rep):
        return "replaced a site that is not an occurrence at atol=%g: %s" % (case["atol"], rep[:4]), stats
    res = out["ok"]
    cell = cell_of(case["s"])
    cinv = np.linalg.inv(cell)
    atol = case["atol"]
    P = positions(case["p"])
    Rp = positions(case["r"])
    rel = elements(case["r"])
    tags = case["tags"]
    used = out.get("used") or []
    stats["matches"] = len(used)
    rpos = positions(res)
    rel_res = elements(res)
    rq = [fl(a["q"]) for a in res["atoms"]]
    ins_k = [k for k in range(len(Rp)) if case["replace_all"] or case["shared"][k] is None]
    # (1) every inserted atom (recognised by its tag) lies inside the unit cell
    by_tag = {k: [] for k in ins_k}
    for i, c in enumerate(rq):
        for k in ins_k:
            if c == tags[k]:
                by_tag[k].append(i)
                f = rpos[i].dot(cinv)
                if f.min() < -1e-9 or f.max() > 1 + 1e-9:
                    return ("inserted atom %d (replacement atom %d) has fractional coordinates %s outside [0,1]"
                            % (i, k, [round(float(v), 9) for v in f])), stats
                if rel_res[i] != rel[k]:
                    return "inserted atom %d has element %s, the replacement pattern says %s" % (i, rel_res[i], rel[k]), stats
    for k in ins_k:
        if len(by_tag[k]) != len(used):
            return ("replacement atom %d was inserted %d times for %d replaced matches" % (k, len(by_tag[k]), len(used))), stats
    stats["inserted"] = len(ins_k) * len(used)
    # (2) per match: matched ∪ inserted = one proper rigid image R(x − P[0]) + t of search ∪ replacement coordinates
    expected = {k: [] for k in ins_k}
    for m in used:
        R = quat_R([fl(v) for v in m["quat"]])
        if abs(np.linalg.det(R) - 1) > 1e-9 or np.abs(R.dot(R.T) - np.eye(3)).max() > 1e-9:
            return "the reported rotation is not a proper rotation", stats
        mp = np.array([[fl(v) for v in p] for p in m["pos"]])
        img = (P - P[0]).dot(R.T)
        t = (mp - img).mean(axis=0)                      # best translation for this rotation
        scale = float(np.abs(img + t).max()) if len(img) else 0.0
        bound = 4 * (atol + 1e-5 * scale) + 1e-6
        dev = float(np.abs(mp - (img + t)).max())
        if dev > bound:
            return "matched atoms deviate by %.3g from the rigid image of the search pattern (bound %.3g)" % (dev, bound), stats
        # matched positions are images of the atoms the match names
        spos = positions(case["s"])
        for k2, i in enumerate(m["idx"]):
            if lattice_dist(mp[k2], spos[i], cell, cinv) > 1e-6:
                return "reported position of matched atom %d is not a lattice image of that atom" % i, stats
        for k in ins_k:
            e = (Rp[k] - P[0]).dot(R.T) + t
            expected[k].append((e, bound))
            f = e.dot(cinv)
            if f.min() < 0 or f.max() >= 1:
                stats["wrapped"] += 1
        # retained atoms (shared between the patterns) are still where they were
        if not case["replace_all"]:
            for k, j in enumerate(case["shared"]):
                if j is not None:
                    i = m["idx"][j]
                    ok = any(rel_res[a] == rel[k] and lattice_dist(rpos[a], spos[i], cell, cinv) <= 1e-9 for a in range(len(rpos)))
                    if not ok:
                        return "retained atom (structure atom %d) is no longer at its position" % i, stats
    # one-to-one assignment of the inserted atoms with tag k to the expected images of the matches
    for k in ins_k:
        atoms_k = by_tag[k]
        exp_k = expected[k]
        ok = False
        for perm in itertools.permutations(range(len(atoms_k))):
            if all(lattice_dist(rpos[atoms_k[perm[mi]]], exp_k[mi][0], cell, cinv) <= exp_k[mi][1] for mi in range(len(exp_k))):
                ok = True
                break
        if not ok:
            d = [min(lattice_dist(rpos[a], e, cell, cinv) for a in atoms_k) for e, _ in exp_k] if atoms_k else []
            return ("inserted copies of replacement atom %d are not at R·(Rp[%d] − P[0]) + t modulo the lattice: nearest "
                    "distances %s, bound %.3g" % (k, k, [round(x, 4) for x in d], exp_k[0][1] if exp_k else 0)), stats
    return None, stats


def oracle_joint(case, out, out2, motion):
    """moving both patterns by one rigid motion does not change the result (atoms whose placement the match does not
    determine — off-axis atoms for collinear search patterns — are left out)"""
    if ("ok" in out) != ("ok" in out2):
        return "moved patterns: one run succeeded, the other raised (%s / %s)" % (out.get("err"), out2.get("err"))
    if "ok" not in out:
        return None
    if [m["idx"] for m in out["used"]] != [m["idx"] for m in out2["used"]]:
        key = lambda o: sorted(tuple(sorted(m["idx"])) for m in o["used"])
        if key(out) != key(out2) and case["info"].get("distorted", "none") == "none" and case.get("fraction", 1.0) >= 1.0:
            # copies well inside the tolerance: the SET of replaced occurrences may not depend on the pose of the patterns
            return "moved patterns: other occurrences are replaced (%s vs %s)" % (key(out)[:4], key(out2)[:4])
        return "skip"                     # a different numbering was chosen among symmetric candidates
    pname = case["info"]["pattern"]
    pure = motion["q"] == [0, 0, 0, 1]
    det = G.determined(pname, positions(case["p"]), positions(case["r"]), pure)
    drop = {case["tags"][k] for k in range(len(det)) if not det[k]}
    cell = cell_of(case["s"])

    def view(res):
        el = elements(res)
        ps = positions(res)
        return [(el[i], ps[i]) for i, a in enumerate(res["atoms"]) if fl(a["q"]) not in drop]
    tol = 1e-6
    if case["info"].get("flip"):
        # copy axis (anti)parallel to the pattern axis up to eps: the angle comes from arccos near ±1, whose error is about
        # sqrt(machine epsilon) ≈ 1.5e-8 rad; times the lever arm of a far replacement atom this exceeds 1e-6 but not 2e-5
        tol = 2e-5
    if any(v is not None for v in (case.get("hints") or [])):
        # with caller-chosen axis points the remaining choices (second axis point, orientation point) can be TIES that
        # rounding breaks differently for the moved pattern; the two frames then differ by the copy's own deviation from
        # the pattern (times the lever arm of the replacement atoms): equal only within a bound proportional to the
        # tolerance — and not comparable at all when the copies were distorted on purpose
        if case["info"].get("distorted", "none") != "none":
            return "skip"
        P, Rp = positions(case["p"]), positions(case["r"])
        dd = [float(np.linalg.norm(a - b)) for i, a in enumerate(P) for b in P[i + 1:]]
        lmin = min([d for d in dd if d > 1e-9] or [1.0])
        reach = float(max(np.linalg.norm(x - P[0]) for x in Rp)) if len(Rp) else 0.0
        tol = 4 * (case["atol"] + 1e-5 * float(np.abs(cell).sum())) * (1 + reach / lmin) + 1e-6
    return multiset_equal_mod_lattice(view(out["ok"]), view(out2["ok"]), cell, tol)


# ------------------------------------------------------------------ histories: replace on a structure DERIVED from a used one

@contextlib.contextmanager
def object_for(sj, obj):
    """while active, core.atoms_from_json(sj) hands out the given (already used) object instead of a fresh one"""
    real = core.atoms_from_json
    core.atoms_from_json = lambda j: obj if j is sj else real(j)
    try:
        yield
    finally:
        core.atoms_from_json = real


def history_case(rng, tier):
    """a structure is searched / replaced, then a second structure is derived from it by the library's own operations
    (replicate, copy + cell edit, a[idx], extend) and the replacement is done THERE"""
    case = G.make_case(rng, tier, boundary=rng.choice([None, None, True]), hints=(None, None, None), int_rp=False,
                       distort=False, exact=False, tilt=False, flip=False, bent=False, unwrap=False, cellvar="")
    n = len(case["s"]["atoms"])
    kind = rng.choice(["replicate", "replicate", "replicate", "cell-scale", "cell-row", "slice", "extend", "copy"])
    h = {"prime": rng.choice(["find", "find", "replace", "find-other-pattern"]), "derive": kind}
    if kind == "replicate":
        h["dims"] = rng.choice([[2, 1, 1], [1, 2, 1], [1, 1, 2], [2, 1, 2], [2, 2, 1], [1, 2, 2]])
    elif kind == "cell-scale":
        h["factor"] = rng.choice([1.25, 1.5, 2.0])
    elif kind == "cell-row":
        h["row"], h["factor"] = rng.randrange(3), rng.choice([1.5, 2.0])
    elif kind == "slice":
        idx = list(range(n))
        if rng.random() < 0.5:
            rng.shuffle(idx)
        h["idx"] = idx
    elif kind == "extend":
        h["pos"] = [G.dyad(rng, 0, 6) for _ in range(3)]
    case["history"] = h
    return case


def run_history(case):
    """returns (case on the derived structure, result of the replacement on the DERIVED OBJECT, result on a fresh object
    built from the derived structure's canonical dump)"""
    import mofun.mofun as mm
    from mofun import Atoms
    h = case["history"]
    s0 = core.atoms_from_json(case["s"])
    p = core.atoms_from_json(case["p"])
    r = core.atoms_from_json(case["r"])
    random.seed(case["seed"])
    np.random.seed(case["seed"] % (2 ** 32))
    with core.quiet():
        if h["prime"] == "find":
            mm.find_pattern_in_structure(s0, p, atol=case["atol"])
        elif h["prime"] == "replace":
            mm.replace_pattern_in_structure(s0, p, r, atol=case["atol"])
        else:
            mm.find_pattern_in_structure(s0, Atoms(elements=["H"], positions=[(0.0, 0.0, 0.0)]), atol=case["atol"])
        k = h["derive"]
        if k == "replicate":
            s1 = s0.replicate(repldims=tuple(h["dims"]))
        elif k == "cell-scale":
            s1 = s0.copy()
            s1.cell = s1.cell * h["factor"]
        elif k == "cell-row":
            s1 = s0.copy()
            s1.cell[h["row"]] = s1.cell[h["row"]] * h["factor"]
        elif k == "slice":
            s1 = s0[list(h["idx"])]
        elif k == "extend":
            s1 = s0.copy()
            s1.extend(Atoms(elements=["He"], positions=[tuple(h["pos"])]))
        else:
            s1 = s0.copy()
    sj1 = core.canon_atoms(s1)
    case1 = dict(case, s=sj1)
    with object_for(sj1, s1):
        out_hist = run_real(case1)
    out_fresh = run_real(case1)
    return case1, out_hist, out_fresh


def check_history(ctx, case):
    try:
        case1, out_hist, out_fresh = run_history(case)
    except Exception as e:  # noqa: a derivation that raises is a failure of the sequence
        ctx.case(case, nontrivial=False)
        ctx.fail("history %s raised %s: %s" % (case["history"], type(e).__name__, str(e)[:120]), case, observed=None,
                 required="derived structure can be searched and replaced", tags=["c05", "history"])
        return
    bad, stats = oracle_c05(case1, out_hist)
    ctx.case(case, nontrivial=(bad is None and stats["matches"] > 0 and stats["inserted"] > 0))
    ctx.count("history")
    ctx.count("history:%s-then-%s" % (case["history"]["prime"], case["history"]["derive"]))
    if bad is None:
        a = {"ok": out_hist["ok"]} if "ok" in out_hist else {"err": out_hist.get("err")}
        b = {"ok": out_fresh["ok"]} if "ok" in out_fresh else {"err": out_fresh.get("err")}
        d = core.same(a, b, tol=1e-9)
        if d is None and [m["idx"] for m in (out_hist.get("used") or [])] != [m["idx"] for m in (out_fresh.get("used") or [])]:
            d = "other occurrences replaced"
        if d:
            bad = "the replacement on the derived object differs from the replacement on a fresh copy of the same structure: " + d
    if bad:
        ctx.fail("after %s on the parent and %s: %s" % (case["history"]["prime"], case["history"]["derive"], bad), case,
                 observed={"n": out_hist.get("n"), "n_fresh": out_fresh.get("n")},
                 required="C05 image / in-cell oracle on the derived structure, equal to a fresh evaluation", tags=["c05", "history"])


# ------------------------------------------------------------------ KNOWN FINDING: collinear search pattern, off-axis replacement

FINDING_OFFAXIS = "collinear-search-pattern-offaxis-replacement"


def pattern_is_degenerate(P):
    """fewer than three atoms, or all atoms on one line"""
    P = np.asarray(P, dtype=float)
    if len(P) < 3:
        return True
    i, j = max(((a, b) for a in range(len(P)) for b in range(len(P))), key=lambda ab: np.linalg.norm(P[ab[0]] - P[ab[1]]))
    u = P[j] - P[i]
    if np.linalg.norm(u) < 1e-12:
        return True
    return all(np.linalg.norm(np.cross(x - P[i], u)) / np.linalg.norm(u) < 1e-9 for x in P)


def oracle_joint_all_atoms(case, out, out2, motion):
    """the joint-motion clause taken literally, INCLUDING the replacement atoms whose placement the match does not
    determine. Returns None (agrees) | ("finding", text, observed) | ("violation", text)."""
    base = oracle_joint(case, out, out2, motion)
    if base == "skip":
        return None
    if base:
        return ("violation", base)            # determined atoms already disagree: the ordinary failure
    if "ok" not in out:
        return None
    cell = cell_of(case["s"])

    def view(res):
        el, ps = elements(res), positions(res)
        return [(el[i], ps[i], fl(a["q"])) for i, a in enumerate(res["atoms"])]
    va, vb = view(out["ok"]), view(out2["ok"])
    cinv = np.linalg.inv(cell)
    free = list(range(len(vb)))
    lonely = []
    for e, x, q in va:
        hit = next((k for k in free if vb[k][0] == e and lattice_dist(x, vb[k][1], cell, cinv) <= 1e-6), None)
        if hit is None:
            lonely.append((e, x, q))
        else:
            free.remove(hit)
    if not lonely and not free:
        return None
    P, Rp = positions(case["p"]), positions(case["r"])
    pure = motion["q"] == [0, 0, 0, 1]
    det = G.determined(case["info"]["pattern"], P, Rp, pure)
    undet_tags = {case["tags"][k] for k in range(len(det)) if not det[k]}
    differing = [q for _, _, q in lonely] + [vb[k][2] for k in free]
    # exactly the finding: degenerate search pattern, every differing atom is an inserted copy of a replacement atom that lies
    # OFF the pattern's axis (resp. off the single site), everything else — bystanders, matched, on-axis atoms — agrees
    if pattern_is_degenerate(P) and differing and all(q in undet_tags for q in differing):
        ks = sorted({case["tags"].index(q) for q in differing})
        return ("finding", "joint rigid motion of both patterns moves the inserted copies of the off-axis replacement atom(s) %s "
                "(search pattern %s has %d atom(s), all on one line): their place is not determined by the match"
                % (ks, case["info"]["pattern"], len(P)),
                {"differing_replacement_atoms": ks, "determined_atoms_agree": True,
                 "example": [[e, [round(float(v), 4) for v in x]] for e, x, _ in lonely[:2]]})
    return ("violation", "joint rigid motion changes atoms whose place the match determines: charges %s" % differing[:4])


def canonical_offaxis_case():
    """the identification snippet of the finding: C–O pair along z, replacement C–O + S off the axis"""
    cell = [[12.0, 0, 0], [0, 12.0, 0], [0, 0, 12.0]]
    sj = findlib.struct_json(["C", "O", "H"], [[5.0, 5, 5], [5.0, 5, 6.25], [9.0, 9, 9]], cell, charges=[1 / 16, 2 / 16, 3 / 16])
    pj = G.pattern_atoms_json(["C", "O"], [[0.0, 0, 0], [1.25, 0, 0]])
    rj = G.pattern_atoms_json(["C", "O", "S"], [[0.0, 0, 0], [1.25, 0, 0], [0.5, 1.5, 0]], charges=[100.5, 101.5, 102.5])
    return {"op": "c05", "hints": [None, None, None], "int_rp": False, "s": sj, "p": pj, "r": rj, "atol": 0.05,
            "replace_all": False, "seed": 0, "shared": [0, 1, None], "tags": [100.5, 101.5, 102.5],
            "motion": {"q": [1, -2, 1, 3], "t": [1.5, -2.0, 0.25]}, "offaxis_stream": True,
            "info": {"cell": "ortho", "pattern": "pair", "boundary": "None", "rp": "keep_all+offaxis", "copies": 1, "decoys": [],
                     "atol": 0.05, "distorted": "none", "exact180": False, "tilt_over_atol": [], "flip": None,
                     "bent_decoy_h_over_atol": None}}


def offaxis_case(rng, tier):
    pname = rng.choice(["single", "pair", "pair@y", "pair@z", "collinear3", "collinear_asym", "collinear_asym@y", "collinear_asym@z"])
    case = G.make_case(rng, tier, pname=pname, rp_kind=rng.choice(["keep_all+far", "all_new", "keep_some+new"]),
                       hints=(None, None, None), distort=False, exact=False, tilt=False, flip=False, bent=False, int_rp=False)
    case["motion"] = G.rand_motion(rng)
    case["offaxis_stream"] = True
    return case


def check_offaxis(ctx, case):
    out = run_real(case)
    bad, stats = oracle_c05(case, out)
    ctx.case(case, nontrivial=(bad is None and stats["matches"] > 0 and stats["inserted"] > 0))
    ctx.count("offaxis-stream")
    if bad:
        ctx.fail(bad, case, observed={"err": out.get("err")}, required="C05 image / in-cell oracle", tags=["c05"])
        return
    out2 = run_real(case, case["motion"])
    r = oracle_joint_all_atoms(case, out, out2, case["motion"])
    if r is None:
        ctx.count("offaxis-stream:agrees")
    elif r[0] == "finding":
        ctx.count("offaxis-stream:pose-dependent")
        ctx.fail(r[1], case, observed=r[2], required="same multiset of (element, position mod lattice) for ALL atoms",
                 tags=["c05", "joint", FINDING_OFFAXIS])
    else:
        ctx.fail("joint rigid motion of both patterns changes the result: " + r[1], case, observed=None,
                 required="same multiset of (element, position mod lattice) within 1e-6", tags=["c05", "joint"])


# ------------------------------------------------------------------ tie: real end-to-end vs. model

def tie(ctx, inp, op, out, model):
    ctx.compared += 1
    impl = {"ok": out["ok"]} if "ok" in out else {"err": out["err"]}
    if "ok" not in impl or "ok" not in model:
        d = core.same(impl, model)
        if d:
            ctx.disagree("replace", inp, impl, model, d)
        return
    a, b = impl["ok"], model["ok"]

    def strip(j):
        k = dict(j)
        k["atoms"] = [{kk: vv for kk, vv in r.items() if kk != "pos"} for r in j["atoms"]]
        return k
    d = core.same(strip(a), strip(b), tol=TIE_TOL)
    if d:
        ctx.disagree("replace", inp, impl, model, d)
        return
    cell = cell_of(inp["s"])
    cinv = np.linalg.inv(cell)
    amb = False
    for i, (ra, rb) in enumerate(zip(a["atoms"], b["atoms"])):
        x = np.array([fl(v) for v in ra["pos"]])
        y = np.array([fl(v) for v in rb["pos"]])
        if np.abs(x - y).max() <= TIE_TOL:
            continue
        f = x.dot(cinv)
        on_face = np.minimum(np.abs(f), np.abs(f - 1)).min() <= 1e-7
        if lattice_dist(x, y, cell, cinv) <= TIE_TOL and on_face:
            amb = True            # a coordinate on a cell face: floor of 1 − 1e-17 vs. 1 differs by one lattice vector
            continue
        ctx.disagree("replace", inp, impl, model, "/atoms[%d]/pos: %s vs %s" % (i, list(x), list(y)))
        return
    if amb:
        ctx.ambiguous += 1


# ------------------------------------------------------------------ running

def all_integer(j):
    vals = [v for r in j["atoms"] for v in r["pos"]] + [v for row in (j.get("cell") or []) for v in row]
    return all(Fraction(v).denominator == 1 for v in vals)


def atoms_with_int_positions(j):
    """a term-free structure / pattern built the way a user types it: coordinates (and cell rows) as plain Python ints"""
    from mofun import Atoms
    rows = j["atoms"]
    ty = j["types"]
    ints = [tuple(int(Fraction(v)) for v in r["pos"]) for r in rows]
    kw = {}
    if j.get("cell") is not None:
        kw["cell"] = [[int(Fraction(v)) for v in row] for row in j["cell"]]
    with core.quiet():
        return Atoms(atom_types=[r["ty"] for r in rows], positions=ints, charges=[float(Fraction(r["q"])) for r in rows],
                     groups=[r["g"] for r in rows], atom_type_elements=list(ty["elem"]), atom_type_labels=list(ty["label"]),
                     atom_type_masses=[float(Fraction(m)) for m in ty["mass"]], **kw)


@contextlib.contextmanager
def int_constructed(jsons):
    """while active, the listed canonical-JSON objects (those with whole-number coordinates and no terms) are built from
    plain ints instead of floats by everything that goes through core.atoms_from_json"""
    real = core.atoms_from_json
    chosen = [j for j in jsons if all_integer(j) and not any(j["terms"][k] for k in j["terms"])]
    core.atoms_from_json = lambda j: atoms_with_int_positions(j) if any(j is c for c in chosen) else real(j)
    try:
        yield
    finally:
        core.atoms_from_json = real


def spelled_hints(case):
    """the axis / orientation hints as the case spells them: plain ints, negative indices, or numpy integers"""
    h = list(case.get("hints") or [None, None, None])
    n = len(case["p"]["atoms"])
    sp = case.get("hint_spelling", "plain")
    if sp == "negative":
        h = [None if v is None else v - n for v in h]
    elif sp == "numpy":
        h = [None if v is None else np.int64(v) for v in h]
    return tuple(h)


STORAGE_WHOLE = ["int64", "int64", "int32", "int32", "int16", "float32", "float16", "fortran", "strided", "readonly"]
STORAGE_FLOAT = ["float32", "float32", "fortran", "strided", "readonly"]


def stored(a, kind):
    """the same numbers in another numpy representation (raises if `kind` cannot hold them exactly)"""
    a = np.asarray(a)
    if kind in ("int64", "int32", "int16", "float32", "float16"):
        b = a.astype(kind)
    elif kind == "fortran":
        b = np.asfortranarray(a.astype(float))
    elif kind == "strided":
        big = np.full((2 * len(a) + 1, 7), 1e300)
        big[1::2, 1::2] = a
        b = big[1::2, 1::2]
    elif kind == "readonly":
        b = a.astype(float)
        b.setflags(write=False)
    else:
        raise ValueError("unknown storage %r" % (kind,))
    if b.shape != a.shape or not np.array_equal(b.astype(float), a.astype(float)):
        raise ValueError("storage %s does not hold the coordinates exactly" % kind)
    return b


@contextlib.contextmanager
def stored_as(pairs):
    """pairs: [(canonical JSON, storage kind)]. While active, the objects built for these JSONs get their coordinate
    array re-assigned by the caller (obj.positions = <the same numbers in that representation>)."""
    pairs = [(j, k) for j, k in pairs if k]
    real = core.atoms_from_json

    def build(j):
        obj = real(j)
        for jj, kind in pairs:
            if j is jj and len(obj) > 0:
                obj.positions = stored(obj.positions, kind)
        return obj
    core.atoms_from_json = build
    try:
        yield
    finally:
        core.atoms_from_json = real


def storage_case(rng, tier):
    """the structure's coordinates are handed over as an array the CALLER assigned (another dtype / memory layout, same numbers)"""
    if rng.random() < 0.6:
        # whole-number structure: representable in integer arrays; replacement atoms at non-integer places in 3 of 4 cases
        for _ in range(4):
            case = G.make_int_case(rng, tier)
            if not case["int_rp"]:
                break
        kind = rng.choice(STORAGE_WHOLE)
        if kind.startswith("int") and rng.random() < 0.34:
            case["p_storage"] = kind           # the patterns are whole-number too: stored alike (replacement only if whole-number)
    else:
        case = G.make_case(rng, tier, boundary=rng.choice([None, True, "corner"]), hints=(None, None, None), int_rp=False,
                           distort=False, exact=False, tilt=False, flip=False, bent=False)
        kind = rng.choice(STORAGE_FLOAT)
        if kind == "float32":
            sj = dict(case["s"])
            sj["atoms"] = [dict(a, pos=[core.q(float(np.float32(fl(v)))) for v in a["pos"]]) for a in sj["atoms"]]
            case["s"] = sj
    case["s_storage"] = kind
    return case


def run_real(case, motion=None):
    pj, rj = case["p"], case["r"]
    if motion is not None:
        pj, rj = G.move_pattern_json(pj, motion), G.move_pattern_json(rj, motion)
    ints = []
    if case.get("int_rp") and motion is None:
        ints.append(rj)                      # the replacement pattern enters through the constructor with integer-typed coordinates
    if case.get("int_typed"):
        ints += [case["s"]] + ([pj] if motion is None else [])
    store = [(case["s"], case.get("s_storage"))]
    if case.get("p_storage") and motion is None:
        store += [(j, case["p_storage"]) for j in (pj, rj) if all_integer(j)]
    try:
        with int_constructed(ints), stored_as(store):
            return findlib.run_replace(case["s"], pj, rj, atol=case["atol"], replace_all=case["replace_all"], seed=case["seed"],
                                       fraction=case.get("fraction", 1.0), hints=spelled_hints(case))
    except (ValueError, OverflowError) as e:      # the result cannot be canonicalised: NaN / inf coordinates
        return {"err": "error:non-finite-result (%s)" % (str(e)[:60],), "used": None, "inputs_unchanged": True}


def check_case(ctx, case, with_joint=True):
    """runs the real code on one case, applies the oracles; returns (out, op | None)"""
    out = run_real(case)
    bad, stats = oracle_c05(case, out)
    info = case["info"]
    ctx.case(case, nontrivial=(bad is None and stats["matches"] > 0 and stats["inserted"] > 0 and stats["wrapped"] > 0))
    for key in ("cell", "pattern", "boundary", "rp"):
        ctx.count("%s:%s" % (key, info[key]))
    ctx.count("atol:%g" % case["atol"])
    ctx.count("hints:%s" % ("none" if not any(v is not None for v in (case.get("hints") or [])) else "given"))
    ctx.count("exact180:%s" % info.get("exact180", False))
    ctx.count("tilted:%s" % bool(info.get("tilt_over_atol")))
    ctx.count("int-typed-replacement:%s" % bool(case.get("int_rp")))
    ctx.count("star:%s" % bool(info.get("star")))
    ctx.count("cell-spelling:%s" % (info.get("cellvar") or "standard"))
    ctx.count("unwrapped:%s" % bool(info.get("unwrapped")))
    ctx.count("int-typed-structure+pattern+cell:%s" % bool(case.get("int_typed")))
    ctx.count("hint-spelling:%s" % case.get("hint_spelling", "plain"))
    ctx.count("structure-coordinates-stored-as:%s" % (case.get("s_storage") or "float64 (constructor)"))
    ctx.count("pattern-coordinates-stored-as:%s" % (case.get("p_storage") or "float64 (constructor)"))
    ctx.count("opoint-hint:%s" % ((case.get("hints") or [None] * 3)[2] is not None))
    ctx.count("flip:%s" % (str(info.get("flip")).split("(")[0]))
    ctx.count("bent-decoy:%s" % (info.get("bent_decoy_h_over_atol") is not None))
    ctx.count("distorted:%s" % info.get("distorted", "none"))
    ctx.count("matches:%d" % min(stats["matches"], 4))
    ctx.count("replace_all:%s" % case["replace_all"])
    ctx.count("fraction:%s" % case.get("fraction", 1.0))
    if stats["wrapped"]:
        ctx.count("wrapped-insertions", stats["wrapped"])
    if bad:
        ctx.fail(bad, case, observed={"err": out.get("err"), "n": out.get("n")}, required="C05 image / in-cell oracle",
                 tags=["c05", "cell:" + info["cell"]])
    elif with_joint:
        pname = info["pattern"]
        pure = len(case["p"]["atoms"]) == 1 and ctx.rng.random() < 0.5
        motion = G.rand_motion(ctx.rng, pure_translation=pure)
        out2 = run_real(case, motion)
        jb = oracle_joint(case, out, out2, motion)
        if jb == "skip":
            ctx.count("joint:skipped (different symmetric numbering, or hints on distorted copies)")
        else:
            ctx.count("joint:compared")
            if jb:
                jc = dict(case)
                jc["motion"] = motion
                ctx.fail("joint rigid motion of both patterns changes the result: " + jb, jc,
                         observed=None, required="same multiset of (element, position mod lattice) within 1e-6",
                         tags=["c05", "joint", "pattern:" + pname])
    op = None
    if out.get("used") is not None:
        op = findlib.replace_op(case["s"], case["p"], case["r"], out["used"], replace_all=case["replace_all"])
    return out, op


def stratified(ctx, count):
    """cases covering cell kinds × boundary placements × patterns evenly, then random ones"""
    rng = ctx.rng
    cells = ["ortho", "tri+", "tri-", "rot"]
    bnds = [None, True, "corner"]
    pats = list(findlib.PATTERNS)
    out = []
    i = 0
    while len(out) < count:
        out.append(G.make_case(rng, ctx.tier, cell_kind=cells[i % 4], boundary=bnds[(i // 4) % 3],
                               pname=pats[(i // 2) % len(pats)] if i % 3 else None))
        # a quarter of the cases replace only a random part of the matches: the rotation used for each inserted copy
        # must be the one of the match it is inserted for
        if i % 4 == 3:
            out[-1]["fraction"] = rng.choice([0.5, 0.75, 0.34, 0.6])
        if i % 15 == 7 and len(out) < count:
            out.append(G.make_star_case(rng, ctx.tier))     # occurrences sharing their first atom, part of them replaced
        if i % 15 == 11 and len(out) < count:
            out.append(G.make_int_case(rng, ctx.tier))      # cell, structure and patterns typed with whole numbers
        i += 1
    return out


def run(ctx, oracle_only=False):
    ctx.rule = RULE
    cases = stratified(ctx, ctx.n(360, 6000))
    ops, outs, inps = [], [], []
    for case in cases:
        out, op = check_case(ctx, case)
        if op is not None and not oracle_only:
            ops.append(op)
            outs.append(out)
            inps.append(case)
    # histories: the replacement is done on a structure derived (by the library) from one that was already searched / replaced
    for _ in range(ctx.n(40, 500)):
        check_history(ctx, history_case(ctx.rng, ctx.tier))
    # tagged stream (known finding): the joint-motion clause taken literally for degenerate search patterns
    check_offaxis(ctx, canonical_offaxis_case())
    for _ in range(ctx.n(12, 150)):
        check_offaxis(ctx, offaxis_case(ctx.rng, ctx.tier))
    # storage stream: the structure's coordinate array was assigned by the caller in another dtype / memory layout
    for _ in range(ctx.n(36, 400)):
        case = storage_case(ctx.rng, ctx.tier)
        out, op = check_case(ctx, case)
        ctx.count("storage-stream")
        if op is not None and not oracle_only:
            ops.append(op)
            outs.append(out)
            inps.append(case)
    if oracle_only or not ops:
        return
    models = []
    step = 400
    for k in range(0, len(ops), step):
        models += ctx.lean.run(ops[k:k + step])
    for case, op, out, m in zip(inps, ops, outs, models):
        tie(ctx, case, op, out, m)


def search(ctx):
    saved = ctx.tier
    ctx.tier = "thorough"
    try:
        rng = ctx.rng
        for case in stratified(ctx, 1500):
            check_case(ctx, case)
            if ctx.failures:
                return
        # tilted cells, boundary placements, long replacement arms: where a wrong wrap shows
        for _ in range(400):
            check_history(ctx, history_case(rng, "thorough"))
            if ctx.failures:
                return
        for _ in range(400):
            check_case(ctx, storage_case(rng, "thorough"))
            if ctx.failures:
                return
        for _ in range(1500):
            case = G.make_case(rng, "thorough", cell_kind=rng.choice(["tri+", "tri-", "rot"]), boundary="corner",
                               rp_kind=rng.choice(["keep_all+far", "all_new"]))
            check_case(ctx, case)
            if ctx.failures:
                return
    finally:
        ctx.tier = saved


def replay(ctx, rec):
    case = rec["input"]
    if case.get("history"):
        case1, out_hist, out_fresh = run_history(case)
        bad, _ = oracle_c05(case1, out_hist)
        if bad:
            return False
        a = {"ok": out_hist["ok"]} if "ok" in out_hist else {"err": out_hist.get("err")}
        b = {"ok": out_fresh["ok"]} if "ok" in out_fresh else {"err": out_fresh.get("err")}
        return core.same(a, b, tol=1e-9) is None
    motion = case.get("motion")
    out = run_real(case)
    bad, _ = oracle_c05(case, out)
    if bad:
        return False
    if motion is not None:
        out2 = run_real(case, motion)
        if case.get("offaxis_stream"):
            return oracle_joint_all_atoms(case, out, out2, motion) is None
        jb = oracle_joint(case, out, out2, motion)
        if jb and jb != "skip":
            return False
    return True
