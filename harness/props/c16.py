"""C16 — CML molecules load faithfully (Atoms.load_cml, Atoms.load(path), Atoms.load(file, filetype="cml"))."""
import io
import os
import pathlib
import tempfile
from fractions import Fraction
from xml.sax.saxutils import quoteattr

from .. import core

RULE = ("generated CML documents of the Avogadro flavour written as REAL XML files: 1…40 atoms, 1…5 distinct elements "
        "drawn from the whole mass table (repeated, so that type ids by first occurrence matter); id schemes: sequential "
        "a1…an, the same ids shuffled / reversed / offset, arbitrary strings (digits only, punctuation, XML-escaped "
        "characters, non-ASCII); bond lists: empty (with an empty <bondArray/> or without the element), sparse, dense, "
        "with repeated bonds; coordinates of any sign and magnitude (0, ±tiny, ±huge, dyadic, random) written with repr; "
        "layout variations (XML declaration, extra attributes, attribute order, wrapping <cml> element, indentation, a foreign "
        "propertyList element); NAMESPACE layouts: none, default xmlns (Open Babel), default + the xmlns:cml/units/xsd/iupac "
        "declarations of Avogadro 2, cml: prefix on every element, prefix on the atom entries only, a default namespace "
        "scoped to <atomArray>, a non-CML default namespace. "
        "Each file is loaded by Atoms.load(path), Atoms.load(pathlib.Path), Atoms.load(open file, filetype='cml') and "
        "Atoms.load_cml(path), and with every keyword of the loaders at non-default values (verbose=True/False by keyword and "
        "positionally, explicit filetype='cml' on a path with another extension, load_cml(f=…), load_cml(open file), binary file / BytesIO / StringIO handles) — all "
        "results must be identical; a RELOAD stream writes consecutive different documents to ONE reused path and loads it again "
        "(str and pathlib.Path), every other time after modifying the previously returned Atoms in place (positions += 1), "
        "and compares each load with the document and with the open-file load; a separate malformed stream has unknown references / unknown elements / no atoms / "
        "repeated ids / an atom lacking one attribute / a bond with 0, 1 or 3 references / a bond without order (compared "
        "with the model's rejections). Non-trivial = distinct well-formed document that has no bond at all, or has a bond one of "
        "whose references is not the id a<position+1> of the atom it names.")

ELEMENT_POOL = None


def elements_pool():
    global ELEMENT_POOL
    if ELEMENT_POOL is None:
        from .. import gen_tables
        ELEMENT_POOL = [k for k, _ in gen_tables.read_tables()["masses"]]
    return ELEMENT_POOL


# ------------------------------------------------------------------ documents

ODD_IDS = ["1", "001", "-1", "a-1", "A_1", "x.y", "atom:7", "Zr#2", "a&b", "<c>", "it's", 'q"q', "α1", "原子3", "é", "a1a", "1a",
           "a01", "A1", "a1.", "ref", "id", "None", "0", "a0", "a1e3"]


def rand_coord(rng):
    k = rng.random()
    if k < 0.35:
        return rng.randint(-64 * 20, 64 * 20) / 64.0
    if k < 0.6:
        return rng.uniform(-30, 30)
    if k < 0.7:
        return rng.choice([0.0, -0.0, 1.0, -1.0])
    if k < 0.8:
        return rng.choice([1, -1]) * rng.uniform(1e-9, 1e-5)
    if k < 0.9:
        return rng.choice([1, -1]) * rng.uniform(1e4, 1e9)
    return round(rng.uniform(-25, 25), 6)


def rand_ids(rng, n, scheme):
    seq = ["a%d" % (i + 1) for i in range(n)]
    if scheme == "seq":
        return seq
    if scheme == "shuffled":
        rng.shuffle(seq)
        return seq
    if scheme == "reversed":
        return seq[::-1]
    if scheme == "offset":
        k = rng.randint(1, 50)
        return ["a%d" % (i + 1 + k) for i in range(n)]
    if scheme == "rotated":      # every id names the NEXT position
        return seq[1:] + seq[:1]
    if scheme == "casevar":      # ids that differ only in letter case / leading zeros / surrounding look-alikes
        base = ["N%d" % (i // 4 + 1) for i in range(n)]
        out = []
        for i, b in enumerate(base):
            v = [b, b.lower(), b[0] + "0" + b[1:], b[0].lower() + "0" + b[1:]][i % 4]
            out.append(v)
        rng.shuffle(out)
        return out
    out, seen = [], set()
    while len(out) < n:
        s = rng.choice(ODD_IDS) if rng.random() < 0.6 else "".join(rng.choice("abcXYZ019_-.:") for _ in range(rng.randint(1, 6)))
        if rng.random() < 0.5:
            s += str(rng.randint(0, 99))
        if s not in seen and not any(c.isspace() for c in s) and s:
            seen.add(s)
            out.append(s)
    return out


def rand_doc(rng, n=None, scheme=None, bonds=None):
    pool = elements_pool()
    n = n or rng.choice([1, 1, 2, 3] + list(range(1, 41)))
    scheme = scheme or rng.choice(["seq", "shuffled", "reversed", "offset", "rotated", "casevar", "arbitrary", "arbitrary"])
    els = rng.sample(pool, rng.randint(1, min(5, n))) if rng.random() < 0.7 else rng.sample(["C", "H", "O", "N", "Zr", "Cu"], rng.randint(1, 4))
    ids = rand_ids(rng, n, scheme)
    atoms = [{"id": ids[i], "el": rng.choice(els), "pos": [core.q(rand_coord(rng)) for _ in range(3)]} for i in range(n)]
    style = bonds or rng.choice(["none", "none-no-array", "sparse", "sparse", "dense", "repeated"])
    pairs = []
    if n >= 2 and style not in ("none", "none-no-array"):
        m = {"sparse": rng.randint(1, max(1, n // 2)), "dense": rng.randint(n, 2 * n), "repeated": rng.randint(2, 6)}[style]
        for _ in range(m):
            i, j = rng.sample(range(n), 2)
            pairs.append([i, j])
        if style == "repeated":
            pairs += [list(p) for p in pairs[:2]] + [pairs[0][::-1]]
    elif n == 1 and style not in ("none", "none-no-array"):
        style = "none"
    bl = [{"refs": [ids[i], ids[j]], "order": rng.choice(["1", "1", "2", "3", "1.5"])} for i, j in pairs]
    layout = {"decl": rng.random() < 0.3, "wrap": rng.random() < 0.15, "extra": rng.random() < 0.5,
              "order": rng.random() < 0.2, "indent": rng.choice([" ", "  ", "\t", ""]),
              "bond_array": style != "none-no-array", "ns": rng.choice(NS_MODES + [None, "default+extras"]),
              "foreign": rng.random() < 0.2}
    return {"atoms": atoms, "bonds": bl, "bond_idx": pairs, "scheme": scheme, "bond_style": style, "layout": layout}


def fnum(qs):
    """the text of a coordinate: repr of the double (round-trips exactly through float())"""
    return repr(float(Fraction(qs)))


CML_NS = "http://www.xml-cml.org/schema"
AVOGADRO2_XMLNS = [("xmlns:cml", "http://www.xml-cml.org/dict/cml"), ("xmlns:units", "http://www.xml-cml.org/units/units"),
                   ("xmlns:xsd", "http://www.w3c.org/2001/XMLSchema"), ("xmlns:iupac", "http://www.iupac.org")]
NS_MODES = [None, "default", "default+extras", "prefix", "mixed-prefix", "scoped-default", "foreign-default"]


def tree_of(doc):
    """the document as a neutral element tree: node = [prefix or None, local name, attributes (incl. xmlns declarations),
    children].  Namespace layouts (layout["ns"]):
      None              no namespace anywhere (the repository's own files)
      default           xmlns="http://www.xml-cml.org/schema" on the outermost element (Open Babel)
      default+extras    the same plus the xmlns:cml / units / xsd / iupac declarations Avogadro 2 writes
      prefix            xmlns:cml=<schema> on the outermost element, EVERY element written cml:…
      mixed-prefix      the same declaration, atomArray / atom written cml:…, everything else unprefixed (no namespace)
      scoped-default    xmlns=<schema> declared on <atomArray> only: atoms are in the namespace, bonds are not
      foreign-default   a default namespace that is not CML's"""
    lay = doc.get("layout", {})
    ns = lay.get("ns")
    pre_all = "cml" if ns == "prefix" else None
    pre_atoms = "cml" if ns in ("prefix", "mixed-prefix") else None
    atoms = []
    for k, a in enumerate(doc["atoms"]):
        at = [("id", a.get("id")), ("elementType", a.get("el"))]
        if lay.get("extra") and k % 3 == 0:
            at.append(("formalCharge", "1"))
        pos = a.get("pos") or [None, None, None]
        at += [("x3", None if pos[0] is None else fnum(pos[0])), ("y3", None if pos[1] is None else fnum(pos[1])),
               ("z3", None if pos[2] is None else fnum(pos[2]))]
        at = [(k2, v) for k2, v in at if v is not None]
        atoms.append([pre_atoms, "atom", at[::-1] if lay.get("order") else at, []])
    aa_attrs = [("xmlns", CML_NS)] if ns == "scoped-default" else []
    children = [[pre_atoms, "atomArray", aa_attrs, atoms]]
    if doc["bonds"] or lay.get("bond_array", True):
        bonds = []
        for b in doc["bonds"]:
            at = [("atomRefs2", None if b.get("refs") is None else " ".join(b["refs"])), ("order", b.get("order"))]
            at = [(k2, v) for k2, v in at if v is not None]
            bonds.append([pre_all, "bond", at[::-1] if lay.get("order") else at, []])
        children.append([pre_all, "bondArray", [], bonds])
    if lay.get("foreign"):
        children.append([None, "propertyList", [("xmlns", "urn:verif:other")], [[None, "property", [("title", "atom")], []]]])
    mol = [pre_all, "molecule", [("formalCharge", "0")] if lay.get("extra") else [], children]
    root = [pre_all, "cml", [], [mol]] if lay.get("wrap") else mol
    decl = []
    if ns in ("default", "default+extras"):
        decl = [("xmlns", CML_NS)] + (AVOGADRO2_XMLNS if ns == "default+extras" else [])
    elif ns in ("prefix", "mixed-prefix"):
        decl = [("xmlns:cml", CML_NS)]
    elif ns == "foreign-default":
        decl = [("xmlns", "urn:verif:not-cml")]
    root[2] = decl + root[2]
    return root


def render(node, ind, depth, out, default, prefixes, elems, is_root):
    """serialise `node`; in passing, record for every NON-ROOT element its namespace URI (worked out here from the
    declarations in scope, independently of ElementTree), local name and the attributes the loader reads"""
    pre, loc, attrs, children = node
    prefixes = dict(prefixes)
    for k, v in attrs:
        if k == "xmlns":
            default = v
        elif k.startswith("xmlns:"):
            prefixes[k[6:]] = v
    uri = prefixes[pre] if pre else default
    if not is_root:
        rec = {"ns": uri, "loc": loc}
        d = dict(attrs)
        for src, dst in (("id", "id"), ("elementType", "el")):
            if src in d:
                rec[dst] = d[src]
        for c in ("x3", "y3", "z3"):
            if c in d:
                rec[c] = core.q(float(d[c]))
        if "atomRefs2" in d:
            rec["refs"] = d["atomRefs2"].split()
        if "order" in d:
            rec["order"] = core.q(float(d["order"]))
        elems.append(rec)
    tag = (pre + ":" if pre else "") + loc
    head = ind * depth + "<" + tag + "".join(" %s=%s" % (k, quoteattr(v)) for k, v in attrs)
    if not children:
        out.append(head + "/>")
    else:
        out.append(head + ">")
        for c in children:
            render(c, ind, depth + 1, out, default, prefixes, elems, False)
        out.append(ind * depth + "</" + tag + ">")


def xml_and_elems(doc):
    lay = doc.get("layout", {})
    out, elems = [], []
    if lay.get("decl"):
        out.append('<?xml version="1.0" encoding="UTF-8"?>')
    render(tree_of(doc), lay.get("indent", " "), 0, out, None, {}, elems, True)
    return "\n".join(out) + "\n", elems


def xml_of(doc):
    return xml_and_elems(doc)[0]


# ------------------------------------------------------------------ the real code

def _res(fn):
    try:
        with core.quiet():
            a = fn()
        return {"ok": core.canon_atoms(a), "elements": [str(s) for s in a.elements]}
    except KeyError:
        return {"err": "reject:key"}
    except ValueError:
        return {"err": "reject:value"}
    except Exception as e:  # noqa
        return {"err": "error:" + type(e).__name__}


def real_loads(doc, tmpdir, name):
    """the four ways of loading the same file"""
    from mofun import Atoms
    path = os.path.join(tmpdir, name + ".cml")
    with open(path, "w", encoding="utf-8") as f:
        f.write(xml_of(doc))
    other = os.path.join(tmpdir, name + ".xml")       # same text under a name whose extension says nothing
    with open(other, "w", encoding="utf-8") as f:
        f.write(xml_of(doc))
    try:
        res = {"path": _res(lambda: Atoms.load(path)),
               "pathlib": _res(lambda: Atoms.load(pathlib.Path(path))),
               "load_cml": _res(lambda: Atoms.load_cml(path))}

        def by_file(**kw):
            with open(path, "r", encoding="utf-8") as fh:
                return Atoms.load(fh, filetype="cml", **kw)
        res["file"] = _res(by_file)
        # every keyword of the loaders at non-default values (the debug output goes to the silenced stdout)
        res["path verbose=True"] = _res(lambda: Atoms.load(path, verbose=True))
        res["path verbose=False"] = _res(lambda: Atoms.load(path, verbose=False))
        res["path filetype='cml'"] = _res(lambda: Atoms.load(other, filetype="cml"))
        res["path filetype='cml' verbose=True"] = _res(lambda: Atoms.load(pathlib.Path(other), "cml", verbose=True))
        res["load_cml verbose=True"] = _res(lambda: Atoms.load_cml(path, verbose=True))
        res["load_cml positional True"] = _res(lambda: Atoms.load_cml(pathlib.Path(path), True))
        res["load_cml f= verbose=False"] = _res(lambda: Atoms.load_cml(f=path, verbose=False))
        res["file verbose=True"] = _res(lambda: by_file(verbose=True))

        def by_file_direct():
            with open(path, "r", encoding="utf-8") as fh:
                return Atoms.load_cml(fh, verbose=True)
        res["load_cml(open file) verbose=True"] = _res(by_file_direct)
        # binary and in-memory handles (ElementTree takes them; the dispatcher needs filetype= for them)
        data = open(path, "rb").read()

        def by_binary():
            with open(path, "rb") as fh:
                return Atoms.load(fh, filetype="cml")
        res["binary file filetype='cml'"] = _res(by_binary)
        res["BytesIO filetype='cml'"] = _res(lambda: Atoms.load(io.BytesIO(data), filetype="cml"))
        res["StringIO filetype='cml'"] = _res(lambda: Atoms.load(io.StringIO(data.decode("utf-8")), filetype="cml"))
        res["load_cml(BytesIO)"] = _res(lambda: Atoms.load_cml(io.BytesIO(data)))
    finally:
        os.remove(path)
        os.remove(other)
    return res


def real_reload(doc, path, mutate):
    """the document is written to `path` — a path that may have been loaded BEFORE with another document — and loaded
    by str path; optionally the returned object is then modified in place (positions += 1, as a caller that moves the
    molecule would); then the same path is loaded again by str, by pathlib.Path, by load_cml and through an open file.
    Every load has to reflect the document as it is in the file now."""
    import numpy as np
    from mofun import Atoms
    with open(path, "w", encoding="utf-8") as f:
        f.write(xml_of(doc))
    res = {}
    kept = []

    def first():
        a = Atoms.load(path)
        kept.append(a)
        return a
    res["path"] = _res(first)
    if mutate and kept:
        with core.quiet():
            kept[0].positions += np.array([1.0, 1.0, 1.0])
    res["path-again"] = _res(lambda: Atoms.load(path))
    res["path-again verbose=True"] = _res(lambda: Atoms.load(path, verbose=True))
    res["pathlib"] = _res(lambda: Atoms.load(pathlib.Path(path)))
    res["load_cml"] = _res(lambda: Atoms.load_cml(path))

    def by_file():
        with open(path, "r", encoding="utf-8") as fh:
            return Atoms.load(fh, filetype="cml")
    res["file"] = _res(by_file)
    return res


# ------------------------------------------------------------------ the property, stated directly on the document

def oracle(doc, res):
    """doc: what was written (atoms in document order, bond_idx = the POSITIONS each bond entry was generated for)."""
    r = res["path"]
    for k in res:
        if k != "path" and res[k] != r:
            return "loading by %s differs from loading by path: %s" % (k, core.same(res[k], r) or "exception kinds differ")
    if "ok" not in r:
        return "a well-formed molecule (%d atoms, %d bonds) failed to load: %s" % (len(doc["atoms"]), len(doc["bonds"]), r.get("err"))
    a = r["ok"]
    if len(a["atoms"]) != len(doc["atoms"]):
        return "%d atoms loaded, %d atom entries in the document" % (len(a["atoms"]), len(doc["atoms"]))
    for i, (row, d) in enumerate(zip(a["atoms"], doc["atoms"])):
        if r["elements"][i] != d["el"]:
            return "atom %d has element %s, the document says %s" % (i, r["elements"][i], d["el"])
        if [Fraction(v) for v in row["pos"]] != [Fraction(v) for v in d["pos"]]:
            return "atom %d is at %s, the document says %s" % (i, row["pos"], d["pos"])
    got = [t["a"] for t in a["terms"]["bond"]]
    if len(got) != len(doc["bond_idx"]):
        return "%d bonds loaded, %d bond entries in the document" % (len(got), len(doc["bond_idx"]))
    for k, (g, w) in enumerate(zip(got, doc["bond_idx"])):
        if list(g) != list(w):
            return "bond %d joins atoms %s, its references %s name atoms %s" % (k, g, doc["bonds"][k]["refs"], w)
    return None


def wire(doc):
    """the document as the model reads it: every non-root element in document order with its namespace URI, local name
    and loader-relevant attributes (coordinates / order as the exact rationals `float(text)` gives)"""
    return {"op": "cml_doc", "elems": xml_and_elems(doc)[1]}


def is_nontrivial(doc):
    if not doc["bonds"]:
        return True
    return any(doc["atoms"][i]["id"] != "a%d" % (i + 1) for p in doc["bond_idx"] for i in p)


# ------------------------------------------------------------------ run

def malformed(rng):
    """(kind, document) outside the property's quantifier: compared with the model only"""
    doc = rand_doc(rng, n=rng.randint(2, 8), bonds="sparse")
    kind = rng.choice(["unknown-ref", "unknown-element", "no-atoms", "repeated-id", "missing-attribute", "refs-count", "no-order"])
    if kind == "unknown-ref":
        doc["bonds"][rng.randrange(len(doc["bonds"]))]["refs"][rng.randrange(2)] = "nosuchatom"
    elif kind == "unknown-element":
        doc["atoms"][rng.randrange(len(doc["atoms"]))]["el"] = rng.choice(["Xx", "D", "c", "ZR", ""])
    elif kind == "no-atoms":
        doc["atoms"], doc["bonds"], doc["bond_idx"] = [], [], []
    elif kind == "missing-attribute":
        a = doc["atoms"][rng.randrange(len(doc["atoms"]))]
        which = rng.choice(["id", "el", "x", "y", "z"])
        if which in ("id", "el"):
            del a[which]
        else:
            a["pos"] = list(a["pos"])
            a["pos"]["xyz".index(which)] = None
    elif kind == "refs-count":
        b = doc["bonds"][rng.randrange(len(doc["bonds"]))]
        b["refs"] = rng.choice([b["refs"][:1], b["refs"] + b["refs"][:1], []])
    elif kind == "no-order":
        doc["bonds"][rng.randrange(len(doc["bonds"]))]["order"] = None
    else:
        i, j = rng.sample(range(len(doc["atoms"])), 2)
        doc["atoms"][j]["id"] = doc["atoms"][i]["id"]
    return kind, doc


def run(ctx, oracle_only=False):
    ctx.rule = RULE
    rng = ctx.rng
    ops, impls = [], []
    with tempfile.TemporaryDirectory(prefix="verif_c16_") as tmp:
        docs = []
        # corpus first: the stored minimal replays of past findings (corpus/C16/*.json)
        import glob
        import json
        for f in sorted(glob.glob(os.path.join(core.VERIF, "corpus", "C16", "*.json"))):
            ci = json.load(open(f))["input"]
            docs.append({"atoms": ci["atoms"], "bonds": ci["bonds"], "bond_idx": ci["bond_idx"], "layout": ci.get("layout", {}),
                         "scheme": "corpus:" + os.path.basename(f)[:-5], "bond_style": "corpus"})
        # fixed corner documents first: one atom, no bonds (the documented single-metal case), every id scheme
        docs.append(rand_doc(rng, n=1, scheme="seq", bonds="none"))
        docs.append(rand_doc(rng, n=1, scheme="arbitrary", bonds="none-no-array"))
        for scheme in ["seq", "shuffled", "reversed", "offset", "rotated", "casevar", "arbitrary"]:
            docs.append(rand_doc(rng, n=rng.randint(2, 12), scheme=scheme, bonds="none"))
            docs.append(rand_doc(rng, n=rng.randint(2, 12), scheme=scheme, bonds="dense"))
        docs.append(rand_doc(rng, n=40, scheme="shuffled", bonds="dense"))
        for _ in range(ctx.n(300, 5000)):
            docs.append(rand_doc(rng))
        for k, doc in enumerate(docs):
            res = real_loads(doc, tmp, "d%d" % k)
            inp = dict(wire(doc), atoms=doc["atoms"], bonds=doc["bonds"], bond_idx=doc["bond_idx"], layout=doc["layout"], scheme=doc["scheme"])
            ctx.case(inp, nontrivial=is_nontrivial(doc))
            ctx.count("ids:" + doc["scheme"])
            ctx.count("bonds:" + doc["bond_style"])
            ctx.count("xmlns:%s" % doc["layout"].get("ns"))
            ctx.count("atoms:%s" % ("1" if len(doc["atoms"]) == 1 else "2-10" if len(doc["atoms"]) <= 10 else "11-40"))
            bad = oracle(doc, res)
            if bad:
                ctx.fail(bad, inp, observed={k2: (v if "err" in v else "loaded") for k2, v in res.items()},
                         required="one atom per entry in order with its element and coordinates; bond k joins the atoms named by its references; same result by path and by file")
            ops.append(wire(doc))
            impls.append({k2: v for k2, v in res["path"].items() if k2 in ("ok", "err")})
        # one path REUSED for consecutive different documents; every other time the first result is modified in place
        # before the path is loaded again
        reused = os.path.join(tmp, "reused.cml")
        prev = None
        for k in range(ctx.n(60, 600)):
            doc = rand_doc(rng, n=rng.choice([1, 1, 2, 3, 5, 8, 13, 21]))
            mutate = (k % 2 == 1)
            res = real_reload(doc, reused, mutate)
            inp = dict(wire(doc), atoms=doc["atoms"], bonds=doc["bonds"], bond_idx=doc["bond_idx"], layout=doc["layout"], scheme=doc["scheme"],
                       reload={"mutate": mutate, "previous": None if prev is None else
                               {"atoms": prev["atoms"], "bonds": prev["bonds"], "layout": prev["layout"]}})
            ctx.case(inp, nontrivial=True)
            ctx.count("reload:" + ("mutated-first-result" if mutate else "rewritten-path"))
            bad = oracle(doc, res)
            if bad:
                ctx.fail(bad, inp, observed={k2: (v if "err" in v else "loaded") for k2, v in res.items()},
                         required="every load of a path reflects the document that is in the file at that moment, whatever was "
                                  "loaded from that path before and whatever was done to the earlier result; same result by path and by file")
            ops.append(wire(doc))
            impls.append({k2: v for k2, v in res["path"].items() if k2 in ("ok", "err")})
            prev = doc
        if os.path.exists(reused):
            os.remove(reused)
        for k in range(ctx.n(60, 600)):
            kind, doc = malformed(rng)
            res = real_loads(doc, tmp, "m%d" % k)
            ctx.count("malformed:" + kind)
            ctx.count("malformed-outcome:" + ("loaded" if "ok" in res["path"] else res["path"]["err"]))
            inp = dict(wire(doc), atoms=doc["atoms"], bonds=doc["bonds"], layout=doc["layout"], malformed=kind)
            ctx.case(inp, nontrivial=False)
            for way in res:
                if res[way] != res["path"]:
                    ctx.fail("loading by %s differs from loading by path" % way, inp, observed=str(res[way])[:300])
            ops.append(wire(doc))
            impls.append({k2: v for k2, v in res["path"].items() if k2 in ("ok", "err")})
        left = os.listdir(tmp)
        if left:
            ctx.notes.append("temporary files left behind: %s" % left[:5])
    if oracle_only:
        return
    models = ctx.lean.run(ops)
    for inp, r, m in zip(ops, impls, models):
        ctx.compare("cml", inp, r, m)


def search(ctx):
    saved = ctx.tier
    ctx.tier = "thorough"
    try:
        run(ctx, oracle_only=True)
    finally:
        ctx.tier = saved


def replay(ctx, rec):
    inp = rec["input"]
    doc = {"atoms": inp["atoms"], "bonds": inp["bonds"], "bond_idx": inp.get("bond_idx"), "layout": inp.get("layout", {})}
    with tempfile.TemporaryDirectory(prefix="verif_c16_") as tmp:
        if inp.get("reload"):
            path = os.path.join(tmp, "reused.cml")
            pv = inp["reload"].get("previous")
            if pv:
                real_reload(dict(pv, bond_idx=[]), path, False)
            res = real_reload(doc, path, inp["reload"]["mutate"])
            os.remove(path)
        else:
            res = real_loads(doc, tmp, "replay")
    if inp.get("malformed") or doc["bond_idx"] is None:
        return all(res[w] == res["path"] for w in res)
    return oracle(doc, res) is None
