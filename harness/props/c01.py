"""C01 — every reported match is a genuine rigid-motion image of the pattern (SOUNDNESS of find_pattern_in_structure).

Oracle (real code only, numpy, written from the property statement; uses ONLY the returned indices, positions and
quaternions): indices distinct / existing / of the pattern's elements in pattern order; every returned position = stored
position of the indexed atom + an integer lattice vector; the returned quaternion is a proper rotation which, with a
suitable translation, carries the pattern onto the returned positions within the REQUESTED atol, per coordinate (no
relative term: wherever the fragment sits);
a mirror-image decoy of a CHIRAL pattern is never among the matches.
Tie: the same search through the Lean model (Model/Find.lean) with the rotation oracle / choices exported by the hook;
compared: near window, candidate groups, tuples passing the rotation re-check, reported matches (indices exactly,
positions exact-rational vs float within 1e-9), returned quaternion == the hook's quaternion of the chosen candidate.
The tolerance of every oracle test is the tolerance the CALLER REQUESTED (never one read back from the code).
Argument space: atol from 0 / 1e-4 … 0.3, hints, keywords left at their defaults or passed explicitly, numpy-integer hints,
verbose, return_positions_and_quats True and False (index-only results: shape / existence / elements / distinctness and
the pairwise-distance necessary condition), and SEQUENCES of calls in one process on the same Atoms objects (two
tolerances on one structure, an orthorhombic then a triclinic cell with the same diagonal, two patterns, several
structures), each judged by the oracle, compared with a fresh evaluation (modules reloaded, new objects) and checked for
mutated inputs. Species names: any string is an element name (explicit masses) - look-alike names are different species
(gen_names_c01)."""
import itertools
import multiprocessing
import os
import random

import numpy as np

from .. import core, findlib as fl, gen_find_c01 as g, gen_names_c01 as gn, gen_cells_c01 as gc

RULE = ("periodic structures from findlib.planted_structure: 0-3 planted rigid copies (per-atom perturbation <= atol/8) of "
        "11 patterns (1-5 atoms; asymmetric, symmetric CH3-like, planar, collinear, chiral) in orthorhombic / "
        "LAMMPS-triclinic (+/- tilt) / arbitrarily rotated cells; poses random / identity / 90 / 180 deg; origins random or "
        "hugging faces / edges / corners ({0,.01,.5,.99,.999}); decoys: mirror images, near misses (one atom moved by 3-5 "
        "atol), lone same-element atoms, rigid copies with ONE element replaced or two elements exchanged; hints none / "
        "complete triples / partial (incl. index 0, orientation point clearly off the axis); atol in {1e-4,2e-4,5e-4,2e-3,"
        ".02,.05,.1,.2,.3} and the edge 0; copies with ONE bond 2.5-8 atol too long; patterns with two same-element atoms between atol and 2 atol apart (H-H 0.75 at "
        "atol .4-.6, F-F 0.375 at .2/.3) with sites holding ONE atom at the pair's midpoint; keywords explicit or left at their "
        "defaults, return_positions_and_quats True/False, verbose, numpy-integer hints; sequences of 2-3 calls on shared "
        "Atoms objects (two tolerances / same-diagonal ortho+triclinic cells / two patterns / several structures / IN-PLACE "
        "edits of atom_types, atom_type_elements, positions between searches) each compared with a fresh evaluation; the Atoms "
        "objects are obtained through Atoms(elements=), Atoms(atom_types=, atom_type_elements=), ase.Atoms -> from_ase_atoms "
        "(oddly oriented triclinic cells), copy(), a[idx], Atoms(atom_types=, atom_type_elements=, atom_type_masses=), integer coordinate arrays - ground truth is always the generator's own "
        "lists; ghost copies that exist only under a re-oriented / transposed reading of the cell; tight cells (smallest width only 3-30 % "
        "above diameter + 2 atol), left-handed cells, hints as negative / numpy integers; 60-80 A cells with atol 2e-5 / 1e-4 and "
        "flat patterns with one inner atom 4-6 atol off the line / plane (invisible to the distance screen) far from the origin; "
        "tolerances above the distance of two same-element pattern atoms with ONE atom at their midpoint; 40 % of the structures list their atoms in a shuffled order; 35 % of the structures "
        "store atoms OUTSIDE the cell (each by its own lattice vector of up to 2 cells); 20 % of the random stream / 15 % of the "
        "grid have SPECIES NAMES beyond the one/two-letter symbols (gen_names_c01: united-atom / coarse-grained names with explicit "
        "masses - CH2/CH3, Bead1/Bead10, HW1/HW2 -, the mass table's Uut/Uuq/Uup/Uuh/Uuo, names differing in case or by a suffix), "
        "renamed injectively in structure and pattern, plus rigid copies with ONE atom of a sibling (look-alike) species. "
        "Cells with SMALL components (gen_cells_c01): tilts / off-diagonal terms log-spread over 3e-6 … 0.2 A (lower- or upper-triangular, "
        "from lengths + angles 90 +/- 1e-4 … 2 deg, an orthorhombic cell turned by 1e-6 … 0.02 rad, an ordinary tilt next to small ones), "
        "copies hugging faces / edges / corners, atol 2e-5 … 0.2, ghosts that are a copy across a face only under the cell with its small "
        "components dropped or rounded to 2-3 decimals (some distance off by > 4 atol under the true lattice). "
        "Thorough adds the complete grid origin-fraction^3 x 4 poses x 11 patterns x 3 cell kinds. "
        "Non-trivial = the search reported at least one match of a pattern with >= 2 atoms AND (a planted copy straddles "
        "a cell face OR the structure contains a decoy with the pattern's geometry).")

GEOM_DECOYS = ("mirror", "nearmiss", "wrongelem", "permuted", "stretch", "merged", "ghost", "sideways")


# ------------------------------------------------------------------ the property, on the real result

def oracle_sound(inp, ok):
    """inp: the case (elems, pos, cell, pattern, atol, decoys); ok: dict(idx, pos, quats) returned by the search.
    Returns None or (text, observed)."""
    from scipy.spatial.transform import Rotation
    elems = inp["elems"]
    n = len(elems)
    S = np.array(inp["pos"], dtype=float).reshape(n, 3)
    cell = np.array(inp["cell"], dtype=float)
    cinv = np.linalg.inv(cell)
    pel = list(inp["pattern"]["elems"])
    P = np.array(inp["pattern"]["pos"], dtype=float).reshape(len(pel), 3)
    atol = float(inp["atol"])
    if not (len(ok["idx"]) == len(ok["pos"]) == len(ok["quats"])):
        return "index, position and rotation lists have different lengths", [len(ok["idx"]), len(ok["pos"]), len(ok["quats"])]
    for mi, (idx, mpos, quat) in enumerate(zip(ok["idx"], ok["pos"], ok["quats"])):
        if len(idx) != len(pel):
            return "match %d lists %d atoms for a pattern of %d" % (mi, len(idx), len(pel)), idx
        for k, a in enumerate(idx):
            if not (0 <= a < n):
                return "match %d: index %d does not exist in a structure of %d atoms" % (mi, a, n), idx
            if elems[a] != pel[k]:
                return "match %d: atom %d is %s, pattern atom %d is %s" % (mi, a, elems[a], k, pel[k]), idx
        if len(set(idx)) != len(idx):
            return "match %d: atoms not distinct" % mi, idx
        X = np.array(mpos, dtype=float)
        if X.shape != P.shape:
            return "match %d: %s positions for a pattern of %d atoms" % (mi, X.shape, len(pel)), mpos
        f = (X - S[list(idx)]).dot(cinv)
        dev = np.abs(f - np.round(f)).max()
        if not dev <= 1e-6:
            return ("match %d: a returned position is not the stored position of the indexed atom plus a lattice vector"
                    % mi), {"idx": idx, "pos": mpos, "fractional_offsets": f.tolist()}
        qv = np.array(quat, dtype=float)
        if qv.shape != (4,) or not np.isfinite(qv).all() or np.linalg.norm(qv) < 1e-9:
            return "match %d: returned rotation is not a usable quaternion" % mi, quat
        R = Rotation.from_quat(qv).as_matrix()
        if abs(np.linalg.det(R) - 1.0) > 1e-9 or np.abs(R.dot(R.T) - np.identity(3)).max() > 1e-9:
            return "match %d: returned rotation is not a proper rotation" % mi, R.tolist()
        img = P.dot(R.T)
        d = X - img                       # the translation each atom asks for
        cands = [d[j] for j in range(len(pel))] + [(d.max(axis=0) + d.min(axis=0)) / 2.0]
        best = None
        for t in cands:
            fit = img + t
            excess = (np.abs(X - fit) - (atol + 1e-9)).max()      # the requested absolute tolerance is the whole tolerance
            best = excess if best is None else min(best, excess)
        if best > 0:
            return ("match %d: no translation makes the returned rotation carry the pattern onto the returned positions "
                    "within atol" % mi), {"idx": idx, "excess_over_tolerance": float(best), "atol": atol, "quat": quat}
    if inp["pattern"]["name"].split("@")[0] in g.CHIRAL:
        keys = {tuple(sorted(i)) for i in ok["idx"]}
        for kind, grp in inp.get("decoys", []):
            if kind == "mirror" and tuple(sorted(grp)) in keys:
                return "a mirror image of the chiral pattern was reported as a match", sorted(grp)
    return None


def oracle_indices(inp, idx_list):
    """the property on an index-only result (return_positions_and_quats=False): shape, existence, elements in pattern
    order, distinctness, and a NECESSARY condition of "rigid image within atol": every interatomic pattern distance is
    reproduced, for some periodic images, within 2·√3·atol. Returns None or (text, observed)."""
    elems = inp["elems"]
    n = len(elems)
    S = np.array(inp["pos"], dtype=float).reshape(n, 3)
    cell = np.array(inp["cell"], dtype=float)
    pel = list(inp["pattern"]["elems"])
    P = np.array(inp["pattern"]["pos"], dtype=float).reshape(len(pel), 3)
    atol = float(inp["atol"])
    xmax = (np.abs(S).max() if n else 0.0) + np.abs(cell).sum(axis=0).max()
    bound = 2 * np.sqrt(3.0) * atol + 1e-9 * (1.0 + xmax)
    offs = np.array(list(itertools.product(range(-2, 3), repeat=3)), dtype=float).dot(cell)
    if n:
        # "for some periodic images": atoms may be stored cells away from each other, compare their images in one cell
        S = (S.dot(np.linalg.inv(cell)) % 1.0).dot(cell)
    for mi, idx in enumerate(idx_list):
        idx = [int(a) for a in idx]
        if len(idx) != len(pel):
            return "match %d lists %d atoms for a pattern of %d" % (mi, len(idx), len(pel)), idx
        for k, a in enumerate(idx):
            if not (0 <= a < n):
                return "match %d: index %d does not exist in a structure of %d atoms" % (mi, a, n), idx
            if elems[a] != pel[k]:
                return "match %d: atom %d is %s, pattern atom %d is %s" % (mi, a, elems[a], k, pel[k]), idx
        if len(set(idx)) != len(idx):
            return "match %d: atoms not distinct" % mi, idx
        for k in range(len(pel)):
            for j in range(k):
                d0 = np.linalg.norm(P[k] - P[j])
                d = np.linalg.norm(S[idx[k]] - S[idx[j]] + offs, axis=1)
                off = np.abs(d - d0).min()
                if off > bound:
                    return ("match %d: not a rigid image within atol: the distance between pattern atoms %d and %d is off by "
                            "%.3g for every choice of periodic images" % (mi, j, k, off)), {"idx": idx, "atol": atol, "bound": float(bound)}
    return None


# ------------------------------------------------------------------ running one case

def inp_of(case, atol, hints, seed, **style):
    inp = {"op": "find-sound", "elems": case["elems"], "pos": case["pos"], "cell": case["cell"],
           "pattern": case["pattern"], "atol": atol, "hints": list(hints), "seed": seed,
           "decoys": [[k, list(grp)] for k, grp in case.get("decoys", [])],
           "planted": [list(p) for p in case.get("planted", [])], "info": case.get("info", {})}
    inp.update(style)
    return inp


def call_find(s, p, inp):
    """ONE call of the real search with the hook installed; every argument as `inp` says:
    positions (return_positions_and_quats), omit_defaults (keywords at their default value are not passed at all),
    verbose, np_hints (hints as numpy integers), neg_hints (hints as negative indices). Returns dict(ok | err, hook)."""
    import mofun.mofun as mm
    sink = fl.Sink()
    mm._verif_sink = sink
    mm._verif_on = True
    positions = inp.get("positions", True)
    names = ("axisp1_idx", "axisp2_idx", "opoint_idx")
    kw = {}
    for nm, h in zip(names, inp["hints"]):
        if h is not None:
            if inp.get("neg_hints"):
                h = h - len(inp["pattern"]["elems"])       # the same atom, counted from the end (-1 = last)
            kw[nm] = np.int64(h) if inp.get("np_hints") else int(h)
        elif not inp.get("omit_defaults"):
            kw[nm] = None
    if not (inp.get("omit_defaults") and inp["atol"] == 0.05):
        kw["atol"] = inp["atol"]
    if positions or not inp.get("omit_defaults"):
        kw["return_positions_and_quats"] = bool(positions)
    if inp.get("verbose"):
        kw["verbose"] = True
    try:
        seed = inp.get("seed", 0)
        random.seed(seed)
        np.random.seed(seed % (2 ** 32))
        with core.quiet():
            out = mm.find_pattern_in_structure(s, p, **kw)
        if positions:
            idx, pos, quats = out
            ok = {"idx": [[int(i) for i in t] for t in idx], "pos": [[[float(x) for x in q] for q in m] for m in pos],
                  "quats": [[float(x) for x in q.as_quat()] for q in quats]}
        else:
            ok = {"idx": [[int(i) for i in t] for t in out]}
        return {"ok": ok, "hook": sink}
    except Exception as e:  # noqa
        return {"err": "error:" + type(e).__name__, "msg": str(e)[:200], "hook": sink}
    finally:
        mm._verif_sink = None


def snapshot(a):
    # elements straight from the stored types: an accessor may itself be what is wrong
    return (np.array(a.positions, dtype=float).copy(), g.true_elements(a), None if a.cell is None else np.array(a.cell, dtype=float).copy())


def unchanged(a, snap):
    pos, els, cell = snap
    return (np.array_equal(np.array(a.positions, dtype=float), pos) and g.true_elements(a) == els
            and (cell is None or np.array_equal(np.array(a.cell, dtype=float), cell)))


def judge(inp, res):
    """the oracle for the kind of result that was requested"""
    if "ok" not in res:
        return None               # nothing was reported; a raise is a matter of C02/C03, counted by the caller
    if inp.get("positions", True):
        return oracle_sound(inp, res["ok"])
    return oracle_indices(inp, res["ok"]["idx"])


HISTORY = []      # the calls made in this process since the library modules were last fresh (see `faithful_input`)


def _logged(inp):
    c = dict(inp)
    c.pop("sobj", None)
    c.pop("pobj", None)
    return c


def run_real(inp, log=True):
    if log:
        HISTORY.append(_logged(inp))
    s = gn.build_structure(inp)       # through the public constructor / conversion the input names (`route`, `proute`)
    p = gn.build_pattern(inp)
    ss, ps = snapshot(s), snapshot(p)
    res = call_find(s, p, inp)
    res["inputs_unchanged"] = unchanged(s, ss) and unchanged(p, ps)
    return res


def one(inp, log=True):
    """real code + oracle -> (res, None | (text, observed))"""
    res = run_real(inp, log)
    return res, judge(inp, res)


def keys_of(res):
    return sorted(tuple(sorted(t)) for t in res["ok"]["idx"]) if "ok" in res else res.get("err")


def fresh_modules():
    """module-level state of the library (caches, globals — also ones created lazily) is gone: the library modules are
    dropped and imported anew, so the next call is a first call. (importlib.reload would keep the old module dict.)"""
    import importlib
    import sys
    for name in [n for n in sys.modules if n == "mofun" or n.startswith("mofun.")]:
        del sys.modules[name]
    importlib.import_module("mofun")
    importlib.import_module("mofun.mofun")
    del HISTORY[:]


def run_sequence(calls, log=True):
    """the calls IN ORDER in this process, re-using one Atoms object per distinct `sobj` / `pobj`.
    Returns [(res, bad)] plus a list of texts about mutated inputs."""
    objs, snaps, out, notes = {}, {}, [], []
    for c in calls:
        ks, kp = ("s", c.get("sobj", id(c))), ("p", c.get("pobj", id(c)))
        fresh_s, fresh_p = ks not in objs, kp not in objs
        if fresh_s:
            objs[ks] = gn.build_structure(c)
        if fresh_p:
            objs[kp] = gn.build_pattern(c)
        # in-place edits made by the CALLER between two searches (objects built for this very call already have them)
        for e in c.get("edits", []):
            k = ks if e["target"] == "s" else kp
            if not (fresh_s if e["target"] == "s" else fresh_p):
                g.apply_edit(objs[k], e)
        snaps[ks], snaps[kp] = snapshot(objs[ks]), snapshot(objs[kp])
        if log:
            HISTORY.append(_logged(c))
        res = call_find(objs[ks], objs[kp], c)
        out.append((res, judge(c, res)))
        for k in (ks, kp):
            if not unchanged(objs[k], snaps[k]):
                notes.append("call %d changed its %s argument" % (len(out) - 1, "structure" if k[0] == "s" else "pattern"))
                snaps[k] = snapshot(objs[k])
    return out, notes


def faithful_input(inp, bad, seq=None):
    """a failure was observed on call `inp` (possibly the last of the sequence `seq`) after the calls in HISTORY.
    Returns (replayable input, failure) — the single call if it fails on its own, else the sequence, else the shortest
    tail of the process history (doubling) that reproduces it from fresh modules."""
    past = list(HISTORY)
    fresh_modules()
    _, b = one(inp, log=False)
    if b:
        return inp, b
    tries = []
    if seq:
        tries.append(("sequence", seq))
        past = past[:max(0, len(past) - len(seq))]
    n = 1
    while n < 2 * len(past) and n <= 8192:
        tries.append(("history", past[-n:] + (seq or [inp])))
        n *= 2
    for kind, calls in tries:
        fresh_modules()
        results, _ = run_sequence(calls, log=False)
        hit = [i for i, (_, bb) in enumerate(results) if bb]
        if hit and kind == "history" and len(calls) > 3:
            # shrink: does ONE earlier call followed by the failing one suffice?
            tail = seq or [inp]
            before = calls[:len(calls) - len(tail)]
            half = len(before) // 2
            # the shorter tail (half as long) did not reproduce it: the call that matters is in the older half
            for prev in (list(reversed(before[:half + 1])) + list(reversed(before[half + 1:])))[:3000]:
                fresh_modules()
                r2, _ = run_sequence([prev] + tail, log=False)
                h2 = [i for i, (_, bb) in enumerate(r2) if bb]
                if h2:
                    calls, results, hit = [prev] + tail, r2, h2
                    break
        if hit:
            fresh_modules()
            return ({"op": "find-seq", "kind": kind, "calls": calls, "failing": hit[0]},
                    ("call %d of a sequence of %d calls in one process: %s" % (hit[0], len(calls), results[hit[0]][1][0]), results[hit[0]][1][1]))
    fresh_modules()
    return inp, (bad[0] + " (observed after earlier calls in the same process; not reproduced in isolation)", bad[1])


def check_sequence(ctx, kind, calls, oracle_only=False):
    ctx.count("seq")
    ctx.count("seq:" + kind)
    results, notes = run_sequence(calls)
    for i, (c, (res, bad)) in enumerate(zip(calls, results)):
        record(ctx, c, res, None, tags=["seq:call", "atol:%g" % c["atol"], "positions:%s" % c["positions"]])
        if bad:
            rin, rbad = faithful_input(c, bad, seq=calls[:i + 1])
            ctx.fail(rbad[0], rin, observed=rbad[1], required=REQUIRED + "; the same for every call of a sequence",
                     tags=["seq", "seq:" + kind] + tags_of(c))
            return
    if oracle_only:
        return
    for i, c in enumerate(calls):
        fresh_modules()
        fres = run_real(c)
        ctx.compared += 1
        if keys_of(fres) != keys_of(results[i][0]):
            ctx.disagree("find-seq", {"op": "find-seq", "kind": kind, "calls": calls, "failing": i},
                         keys_of(results[i][0]), keys_of(fres), "call %d of a sequence reports other atom groups than a fresh evaluation" % i)
    for t in notes:
        ctx.compared += 1
        ctx.disagree("find-seq", {"op": "find-seq", "kind": kind, "calls": calls}, t, "inputs unchanged", t)


def nontrivial(inp, res):
    if "ok" not in res or not res["ok"]["idx"] or len(inp["pattern"]["elems"]) < 2:
        return False
    return g.crossings(inp) > 0 or any(k in GEOM_DECOYS for k, _ in inp["decoys"])


def tags_of(inp):
    i = inp["info"]
    t = ["cell:" + i["cell"], "pattern:" + i["pattern"], "atol:%g" % inp["atol"], "cross:%d" % g.crossings(inp),
         "pose:" + str(i.get("pose")), "place:" + str(i.get("boundary")),
         "hints:" + "".join("x" if h is not None else "-" for h in inp["hints"]),
         "via:" + inp.get("route", "elements"), "pattern via:" + inp.get("proute", "elements"),
         "stored:" + ("unwrapped" if i.get("unwrapped") else "inside the cell"),
         "names:" + ("long / look-alike species names" if i.get("names") else "periodic-table symbols")]
    return t + sorted(set("decoy:" + k for k, _ in inp["decoys"]))


REQUIRED = ("distinct existing atoms of the pattern's elements in order; positions = stored + lattice vector; returned proper "
            "rotation + a translation carries the pattern onto them within the REQUESTED atol; no mirror image of a chiral pattern")


def record(ctx, inp, res, bad, tags=None):
    ctx.case(inp, nontrivial=nontrivial(inp, res))
    for t in (tags if tags is not None else tags_of(inp)):
        ctx.count(t)
    if "ok" not in res:
        ctx.count("raised:" + res.get("err", "?"))
    else:
        ctx.count("matches", len(res["ok"]["idx"]))
        ctx.count("result:" + ("idx+pos+quats" if inp.get("positions", True) else "idx only"))
    if inp.get("omit_defaults"):
        ctx.count("call:defaults omitted")
    if bad:
        ctx.fail(bad[0], inp, observed=bad[1], required=REQUIRED, tags=tags_of(inp))


# ------------------------------------------------------------------ the tie

def quats_vs_hook(res):
    """the returned rotations are the hook's quaternions of the chosen candidates. None or text."""
    hook = res["hook"]
    if hook.find is None:
        return "the hook did not fire"
    chosen = hook.find["chosen"]
    rq = res["ok"]["quats"]
    if len(chosen) != len(rq):
        return "%d chosen tuples, %d returned rotations" % (len(chosen), len(rq))
    ci = 0
    for grp in hook.groups:
        if not grp["good"]:
            continue
        if ci >= len(chosen):
            return "more groups with good candidates than chosen tuples"
        cand = [i for i in grp["good"] if grp["tuples"][i] == chosen[ci]]
        if not cand:
            return "the chosen tuple %s is not a candidate that passed the re-check" % (chosen[ci],)
        if not any(all(core.close(a, b) for a, b in zip(grp["quats"][i], rq[ci])) for i in cand):
            return "returned quaternion %s differs from the candidate's %s" % (rq[ci], [float(x) for x in grp["quats"][cand[0]]])
        ci += 1
    return None


def stable_batch(lean, ops, rel=1e-6):
    """`findlib.stable_under_atol` for many ops in ONE driver process: a case is float-unambiguous iff the model's answer
    is identical for atol·(1−rel), atol, atol·(1+rel) (every threshold of the search is monotone in atol)"""
    from fractions import Fraction
    r = Fraction(rel).limit_denominator(10 ** 9)
    batch = []
    for op in ops:
        a = Fraction(op["atol"])
        batch += [op, dict(op, atol=core.q(a * (1 - r))), dict(op, atol=core.q(a * (1 + r)))]
    out = lean_parallel(lean, batch)
    res = []
    for i in range(len(ops)):
        v = [fl.model_view(x) for x in out[3 * i:3 * i + 3]]
        res.append(core.same(v[0], v[1]) is None and core.same(v[0], v[2]) is None)
    return res


def lean_parallel(lean, ops):
    """the model on many ops: a few driver processes side by side (the interpreter is the slow part of the check)"""
    from concurrent.futures import ThreadPoolExecutor
    k = max(1, min(4, (os.cpu_count() or 2) // 2, len(ops) // 20))
    if k <= 1:
        return lean.run(ops) if ops else []
    chunks = [ops[i::k] for i in range(k)]
    with ThreadPoolExecutor(max_workers=k) as ex:
        outs = list(ex.map(lean.run, chunks))
    res = [None] * len(ops)
    for i, out in enumerate(outs):
        res[i::k] = out
    return res


def on_a_face(inp):
    """some atom sits within 1e-9 (fractional) of a cell face: into which cell `floor(position · cell⁻¹)` puts it is a
    matter of floating-point rounding — such a case is not compared when model and code differ"""
    f = np.array(inp["pos"], dtype=float).reshape(-1, 3).dot(np.linalg.inv(np.array(inp["cell"], dtype=float)))
    return bool(len(f)) and float(np.abs(f - np.round(f)).min()) < 1e-9


def tie(ctx, pairs):
    """pairs: [(inp, res)] with res ok -> model run, comparison of the views"""
    ops = [fl.find_op(inp, inp["atol"], tuple(inp["hints"]), res["hook"]) for inp, res in pairs]
    for (inp, _), op in zip(pairs, ops):
        k = len(inp["pattern"]["elems"])             # the model counts from the front: -1 is atom k-1
        op["axis"] = [a if (a is None or a >= 0) else a + k for a in op.get("axis", [])]
    models = lean_parallel(ctx.lean, ops)
    doubtful = []
    for (inp, res), op, m in zip(pairs, ops, models):
        iv, mv = fl.impl_view(res), fl.model_view(m)
        qd = quats_vs_hook(res)
        if qd:
            ctx.compared += 1
            ctx.disagree("find", inp, {"quats": res["ok"]["quats"]}, None, qd)
        elif core.same(iv, mv) is None:
            ctx.compare("find", inp, iv, mv)
        else:
            doubtful.append((inp, op, iv, mv))
    # disagreements: decided by floating-point rounding on a threshold? (then ambiguous, not compared)
    for (inp, op, iv, mv), stable in zip(doubtful, stable_batch(ctx.lean, [d[1] for d in doubtful])):
        if not stable or on_a_face(inp):
            ctx.ambiguous += 1
        else:
            ctx.compare("find", inp, iv, mv)


# ------------------------------------------------------------------ systematic boundary grid

def grid_tasks():
    out = []
    for pname in fl.PATTERNS:
        for ck in g.GRID_CELLS:
            for pose in g.POSES:
                if len(fl.PATTERNS[pname][0]) == 1 and pose != "identity":
                    continue
                for fr in itertools.product(g.FRACS, repeat=3):
                    out.append((pname, ck, pose, fr))
    return out


def grid_inp(seed, task):
    pname, ck, pose, fr = task
    rng = random.Random("c01-grid-%s-%s" % (seed, task))
    atol = rng.choice(g.ATOLS + g.ATOLS + g.TINY_ATOLS + [0.3])
    if pname in g.CLOSE_PAIR and rng.random() < 0.7:
        atol = rng.choice(g.CLOSE_PAIR[pname])      # the close same-element pair is between atol and 2·atol apart
    case = g.planted_at(rng, pname, ck, pose, fr, atol)
    if ck != "ortho" and rng.random() < 0.3:
        g.add_ghost(rng, case, atol)
    named = gn.rename_species(rng, case, atol) if rng.random() < 0.15 else None
    if rng.random() < 0.4:
        g.shuffle_atoms(rng, case)
    if rng.random() < 0.25:
        g.unwrap_atoms(rng, case)
    style = g.pick_routes(rng, case)
    if named:
        style.update(gn.routes(rng, case))
    return inp_of(case, atol, g.valid_hints(rng, case["pattern"]) if rng.random() < 0.3 else (None, None, None),
                  rng.randrange(1 << 30), **style)


def _grid_worker(args):
    seed, task = args
    inp = grid_inp(seed, task)
    res, bad = one(inp)
    nm = len(res["ok"]["idx"]) if "ok" in res else -1
    rin = inp
    if bad:
        rin, bad = faithful_input(inp, bad)
    return task, nontrivial(inp, res), g.crossings(inp), nm, bad, (rin if bad else core.sha(inp))


def run_grid(ctx, tasks, procs):
    args = [(ctx.seed, t) for t in tasks]
    if procs > 1:
        with multiprocessing.get_context("fork").Pool(procs) as pool:
            results = pool.map(_grid_worker, args, chunksize=64)
    else:
        results = [_grid_worker(a) for a in args]
    for task, nt, cross, nm, bad, inp in results:
        ctx.evaluations += 1
        if nt:
            ctx.nontrivial.add(inp if isinstance(inp, str) else core.sha(inp))
        ctx.count("grid")
        ctx.count("grid:cross:%d" % cross)
        ctx.count("grid:pose:" + task[2])
        ctx.count("grid:cell:" + task[1])
        if nm < 0:
            ctx.count("grid:raised")
        else:
            ctx.count("grid:matches", nm)
        if bad:
            ctx.fail(bad[0], inp, observed=bad[1], required=REQUIRED,
                     tags=["grid"] + (tags_of(inp) if inp.get("op") == "find-sound" else ["seq"]))


# ------------------------------------------------------------------ the check

def run(ctx, oracle_only=False, scale=1):
    ctx.rule = RULE
    rng = ctx.rng
    pairs = []
    n_rand = ctx.n(260, 3000) * scale
    n_tie = 0 if oracle_only else ctx.n(300, 1500)
    for _ in range(n_rand):
        integer = False
        u = rng.random()
        if u < 0.03:
            case, atol, hints = g.zero_tol_case(rng)
        elif u < 0.06:
            case, atol, hints = g.int_case(rng)
            integer = True
        elif u < 0.16:
            case, atol, hints = g.tight_case(rng)      # widths only 3-30 % above diameter + 2 atol; left-handed cells
        elif u < 0.26:
            case, atol, hints = g.far_case(rng)        # large cell, small tolerance, fragments far from the origin
        else:
            case, atol, hints = g.random_case(rng)
        # species named beyond the one/two-letter symbols (united-atom beads with explicit masses, the mass table's
        # three-letter symbols), look-alike names, and copies of the pattern with ONE atom of a sibling species
        named = None
        if not integer and rng.random() < 0.2:
            named = gn.rename_species(rng, case, atol)
        if rng.random() < 0.4:
            g.shuffle_atoms(rng, case)                 # atoms of a copy neither contiguous nor in pattern order
        if not integer and atol > 0 and rng.random() < 0.35:
            g.unwrap_atoms(rng, case)                  # atoms stored up to two cells away from the home cell
        style = g.call_style(rng, atol, hints)
        style.update(g.pick_routes(rng, case, route=case.pop("want_route", None)))
        if named:
            style.update(gn.routes(rng, case))
        if integer:
            style["integer"] = True
        inp = inp_of(case, atol, hints, rng.randrange(1 << 30), **style)
        res, bad = one(inp)
        if bad:
            rin, rbad = faithful_input(inp, bad)
            record(ctx, inp, res, None)
            ctx.fail(rbad[0], rin, observed=rbad[1], required=REQUIRED, tags=tags_of(inp))
            continue
        record(ctx, inp, res, None)
        if not res.get("inputs_unchanged", True) and not oracle_only:
            ctx.compared += 1
            ctx.disagree("find", inp, "an argument was modified by the call", "inputs unchanged", "the search changed its structure or pattern argument")
        if not inp["positions"]:
            # index-only result: the same call with positions and rotations requested must report the same atom groups
            # (and is judged by the full oracle)
            full = dict(inp, positions=True)
            fres, fbad = one(full)
            if fbad:
                rin, rbad = faithful_input(full, fbad)
                fbad = rbad
                full_rec = rin
            else:
                full_rec = full
            record(ctx, full, fres, None)
            if fbad:
                ctx.fail(fbad[0], full_rec, observed=fbad[1], required=REQUIRED, tags=tags_of(full))
            if not fbad and not oracle_only:
                ctx.compared += 1
                if keys_of(fres) != keys_of(res):
                    ctx.disagree("find", inp, keys_of(res), keys_of(fres), "index-only call and full call report different atom groups")
            inp, res, bad = full, fres, fbad
            if bad:
                continue
        if len(pairs) < n_tie and atol > 0:
            if "ok" in res:
                pairs.append((inp, res))
            elif not oracle_only:
                # valid input, yet the search raised: the model has no such outcome
                ctx.compared += 1
                ctx.disagree("find", inp, {"err": res.get("err"), "msg": res.get("msg")}, None, "the search raised on a valid input")
    # sequences of calls in one process
    for _ in range(ctx.n(60, 400) * scale):
        kind, calls = g.random_sequence(rng)
        if calls:
            check_sequence(ctx, kind, calls, oracle_only)
    tasks = grid_tasks()
    if ctx.tier == "quick":
        tasks = rng.sample(tasks, 150 * scale)
    procs = 1 if len(tasks) <= 400 else max(1, min(8, (os.cpu_count() or 2) // 2))
    run_grid(ctx, tasks, procs)
    # cells with SMALL components (3e-6 … 0.2 A: nearly orthorhombic, angles a fraction of a degree off 90, slightly turned),
    # copies across their faces, ghosts that close only under the cleaned-up lattice (gen_cells_c01)
    small_pairs = []
    for _ in range(ctx.n(70, 600) * scale):
        case, atol, hints = gc.small_component_case(rng)
        if rng.random() < 0.4:
            g.shuffle_atoms(rng, case)
        if rng.random() < 0.25:
            g.unwrap_atoms(rng, case)
        style = g.call_style(rng, atol, hints)
        style.update(g.pick_routes(rng, case))
        inp = inp_of(case, atol, hints, rng.randrange(1 << 30), **style)
        ctx.count("small-component cell")
        ctx.count("small-component cell:" + case["info"]["cell"])
        res, bad = one(inp)
        if bad:
            rin, rbad = faithful_input(inp, bad)
            record(ctx, inp, res, None)
            ctx.fail(rbad[0], rin, observed=rbad[1], required=REQUIRED, tags=tags_of(inp))
            continue
        record(ctx, inp, res, None)
        if not inp["positions"]:
            full = dict(inp, positions=True)
            fres, fbad = one(full)
            record(ctx, full, fres, None)
            if fbad:
                rin, rbad = faithful_input(full, fbad)
                ctx.fail(rbad[0], rin, observed=rbad[1], required=REQUIRED, tags=tags_of(full))
                continue
            if not oracle_only:
                ctx.compared += 1
                if keys_of(fres) != keys_of(res):
                    ctx.disagree("find", inp, keys_of(res), keys_of(fres), "index-only call and full call report different atom groups")
            inp, res = full, fres
        if "ok" in res and len(small_pairs) < ctx.n(40, 200):
            small_pairs.append((inp, res))
    if oracle_only:
        return
    pairs += small_pairs
    for t in rng.sample(tasks, min(len(tasks), ctx.n(40, 300))):
        inp = grid_inp(ctx.seed, t)
        res, bad = one(inp)
        if not bad and "ok" in res:
            pairs.append((inp, res))
    tie(ctx, pairs)


def search(ctx):
    """real code only, larger budget"""
    run(ctx, oracle_only=True, scale=4 if ctx.tier == "quick" else 1)


def replay(ctx, rec):
    inp = rec["input"]
    if inp.get("op") == "find-seq":
        fresh_modules()
        results, _ = run_sequence(inp["calls"], log=False)
        return all(bad is None for _, bad in results)
    _, bad = one(inp)
    return bad is None
