"""C01 — every reported match is a genuine rigid-motion image of the pattern (SOUNDNESS of find_pattern_in_structure).

Oracle (real code only, numpy, written from the property statement; uses ONLY the returned indices, positions and
quaternions): indices distinct / existing / of the pattern's elements in pattern order; every returned position = stored
position of the indexed atom + an integer lattice vector; the returned quaternion is a proper rotation which, with a
suitable translation, carries the pattern onto the returned positions within atol (+ the code's own rtol 1e-5·|x|);
a mirror-image decoy of a CHIRAL pattern is never among the matches.
Tie: the same search through the Lean model (Model/Find.lean) with the rotation oracle / choices exported by the hook;
compared: near window, candidate groups, tuples passing the rotation re-check, reported matches (indices exactly,
positions exact-rational vs float within 1e-9), returned quaternion == the hook's quaternion of the chosen candidate."""
import itertools
import multiprocessing
import os
import random

import numpy as np

from .. import core, findlib as fl, gen_find_c01 as g

RULE = ("periodic structures from findlib.planted_structure: 0-3 planted rigid copies (per-atom perturbation <= atol/8) of "
        "11 patterns (1-5 atoms; asymmetric, symmetric CH3-like, planar, collinear, chiral) in orthorhombic / "
        "LAMMPS-triclinic (+/- tilt) / arbitrarily rotated cells; poses random / identity / 90 / 180 deg; origins random or "
        "hugging faces / edges / corners ({0,.01,.5,.99,.999}); decoys: mirror images, near misses (one atom moved by 3-5 "
        "atol), lone same-element atoms, rigid copies with ONE element replaced or two elements exchanged; hints none / "
        "complete triples / partial (incl. index 0, orientation point clearly off the axis); atol in {.02,.05,.1,.2}. "
        "Thorough adds the complete grid origin-fraction^3 x 4 poses x 11 patterns x 3 cell kinds. "
        "Non-trivial = the search reported at least one match of a pattern with >= 2 atoms AND (a planted copy straddles "
        "a cell face OR the structure contains a decoy with the pattern's geometry).")

GEOM_DECOYS = ("mirror", "nearmiss", "wrongelem", "permuted")


# ------------------------------------------------------------------ the property, on the real result

def oracle_sound(inp, ok):
    """inp: the case (elems, pos, cell, pattern, atol, decoys); ok: dict(idx, pos, quats) returned by the search.
    Returns None or (text, observed)."""
    from scipy.spatial.transform import Rotation
    elems = inp["elems"]
    n = len(elems)
    S = np.array(inp["pos"], dtype=float).reshape(n, 3)
    cell = np.array(inp["cell"], dtype=float)
    cinv = np.linalg.inv(cell)
    pel = list(inp["pattern"]["elems"])
    P = np.array(inp["pattern"]["pos"], dtype=float).reshape(len(pel), 3)
    atol = float(inp["atol"])
    if not (len(ok["idx"]) == len(ok["pos"]) == len(ok["quats"])):
        return "index, position and rotation lists have different lengths", [len(ok["idx"]), len(ok["pos"]), len(ok["quats"])]
    for mi, (idx, mpos, quat) in enumerate(zip(ok["idx"], ok["pos"], ok["quats"])):
        if len(idx) != len(pel):
            return "match %d lists %d atoms for a pattern of %d" % (mi, len(idx), len(pel)), idx
        for k, a in enumerate(idx):
            if not (0 <= a < n):
                return "match %d: index %d does not exist in a structure of %d atoms" % (mi, a, n), idx
            if elems[a] != pel[k]:
                return "match %d: atom %d is %s, pattern atom %d is %s" % (mi, a, elems[a], k, pel[k]), idx
        if len(set(idx)) != len(idx):
            return "match %d: atoms not distinct" % mi, idx
        X = np.array(mpos, dtype=float)
        if X.shape != P.shape:
            return "match %d: %s positions for a pattern of %d atoms" % (mi, X.shape, len(pel)), mpos
        f = (X - S[list(idx)]).dot(cinv)
        dev = np.abs(f - np.round(f)).max()
        if not dev <= 1e-6:
            return ("match %d: a returned position is not the stored position of the indexed atom plus a lattice vector"
                    % mi), {"idx": idx, "pos": mpos, "fractional_offsets": f.tolist()}
        qv = np.array(quat, dtype=float)
        if qv.shape != (4,) or not np.isfinite(qv).all() or np.linalg.norm(qv) < 1e-9:
            return "match %d: returned rotation is not a usable quaternion" % mi, quat
        R = Rotation.from_quat(qv).as_matrix()
        if abs(np.linalg.det(R) - 1.0) > 1e-9 or np.abs(R.dot(R.T) - np.identity(3)).max() > 1e-9:
            return "match %d: returned rotation is not a proper rotation" % mi, R.tolist()
        img = P.dot(R.T)
        d = X - img                       # the translation each atom asks for
        cands = [d[j] for j in range(len(pel))] + [(d.max(axis=0) + d.min(axis=0)) / 2.0]
        best = None
        for t in cands:
            fit = img + t
            excess = (np.abs(X - fit) - (atol + 1e-5 * np.abs(fit) + 1e-9)).max()
            best = excess if best is None else min(best, excess)
        if best > 0:
            return ("match %d: no translation makes the returned rotation carry the pattern onto the returned positions "
                    "within atol" % mi), {"idx": idx, "excess_over_tolerance": float(best), "atol": atol, "quat": quat}
    if inp["pattern"]["name"].split("@")[0] in g.CHIRAL:
        keys = {tuple(sorted(i)) for i in ok["idx"]}
        for kind, grp in inp.get("decoys", []):
            if kind == "mirror" and tuple(sorted(grp)) in keys:
                return "a mirror image of the chiral pattern was reported as a match", sorted(grp)
    return None


# ------------------------------------------------------------------ running one case

def inp_of(case, atol, hints, seed):
    return {"op": "find-sound", "elems": case["elems"], "pos": case["pos"], "cell": case["cell"],
            "pattern": case["pattern"], "atol": atol, "hints": list(hints), "seed": seed,
            "decoys": [[k, list(grp)] for k, grp in case.get("decoys", [])],
            "planted": [list(p) for p in case.get("planted", [])], "info": case.get("info", {})}


def run_real(inp):
    s = fl.mk_structure(inp["elems"], inp["pos"], inp["cell"])
    p = g.mk_pattern(inp["pattern"])
    return fl.run_find(s, p, inp["atol"], hints=tuple(inp["hints"]), seed=inp.get("seed", 0))


def one(inp):
    """real code + oracle -> (res, None | (text, observed))"""
    res = run_real(inp)
    if "ok" not in res:
        return res, None          # nothing was reported; a raise is a matter of C02/C03, counted by the caller
    return res, oracle_sound(inp, res["ok"])


def nontrivial(inp, res):
    if "ok" not in res or not res["ok"]["idx"] or len(inp["pattern"]["elems"]) < 2:
        return False
    return g.crossings(inp) > 0 or any(k in GEOM_DECOYS for k, _ in inp["decoys"])


def tags_of(inp):
    i = inp["info"]
    t = ["cell:" + i["cell"], "pattern:" + i["pattern"], "atol:%g" % inp["atol"], "cross:%d" % g.crossings(inp),
         "pose:" + str(i.get("pose")), "place:" + str(i.get("boundary")),
         "hints:" + "".join("x" if h is not None else "-" for h in inp["hints"])]
    return t + sorted(set("decoy:" + k for k, _ in inp["decoys"]))


def record(ctx, inp, res, bad, tags=None):
    ctx.case(inp, nontrivial=nontrivial(inp, res))
    for t in (tags if tags is not None else tags_of(inp)):
        ctx.count(t)
    if "ok" not in res:
        ctx.count("raised:" + res.get("err", "?"))
    else:
        ctx.count("matches", len(res["ok"]["idx"]))
    if bad:
        ctx.fail(bad[0], inp, observed=bad[1],
                 required="distinct existing atoms of the pattern's elements in order; positions = stored + lattice vector; "
                          "returned proper rotation + a translation carries the pattern onto them within atol; no mirror image "
                          "of a chiral pattern",
                 tags=tags_of(inp))


# ------------------------------------------------------------------ the tie

def quats_vs_hook(res):
    """the returned rotations are the hook's quaternions of the chosen candidates. None or text."""
    hook = res["hook"]
    if hook.find is None:
        return "the hook did not fire"
    chosen = hook.find["chosen"]
    rq = res["ok"]["quats"]
    if len(chosen) != len(rq):
        return "%d chosen tuples, %d returned rotations" % (len(chosen), len(rq))
    ci = 0
    for grp in hook.groups:
        if not grp["good"]:
            continue
        if ci >= len(chosen):
            return "more groups with good candidates than chosen tuples"
        cand = [i for i in grp["good"] if grp["tuples"][i] == chosen[ci]]
        if not cand:
            return "the chosen tuple %s is not a candidate that passed the re-check" % (chosen[ci],)
        if not any(all(core.close(a, b) for a, b in zip(grp["quats"][i], rq[ci])) for i in cand):
            return "returned quaternion %s differs from the candidate's %s" % (rq[ci], [float(x) for x in grp["quats"][cand[0]]])
        ci += 1
    return None


def stable_batch(lean, ops, rel=1e-6):
    """`findlib.stable_under_atol` for many ops in ONE driver process: a case is float-unambiguous iff the model's answer
    is identical for atol·(1−rel), atol, atol·(1+rel) (every threshold of the search is monotone in atol)"""
    from fractions import Fraction
    r = Fraction(rel).limit_denominator(10 ** 9)
    batch = []
    for op in ops:
        a = Fraction(op["atol"])
        batch += [op, dict(op, atol=core.q(a * (1 - r))), dict(op, atol=core.q(a * (1 + r)))]
    out = lean.run(batch) if batch else []
    res = []
    for i in range(len(ops)):
        v = [fl.model_view(x) for x in out[3 * i:3 * i + 3]]
        res.append(core.same(v[0], v[1]) is None and core.same(v[0], v[2]) is None)
    return res


def tie(ctx, pairs):
    """pairs: [(inp, res)] with res ok -> model run, comparison of the views"""
    ops = [fl.find_op(inp, inp["atol"], tuple(inp["hints"]), res["hook"]) for inp, res in pairs]
    models = ctx.lean.run(ops) if ops else []
    doubtful = []
    for (inp, res), op, m in zip(pairs, ops, models):
        iv, mv = fl.impl_view(res), fl.model_view(m)
        qd = quats_vs_hook(res)
        if qd:
            ctx.compared += 1
            ctx.disagree("find", inp, {"quats": res["ok"]["quats"]}, None, qd)
        elif core.same(iv, mv) is None:
            ctx.compare("find", inp, iv, mv)
        else:
            doubtful.append((inp, op, iv, mv))
    # disagreements: decided by floating-point rounding on a threshold? (then ambiguous, not compared)
    for (inp, op, iv, mv), stable in zip(doubtful, stable_batch(ctx.lean, [d[1] for d in doubtful])):
        if not stable:
            ctx.ambiguous += 1
        else:
            ctx.compare("find", inp, iv, mv)


# ------------------------------------------------------------------ systematic boundary grid

def grid_tasks():
    out = []
    for pname in fl.PATTERNS:
        for ck in g.GRID_CELLS:
            for pose in g.POSES:
                if len(fl.PATTERNS[pname][0]) == 1 and pose != "identity":
                    continue
                for fr in itertools.product(g.FRACS, repeat=3):
                    out.append((pname, ck, pose, fr))
    return out


def grid_inp(seed, task):
    pname, ck, pose, fr = task
    rng = random.Random("c01-grid-%s-%s" % (seed, task))
    atol = rng.choice(g.ATOLS)
    case = g.planted_at(rng, pname, ck, pose, fr, atol)
    return inp_of(case, atol, g.valid_hints(rng, case["pattern"]) if rng.random() < 0.3 else (None, None, None),
                  rng.randrange(1 << 30))


def _grid_worker(args):
    seed, task = args
    inp = grid_inp(seed, task)
    res, bad = one(inp)
    nm = len(res["ok"]["idx"]) if "ok" in res else -1
    return task, nontrivial(inp, res), g.crossings(inp), nm, bad, (inp if bad else core.sha(inp))


def run_grid(ctx, tasks, procs):
    args = [(ctx.seed, t) for t in tasks]
    if procs > 1:
        with multiprocessing.get_context("fork").Pool(procs) as pool:
            results = pool.map(_grid_worker, args, chunksize=64)
    else:
        results = [_grid_worker(a) for a in args]
    for task, nt, cross, nm, bad, inp in results:
        ctx.evaluations += 1
        if nt:
            ctx.nontrivial.add(inp if isinstance(inp, str) else core.sha(inp))
        ctx.count("grid")
        ctx.count("grid:cross:%d" % cross)
        ctx.count("grid:pose:" + task[2])
        ctx.count("grid:cell:" + task[1])
        if nm < 0:
            ctx.count("grid:raised")
        else:
            ctx.count("grid:matches", nm)
        if bad:
            ctx.fail(bad[0], inp, observed=bad[1], required="see the random stream", tags=["grid"] + tags_of(inp))


# ------------------------------------------------------------------ the check

def run(ctx, oracle_only=False, scale=1):
    ctx.rule = RULE
    rng = ctx.rng
    pairs = []
    n_rand = ctx.n(260, 3000) * scale
    n_tie = 0 if oracle_only else ctx.n(200, 1500)
    for _ in range(n_rand):
        case, atol, hints = g.random_case(rng)
        inp = inp_of(case, atol, hints, rng.randrange(1 << 30))
        res, bad = one(inp)
        record(ctx, inp, res, bad)
        if not bad and len(pairs) < n_tie:
            if "ok" in res:
                pairs.append((inp, res))
            elif not oracle_only:
                # valid input, yet the search raised: the model has no such outcome
                ctx.compared += 1
                ctx.disagree("find", inp, {"err": res.get("err"), "msg": res.get("msg")}, None, "the search raised on a valid input")
    tasks = grid_tasks()
    if ctx.tier == "quick":
        tasks = rng.sample(tasks, 150 * scale)
    procs = 1 if len(tasks) <= 400 else max(1, min(8, (os.cpu_count() or 2) // 2))
    run_grid(ctx, tasks, procs)
    if oracle_only:
        return
    for t in rng.sample(tasks, min(len(tasks), ctx.n(40, 300))):
        inp = grid_inp(ctx.seed, t)
        res, bad = one(inp)
        if not bad and "ok" in res:
            pairs.append((inp, res))
    tie(ctx, pairs)


def search(ctx):
    """real code only, larger budget"""
    run(ctx, oracle_only=True, scale=4 if ctx.tier == "quick" else 1)


def replay(ctx, rec):
    inp = rec["input"]
    _, bad = one(inp)
    return bad is None
