"""C20 — two streams of generated worlds for which the file the command line has to write (and the matches it has to
report) are known BY CONSTRUCTION of the input, so the result of the real run is judged against the input data and not
against another run of the same library (the API route and the command line share the search and the merge code: a
defect there breaks both alike and the "command line = API" comparison stays silent).

(1) TOLERANCE BY EFFECT ("every documented option reaches the operation it names", for --atol, judged on the result).
    The world holds 5-7 well separated copies of a 2-4 atom pattern.  Every copy is the pattern under a known rigid
    motion (long axis of the pattern along a Cartesian axis, along a face / body diagonal, or in a random direction; also
    wrapped across the cell boundary) with ONE known deformation: the far end of the longest pattern distance is moved
    along that axis by d (stretched or compressed).  Every deviation of such a copy from the pattern — each pairwise
    distance, and each atom position after aligning on any choice of axis atoms — is at most |d|, and the distance of the
    two end atoms deviates by exactly |d|.  Hence, whatever the reading of "absolute tolerance for atom positions":
        |d| <= 0.8 * atol  -> the copy IS a match      (must be reported / replaced)
        |d| >= 2.5 * atol  -> the copy is NOT a match  (no rigid placement puts both ends within atol; must be left alone)
    and copies in between are not judged.  An independent brute-force pass over all atom tuples (minimum-image distances)
    guarantees that nothing else in the world comes near the pattern.  atol is the value given on the command line (or
    the documented default 0.05).

(2) RE-PARAMETERISATION (the documented use of a LAMMPS replacement pattern, docs Example 3).  The input is a LAMMPS data
    file with bonds / angles / dihedrals / impropers and their coefficient tables; it holds copies of a three- or
    four-membered ring (+ substituents); the pattern is the ring, the replacement pattern is the SAME atoms at the same
    coordinates (optionally one more atom) carrying some force-field terms with new coefficients.  The expected output
    is: every atom where it was, every term of the input EXCEPT those re-defined by the replacement pattern (a term of the
    same kind between the same atoms in the same roles, listed forwards or backwards), plus the replacement's terms with
    the replacement's coefficients, for every replaced copy.  Without a replacement pattern (find only / conversion) the
    written file carries exactly the input's terms ("writes the structure unmodified").  With --replace-fraction < 1 any
    selection of floor/ceil(p*n) copies is accepted.

Both oracles read the written file with readers of their own and identify atoms by their coordinates.
"""
import itertools
import math
import os
from fractions import Fraction

from .. import core

DEFAULT_ATOL = 5e-2
INSIDE = 0.8            # |d| <= INSIDE * atol: a match under every reading of the tolerance
OUTSIDE = 2.5           # |d| >= OUTSIDE * atol: a match under no reading of the tolerance


def fl(s):
    return float(Fraction(s))


# ====================================================================== geometry helpers

def _cube_rotations():
    rots = []
    for perm in itertools.permutations(range(3)):
        for signs in itertools.product([1, -1], repeat=3):
            m = [[0.0] * 3 for _ in range(3)]
            for i in range(3):
                m[i][perm[i]] = float(signs[i])
            det = (m[0][0] * (m[1][1] * m[2][2] - m[1][2] * m[2][1]) - m[0][1] * (m[1][0] * m[2][2] - m[1][2] * m[2][0])
                   + m[0][2] * (m[1][0] * m[2][1] - m[1][1] * m[2][0]))
            if det == 1:
                rots.append(m)
    return rots


ROTS = _cube_rotations()


def _cross(u, v):
    return [u[1] * v[2] - u[2] * v[1], u[2] * v[0] - u[0] * v[2], u[0] * v[1] - u[1] * v[0]]


def _unit(u):
    n = math.sqrt(sum(x * x for x in u))
    if n < 1e-9:
        return [1.0, 0.0, 0.0]
    return [x / n for x in u]


def _apply(m, v):
    return [sum(m[i][j] * v[j] for j in range(3)) for i in range(3)]


def rotation_x_to(rng, u):
    """a proper rotation (matrix) that takes the x axis to the unit vector u, with a random roll about it"""
    u = _unit(u)
    helper = [1.0, 0.0, 0.0] if abs(u[0]) < 0.9 else [0.0, 1.0, 0.0]
    v = _unit(_cross(u, helper))
    w = _cross(u, v)
    a = rng.uniform(0, 2 * math.pi)
    v2 = [math.cos(a) * v[i] + math.sin(a) * w[i] for i in range(3)]
    w2 = _cross(u, v2)
    return [[u[i], v2[i], w2[i]] for i in range(3)]           # columns u, v2, w2


def orientation(rng, kind):
    if kind == "axis":
        return rng.choice(ROTS)
    if kind == "diag":
        s = lambda: rng.choice([1.0, -1.0])
        u = rng.choice([[s(), s(), s()], [s(), s(), 0.0], [0.0, s(), s()], [s(), 0.0, s()]])
        return rotation_x_to(rng, u)
    u = [rng.gauss(0, 1) for _ in range(3)]
    while sum(x * x for x in u) < 1e-3:
        u = [rng.gauss(0, 1) for _ in range(3)]
    return rotation_x_to(rng, u)


def _cell_of(rng, cell_kind, lo=20, hi=27):
    lens = rng.sample([k / 2.0 for k in range(lo, hi)], 3)
    t = lambda: rng.randint(6, 20) / 8.0 * rng.choice([1, -1])
    if cell_kind == "ortho":
        return [[lens[0], 0.0, 0.0], [0.0, lens[1], 0.0], [0.0, 0.0, lens[2]]]
    t1, t2, t3 = t(), t(), t()
    while abs(t2) == abs(t3):
        t3 = t()
    return [[lens[0], 0.0, 0.0], [t1, lens[1], 0.0], [t2, t3, lens[2]]]


def _frac_to_cart(f, cell):
    return [sum(f[r] * cell[r][c] for r in range(3)) for c in range(3)]


def _min_image_dist(cell):
    import numpy as np
    c = np.array(cell, dtype=float)
    offs = np.array([np.array(m, dtype=float).dot(c) for m in itertools.product((-1, 0, 1), repeat=3)])

    def dist(x, y):
        d = np.array(y, dtype=float) - np.array(x, dtype=float) + offs
        return float(np.sqrt((d * d).sum(axis=1)).min())
    return dist


def candidate_tuples(elements, positions, cell, pat_elements, pat_positions, thr):
    """brute force, independent of the library: every ordered tuple of distinct atoms with the pattern's elements whose
    pairwise minimum-image distances are all within `thr` of the pattern's"""
    dist = _min_image_dist(cell)
    n, k = len(elements), len(pat_elements)
    D = [[0.0] * n for _ in range(n)]
    for i in range(n):
        for j in range(i + 1, n):
            D[i][j] = D[j][i] = dist(positions[i], positions[j])
    P = [[math.dist(pat_positions[i], pat_positions[j]) for j in range(k)] for i in range(k)]
    out = []

    def go(t):
        i = len(t)
        if i == k:
            out.append(tuple(t))
            return
        for a in range(n):
            if elements[a] == pat_elements[i] and a not in t and all(abs(D[a][t[j]] - P[i][j]) <= thr for j in range(i)):
                go(t + [a])
    go([])
    return out


def _wrap_ortho(x, cell):
    return [x[c] % cell[c][c] for c in range(3)]


def _q3(x):
    return [core.q(float(v)) for v in x]


# ====================================================================== (1) tolerance worlds

END_ELEMENTS = ["C", "N", "O", "S", "P", "Si", "B"]
MID_ELEMENTS = ["H", "C", "O", "N", "Cl"]
MARKERS = ["F", "Br", "Se", "I"]
BYSTANDERS = ["Zr", "Cu", "Na", "K", "Fe", "Ni"]


def _tol_pattern(rng):
    """pattern in its construction frame: end atoms on the x axis at 0 and L (the longest distance), the others between
    them, off the axis; returns (elements, positions, index of the moved end, index of the other end, bonds)"""
    n = rng.choice([2, 2, 3, 3, 4])
    while True:
        L = rng.randint(20, 32) / 16.0                                  # 1.25 … 2.0
        els = [rng.choice(END_ELEMENTS), rng.choice(END_ELEMENTS)]
        pos = [[0.0, 0.0, 0.0], [L, 0.0, 0.0]]
        for _ in range(n - 2):
            x = rng.randint(4, 12) / 16.0 * L
            r = rng.randint(8, 16) / 16.0
            a = rng.randint(0, 15) * math.pi / 8
            pos.append([x, r * math.cos(a), r * math.sin(a)])
            els.append(rng.choice(MID_ELEMENTS))
        ok = True
        for i in range(n):
            for j in range(i + 1, n):
                d = math.dist(pos[i], pos[j])
                if (i, j) != (0, 1) and (d > L - 0.15 or d < 0.7):
                    ok = False
        if rng.random() < 0.7 and len(set(els)) != n:
            ok = False
        if ok:
            break
    # order of the atoms in the pattern file: half of the worlds list an end of the long axis first
    order = list(range(n))
    rng.shuffle(order)
    if rng.random() < 0.5:
        e = rng.choice([0, 1])
        order.remove(e)
        order.insert(0, e)
    els = [els[i] for i in order]
    pos = [pos[i] for i in order]
    moved, fixed = order.index(1), order.index(0)
    bonds = [[i, i + 1] for i in range(n - 1)]
    return els, pos, moved, fixed, bonds


def gen_tol_world(rng, cell_kind, in_fmt, pat_fmt, out_fmt, atols):
    """`atols`: the tolerances (floats) the world is going to be run with"""
    a_s, a_b = min(atols), max(atols)
    for _attempt in range(200):
        els, P, moved, fixed, bonds = _tol_pattern(rng)
        n = len(els)
        cell = _cell_of(rng, cell_kind)
        sites = [(i, j, k) for i in (1, 3) for j in (1, 3) for k in (1, 3)]
        rng.shuffle(sites)
        nfrag = rng.randint(5, 7)
        # deformation classes; the first two copies are the boundary class of the tolerance: stretched by less than the
        # tolerance, lying along a Cartesian axis
        inside = lambda a: rng.choice([0.5, 0.625, 0.75]) * a
        outside = lambda a: rng.choice([2.75, 3.0]) * a
        plans = [("axis", inside(a_s)), ("axis", inside(a_b))]
        while len(plans) < nfrag:
            kind = rng.choice(["axis", "axis", "diag", "random"])
            dev = rng.choice([0.0, inside(a_s), -inside(a_s), inside(a_b), -inside(a_b), outside(a_b), -outside(a_b),
                              outside(a_s)])
            plans.append((kind, dev))
        rng.shuffle(plans)
        shift = [rng.randint(0, 16) / 4.0 for _ in range(3)] if cell_kind == "ortho" else [0.0, 0.0, 0.0]
        # replacement pattern: one atom (not the first) becomes a marker element, a little further out; optionally one
        # more atom
        marker = rng.choice(MARKERS)
        k = rng.choice([i for i in range(n) if i != 0])
        centre = [sum(p[c] for p in P) / n for c in range(3)]
        out_dir = _unit([P[k][c] - centre[c] for c in range(3)])
        R = [(e, list(p)) for e, p in zip(els, P)]
        R[k] = (marker, [P[k][c] + 0.25 * out_dir[c] for c in range(3)])
        rbonds = [list(b) for b in bonds]
        if rng.random() < 0.4:
            # (a two-atom pattern fixes no roll about its axis: there the additional atom lies on the axis as well)
            d2 = [0.875 * out_dir[c] for c in range(3)] if n == 2 else [0.5, 0.625, 0.375]
            R.append((rng.choice([x for x in MARKERS if x != marker]), [R[k][1][c] + d2[c] for c in range(3)]))
            rbonds.append([k, len(R) - 1])
        new_atoms = [i for i in range(len(R)) if i >= n or i == k]
        atoms, frags = [], []
        for (kind, dev), site in zip(plans, sites):
            M = orientation(rng, kind)
            f = [s / 4.0 for s in site]
            mid = _frac_to_cart(f, cell)
            u = _unit([P[moved][c] - P[fixed][c] for c in range(3)])
            half = [(P[moved][c] + P[fixed][c]) / 2 for c in range(3)]
            c0 = [mid[c] + shift[c] - _apply(M, half)[c] for c in range(3)]
            g = lambda p: [c0[c] + _apply(M, p)[c] for c in range(3)]
            idx, upos = [], []
            for i, (e, p) in enumerate(zip(els, P)):
                x = g([p[c] + (dev * u[c] if i == moved else 0.0) for c in range(3)])
                upos.append(x)
                idx.append(len(atoms))
                atoms.append((e, _wrap_ortho(x, cell) if cell_kind == "ortho" else x))
            frags.append({"atoms": idx, "dev": core.q(dev), "orient": kind, "upos": [_q3(x) for x in upos],
                          "new": [{"el": R[i][0], "pos": _q3(g(R[i][1]))} for i in new_atoms]})
        nplanted = len(atoms)
        for site in sites[nfrag:]:
            f = [s / 4.0 for s in site]
            x = [_frac_to_cart(f, cell)[c] + shift[c] for c in range(3)]
            e = rng.choice(BYSTANDERS + [els[0], els[moved]])
            atoms.append((e, _wrap_ortho(x, cell) if cell_kind == "ortho" else x))
        # nothing but the planted copies comes near the pattern (brute force, minimum image)
        thr = 2 * a_b + 0.05
        planted = {tuple(fr_["atoms"]) for fr_ in frags}
        cand = candidate_tuples([e for e, _ in atoms], [x for _, x in atoms], cell, els, P, thr)
        if any(t not in planted for t in cand):
            continue
        m = rng.choice(ROTS)
        sh = [rng.randint(0, 16) / 8.0 for _ in range(3)]
        mv = lambda p: [_apply(m, p)[c] + sh[c] for c in range(3)]
        q = core.q
        return {
            "kind": "gen", "cell_kind": cell_kind, "in_fmt": in_fmt, "pat_fmt": pat_fmt, "out_fmt": out_fmt,
            "cell": [[q(v) for v in row] for row in cell],
            "atoms": [{"el": e, "pos": _q3(x), "q": q(Fraction(rng.randint(-8, 8), 16))} for e, x in atoms],
            "pattern": [{"el": e, "pos": _q3(mv(p))} for e, p in zip(els, P)], "pattern_bonds": [list(b) for b in bonds],
            "repl": [{"el": e, "pos": _q3(mv(p))} for e, p in R], "repl_bonds": rbonds,
            "chargefile": [q(Fraction(rng.randint(-16, 16), 32)) for _ in range(len(atoms))],
            "bonds": [], "nplanted": nplanted, "with_bonds": False, "split_types": False,
            "tol": {"fragments": frags, "changed": k, "marker": marker, "ends": [fixed, moved]},
        }
    raise RuntimeError("no unambiguous tolerance world in 200 draws")


# ====================================================================== (2) re-parameterisation worlds

RING_ELEMENTS = ["C", "N", "O", "S", "P", "Si", "B"]


def _ring_template(rng):
    """(elements, positions, bonds, pattern atoms) of one ring with substituents, coordinates in multiples of 1/16 A"""
    j = lambda: rng.randint(-2, 2)
    if rng.random() < 0.5:
        pts = [[0, 0, 0], [24 + j(), 0, 0], [10 + j(), 20 + j(), j()]]
        ring = [0, 1, 2]
    else:
        pts = [[0, 0, 0], [24 + j(), j(), 2], [26 + j(), 24 + j(), -2], [2 + j(), 22 + j(), 3]]
        ring = [0, 1, 2, 3]
    nr = len(ring)
    els = rng.sample(RING_ELEMENTS, nr)
    if rng.random() < 0.3:
        els[rng.randrange(1, nr)] = els[0]                     # one element twice: told apart by the geometry only
    bonds = [[i, (i + 1) % nr] for i in range(nr)]
    subs = [(0, [-9, -9, 10])]
    if rng.random() < 0.5:
        subs.append((nr - 1, [pts[nr - 1][0] - 4, pts[nr - 1][1] + 12, pts[nr - 1][2] + 10]))
    for host, p in subs:
        pts.append(p if host == 0 else p)
        els.append(rng.choice(["H", "F"]))
        bonds.append([host, len(pts) - 1])
    pos = [[v / 16.0 for v in p] for p in pts]
    pattern_atoms = list(ring) + ([len(ring)] if rng.random() < 0.3 else [])      # sometimes the first substituent too
    return els, pos, bonds, pattern_atoms


def _enumerate_terms(n, bonds):
    nb = {i: [] for i in range(n)}
    for a, b in bonds:
        nb[a].append(b)
        nb[b].append(a)
    angles = [[a, b, c] for b in range(n) for a, c in itertools.combinations(sorted(nb[b]), 2)]
    dihedrals = []
    for b, c in bonds:
        for a in nb[b]:
            for d in nb[c]:
                if a != c and d != b and a != d:
                    dihedrals.append([a, b, c, d])
    impropers = [[b] + sorted(nb[b])[:3] for b in range(n) if len(nb[b]) >= 3]
    return angles, dihedrals, impropers


def _coeff(kind, k, new=False):
    base = 1000 if new else 0
    if kind == "bond":
        return "harmonic %.1f %.3f" % (base + 100 + 7 * k, 1.2 + 0.01 * k)
    if kind == "angle":
        return "harmonic %.1f %.1f" % (base + 20 + 3 * k, 60.0 + k)
    if kind == "dihedral":
        return "harmonic %.2f %d %d" % (base + 1 + 0.25 * k, [1, -1][k % 2], 1 + k % 3)
    return "fourier %.2f %d %d %d" % (base + 2 + 0.5 * k, 1, -1, k % 2)


def gen_ff_world(rng, cell_kind, pat_fmt):
    for _attempt in range(200):
        els, P, bonds, pat_atoms = _ring_template(rng)
        n = len(els)
        angles, dihedrals, impropers = _enumerate_terms(n, bonds)
        template = [("bond", t) for t in bonds] + [("angle", t) for t in angles] + [("dihedral", t) for t in dihedrals] \
            + [("improper", t) for t in impropers]
        template = [(kind, t, _coeff(kind, i)) for i, (kind, t) in enumerate(template)]
        # the replacement pattern re-defines some of the terms among the pattern atoms (candidates are drawn before some
        # terms are left out of the structure, so a replacement term may also be new to the structure)
        inside = [(i, kind, t) for i, (kind, t, _) in enumerate(template) if kind != "improper" and set(t) <= set(pat_atoms)]
        nonbond = [x for x in inside if x[1] != "bond"]
        chosen = {rng.choice(nonbond)[0]}
        for x in rng.sample(inside, rng.randint(1, min(3, len(inside)))):
            chosen.add(x[0])
        pidx = {a: i for i, a in enumerate(pat_atoms)}
        repl_ff = {"bond": [], "angle": [], "dihedral": [], "improper": []}
        for i in sorted(chosen):
            kind, t, _ = template[i]
            tt = [pidx[a] for a in t]
            if rng.random() < 0.5:
                tt.reverse()                                  # the same term, listed backwards
            repl_ff[kind].append({"a": tt, "c": _coeff(kind, i, new=True)})
        kept = [x for x in template if rng.random() >= 0.15]
        pat_els = [els[a] for a in pat_atoms]
        pat_pos = [P[a] for a in pat_atoms]
        R = [(e, list(p)) for e, p in zip(pat_els, pat_pos)]
        new_atoms = []
        if rng.random() < 0.4:
            host = rng.randrange(len(pat_atoms))
            R.append(("Cl", [pat_pos[host][0] + 0.5, pat_pos[host][1] - 0.75, pat_pos[host][2] - 1.25]))
            new_atoms.append(len(R) - 1)
            repl_ff["bond"].append({"a": [host, len(R) - 1], "c": "harmonic 2222.0 1.700"})
            other = (host + 1) % len(pat_atoms)
            repl_ff["angle"].append({"a": [other, host, len(R) - 1], "c": "harmonic 3333.0 109.5"})
        cell = _cell_of(rng, cell_kind)
        sites = [(i, j, k) for i in (1, 3) for j in (1, 3) for k in (1, 3)]
        rng.shuffle(sites)
        nfrag = rng.randint(2, 3)
        shift = [rng.randint(0, 16) / 4.0 for _ in range(3)] if cell_kind == "ortho" else [0.0, 0.0, 0.0]
        atoms, frags = [], []
        ff = {"bond": [], "angle": [], "dihedral": [], "improper": []}
        for site in sites[:nfrag]:
            M = rng.choice(ROTS)
            mid = _frac_to_cart([s / 4.0 for s in site], cell)
            c0 = [mid[c] + shift[c] - _apply(M, [0.75, 0.75, 0.0])[c] for c in range(3)]
            g = lambda p: [c0[c] + _apply(M, p)[c] for c in range(3)]
            base = len(atoms)
            upos = []
            for e, p in zip(els, P):
                x = g(p)
                upos.append(x)
                atoms.append((e, _wrap_ortho(x, cell) if cell_kind == "ortho" else x))
            for kind, t, c in kept:
                ff[kind].append({"a": [base + a for a in t], "c": c})
            frags.append({"atoms": [base + a for a in pat_atoms], "upos": [_q3(upos[a]) for a in pat_atoms],
                          "new": [{"el": R[i][0], "pos": _q3(g(R[i][1]))} for i in new_atoms]})
        nplanted = len(atoms)
        # bystanders: single atoms and one bonded pair with a bond term of its own
        rest = sites[nfrag:]
        for site in rest[:rng.randint(1, 3)]:
            x = [_frac_to_cart([s / 4.0 for s in site], cell)[c] + shift[c] for c in range(3)]
            atoms.append((rng.choice(BYSTANDERS + [els[0]]), _wrap_ortho(x, cell) if cell_kind == "ortho" else x))
        site = rest[-1]
        x = [_frac_to_cart([s / 4.0 for s in site], cell)[c] + shift[c] for c in range(3)]
        y = [x[0] + 1.25, x[1] + 0.5, x[2]]
        for e, p in (("Zr", x), ("O", y)):
            atoms.append((e, _wrap_ortho(p, cell) if cell_kind == "ortho" else p))
        ff["bond"].append({"a": [len(atoms) - 2, len(atoms) - 1], "c": "harmonic 777.0 2.100"})
        # the pattern fits every copy in one way only, and nothing else (brute force)
        cand = candidate_tuples([e for e, _ in atoms], [p for _, p in atoms], cell, pat_els, pat_pos, 0.25)
        if sorted(cand) != sorted(tuple(f["atoms"]) for f in frags):
            continue
        m = rng.choice(ROTS)
        sh = [rng.randint(0, 16) / 8.0 for _ in range(3)]
        mv = lambda p: [_apply(m, p)[c] + sh[c] for c in range(3)]
        q = core.q
        pbonds = [[pidx[a], pidx[b]] for a, b in bonds if a in pidx and b in pidx]
        return {
            "kind": "gen", "cell_kind": cell_kind, "in_fmt": "lmpdat", "pat_fmt": pat_fmt, "out_fmt": "lmpdat",
            "cell": [[q(v) for v in row] for row in cell],
            "atoms": [{"el": e, "pos": _q3(x), "q": q(Fraction(rng.randint(-8, 8), 16))} for e, x in atoms],
            "pattern": [{"el": e, "pos": _q3(mv(p))} for e, p in zip(pat_els, pat_pos)], "pattern_bonds": pbonds,
            "repl": [{"el": e, "pos": _q3(mv(p))} for e, p in R], "repl_bonds": pbonds,
            "chargefile": [q(Fraction(rng.randint(-16, 16), 32)) for _ in range(len(atoms))],
            "bonds": [], "nplanted": nplanted, "with_bonds": False, "split_types": False,
            "ff": ff, "repl_ff": repl_ff, "ffw": {"fragments": frags},
        }
    raise RuntimeError("no unambiguous ring world in 200 draws")


# ====================================================================== LAMMPS data files with terms: writer, reader

SECTIONS = (("bond", "Bonds", "Bond Coeffs", "bond types", "bonds"), ("angle", "Angles", "Angle Coeffs", "angle types", "angles"),
            ("dihedral", "Dihedrals", "Dihedral Coeffs", "dihedral types", "dihedrals"),
            ("improper", "Impropers", "Improper Coeffs", "improper types", "impropers"))


def write_ff_lmpdat(path, rows, cell, ff):
    """a LAMMPS data file (atom style full) written by hand: one atom type per element, one term type per distinct
    coefficient text; `cell` None: a pattern file without a box"""
    from ase.data import atomic_masses, atomic_numbers
    els = []
    for r in rows:
        if r["el"] not in els:
            els.append(r["el"])
    tables = {}
    for kind, *_ in SECTIONS:
        tab = []
        for t in ff.get(kind, []):
            if t["c"] not in tab:
                tab.append(t["c"])
        tables[kind] = tab
    with open(path, "w") as f:
        f.write("terms (written by the C20 harness)\n\n%d atoms\n" % len(rows))
        for kind, _, _, _, word in SECTIONS:
            f.write("%d %s\n" % (len(ff.get(kind, [])), word))
        f.write("\n%d atom types\n" % len(els))
        for kind, _, _, word, _ in SECTIONS:
            if tables[kind]:
                f.write("%d %s\n" % (len(tables[kind]), word))
        if cell is not None:
            c = [[fl(v) for v in row] for row in cell]
            f.write("\n0.0 %.8f xlo xhi\n0.0 %.8f ylo yhi\n0.0 %.8f zlo zhi\n" % (c[0][0], c[1][1], c[2][2]))
            if c[1][0] or c[2][0] or c[2][1]:
                f.write("%.8f %.8f %.8f xy xz yz\n" % (c[1][0], c[2][0], c[2][1]))
        f.write("\nMasses\n\n")
        for i, e in enumerate(els):
            f.write("%d %.6f # %s\n" % (i + 1, atomic_masses[atomic_numbers[e]], e))
        for kind, _, coeffs, _, _ in SECTIONS:
            if tables[kind]:
                f.write("\n%s\n\n" % coeffs)
                for i, c in enumerate(tables[kind]):
                    f.write("%d %s\n" % (i + 1, c))
        f.write("\nAtoms\n\n")
        for i, r in enumerate(rows):
            x, y, z = [fl(v) for v in r["pos"]]
            f.write("%d 1 %d %.6f %.8f %.8f %.8f\n" % (i + 1, els.index(r["el"]) + 1, fl(r.get("q", "0")), x, y, z))
        for kind, sec, _, _, _ in SECTIONS:
            if ff.get(kind):
                f.write("\n%s\n\n" % sec)
                for i, t in enumerate(ff[kind]):
                    f.write("%d %d %s\n" % (i + 1, tables[kind].index(t["c"]) + 1, " ".join(str(a + 1) for a in t["a"])))


def read_ff_lmpdat(path):
    """reader of the check's own (nothing of mofun): elements (by mass), coordinates, cell and every force-field term as
    (kind, atom positions in the file's atom order, coefficient tokens)"""
    import numpy as np
    from ase.data import atomic_masses, chemical_symbols
    names = {"Masses": "Masses", "Atoms": "Atoms"}
    for kind, sec, coeffs, _, _ in SECTIONS:
        names[sec] = sec
        names[coeffs] = coeffs
    names["Pair Coeffs"] = "Pair Coeffs"
    data = {v: [] for v in names.values()}
    box, sec = {}, None
    for raw in open(path).read().split("\n")[1:]:
        ln = raw.split("#")[0].strip()
        if not ln:
            continue
        if ln in names or ln.split()[0] == "Atoms":
            sec = names.get(ln, "Atoms")
            continue
        w = ln.split()
        if sec is None:
            if ln.endswith("xlo xhi"):
                box["x"] = float(w[1]) - float(w[0])
            elif ln.endswith("ylo yhi"):
                box["y"] = float(w[1]) - float(w[0])
            elif ln.endswith("zlo zhi"):
                box["z"] = float(w[1]) - float(w[0])
            elif ln.endswith("xy xz yz"):
                box["tilt"] = (float(w[0]), float(w[1]), float(w[2]))
        else:
            data[sec].append(w)
    masses = {int(w[0]): float(w[1]) for w in data["Masses"]}

    def elem(m):
        z = min(range(1, len(atomic_masses)), key=lambda k: abs(atomic_masses[k] - m))
        return chemical_symbols[z] if abs(atomic_masses[z] - m) < 0.1 else "?"
    rows = sorted(data["Atoms"], key=lambda w: int(w[0]))
    ids = {int(w[0]): k for k, w in enumerate(rows)}
    out = {"elems": [elem(masses[int(w[2])]) for w in rows],
           "cart": np.array([[float(w[4]), float(w[5]), float(w[6])] for w in rows]).reshape(-1, 3), "cell": None, "terms": []}
    if "x" in box:
        xy, xz, yz = box.get("tilt", (0.0, 0.0, 0.0))
        out["cell"] = np.array([[box["x"], 0, 0], [xy, box["y"], 0], [xz, yz, box["z"]]])
    for kind, sec_, coeffs, _, _ in SECTIONS:
        table = {int(w[0]): w[1:] for w in data[coeffs]}
        for w in data[sec_]:
            out["terms"].append((kind, tuple(ids[int(v)] for v in w[2:]), table.get(int(w[1]))))
    return out


def norm_coeff(tokens):
    if tokens is None:
        return ("<no coefficient line for this type>",)
    out = []
    for t in (tokens.split() if isinstance(tokens, str) else tokens):
        try:
            out.append(round(float(t), 6))
        except ValueError:
            out.append(t)
    return tuple(out)


def canon_term(kind, t):
    t = tuple(t)
    if kind == "improper":
        return t
    return min(t, tuple(reversed(t)))


# ====================================================================== locating atoms of the written file

class Located:
    """atoms of a written file, found by element and coordinates modulo the lattice of the written structure"""

    def __init__(self, got, cell, dims):
        import numpy as np
        self.np = np
        self.el = list(got["elems"])
        self.pos = got["cart"] if "cart" in got else got["frac"].dot(got["cell"])
        self.cell = np.array(cell, dtype=float)
        self.final = self.cell * np.array(dims, dtype=float).reshape(3, 1)
        self.inv = np.linalg.inv(self.final)
        self.dims = dims

    def images(self):
        return itertools.product(range(self.dims[0]), range(self.dims[1]), range(self.dims[2]))

    def offset(self, mult):
        return self.np.array(mult, dtype=float).dot(self.cell)

    def find(self, el, x, tol):
        np = self.np
        d = self.pos - np.array(x, dtype=float)
        f = d.dot(self.inv)
        d = (f - np.round(f)).dot(self.final)
        ok = (np.abs(d).max(axis=1) <= tol)
        return [int(i) for i in np.nonzero(ok)[0] if el is None or self.el[i] == el]


def _dims(o):
    return [int(v) for v in o["replicate"]] if o["replicate"] else [1, 1, 1]


def _read_written(path):
    from . import c20
    sfx = os.path.splitext(path)[1]
    if sfx == ".cif":
        return c20.structure_from_cif(path), 5e-3
    if sfx == ".lmpdat":
        return read_ff_lmpdat(path), 2e-5
    return None, None


def must_succeed(world, o):
    """worlds of this module are built so that a run with these options cannot legitimately fail"""
    if "tol" not in world and "ff" not in world:
        return False
    if o["mic"] is not None or o["dump"] or o["framework_element"]:
        return False
    if o["fraction"] is not None and not 0.0 <= fl(o["fraction"]) <= 1.0:
        return False
    return True


# ====================================================================== oracle (1): the tolerance, by its effect

def classify(dev, atol):
    if abs(dev) <= INSIDE * atol:
        return "inside"
    if abs(dev) >= OUTSIDE * atol:
        return "outside"
    return "undecided"


def _describe(fr_, world, atol):
    els = [world["atoms"][a]["el"] for a in fr_["atoms"]]
    return "copy of the pattern at input atoms %s (%s; long axis %s; far end moved along it by %+.4f A, |d| = %.2f x atol)" % (
        fr_["atoms"], "-".join(els), {"axis": "along a Cartesian axis", "diag": "along a diagonal", "random": "in a general direction"}[fr_["orient"]],
        fl(fr_["dev"]), abs(fl(fr_["dev"])) / atol)


def oracle_tolerance(world, o, out_path, reported):
    """None or text.  `reported`: the matches printed by a find-only run (list of index tuples) or None"""
    if "tol" not in world or o["mic"] is not None or o["dump"] or o["framework_element"]:
        return None
    if not o["find"]:
        return None
    if o["replace"] and o["fraction"] is not None and fl(o["fraction"]) != 1.0:
        return None
    atol = fl(o["atol"]) if o["atol"] is not None else DEFAULT_ATOL
    try:
        got, tol = _read_written(out_path)
    except Exception as e:
        return "the written file cannot be read back by an independent reader: %r" % (e,)
    if got is None:
        return None
    cell = [[fl(v) for v in row] for row in world["cell"]]
    loc = Located(got, cell, _dims(o))
    rows = world["atoms"]
    T = world["tol"]
    if not o["replace"]:
        if reported is None:
            return None                                   # "does not print its matches" is reported by the caller
        rep = {frozenset(t) for t in reported}
        allowed = set()
        for fr_ in T["fragments"]:
            cls = classify(fl(fr_["dev"]), atol)
            for mult in loc.images():
                off = loc.offset(mult)
                ids = []
                for a, up in zip(fr_["atoms"], fr_["upos"]):
                    hit = loc.find(rows[a]["el"], [fl(v) for v in up] + off, tol)
                    if len(hit) != 1:
                        ids = None
                        break
                    ids.append(hit[0])
                if ids is None:
                    continue                              # the atoms themselves are the business of the input-data oracle
                s = frozenset(ids)
                if cls != "outside":
                    allowed.add(s)
                if cls == "inside" and s not in rep:
                    return ("tolerance %g%s: the %s%s, atoms %s of the written structure, is within the tolerance but is not among "
                            "the reported matches %s" % (atol, "" if o["atol"] is not None else " (default)", _describe(fr_, world, atol),
                                                         "" if mult == (0, 0, 0) else " image %s" % (mult,), sorted(s),
                                                         sorted(tuple(sorted(t)) for t in rep)))
                if cls == "outside" and s in rep:
                    return ("tolerance %g%s: the %s is deformed by more than the tolerance but is reported as a match %s"
                            % (atol, "" if o["atol"] is not None else " (default)", _describe(fr_, world, atol), sorted(s)))
        extra = [sorted(s) for s in rep if s not in allowed]
        if extra:
            return "reported matches %s are no copies of the pattern (the world holds none there, by construction)" % extra[:4]
        return None
    # find + replace, every match replaced
    k = T["changed"]
    for fr_ in T["fragments"]:
        cls = classify(fl(fr_["dev"]), atol)
        if cls == "undecided":
            continue
        for mult in loc.images():
            off = loc.offset(mult)
            a = fr_["atoms"][k]
            old = loc.find(rows[a]["el"], [fl(v) for v in fr_["upos"][k]] + off, tol)
            new = [loc.find(r["el"], [fl(v) for v in r["pos"]] + off, atol + tol + 2e-3) for r in fr_["new"]]
            if cls == "inside" and (old or not all(new)):
                return ("tolerance %g%s: the %s%s is within the tolerance but was not replaced: its %s atom is %s at its place, "
                        "the replacement's %s %s" % (
                            atol, "" if o["atol"] is not None else " (default)", _describe(fr_, world, atol),
                            "" if mult == (0, 0, 0) else " image %s" % (mult,), rows[a]["el"], "still" if old else "no longer",
                            "/".join(r["el"] for r in fr_["new"]),
                            "stand where the pattern puts them" if all(new) else "are not where the pattern puts them"))
            if cls == "outside":
                near = [loc.find(r["el"], [fl(v) for v in r["pos"]] + off, 0.3) for r in fr_["new"]]
                if not old or any(near):
                    return ("tolerance %g%s: the %s is deformed by more than the tolerance but was replaced"
                            % (atol, "" if o["atol"] is not None else " (default)", _describe(fr_, world, atol)))
    return None


# ====================================================================== oracle (2): force-field terms of the written file

def _expected_terms(world, o, loc, tol, replaced):
    """expected (kind, canonical tuple of written-file indices, coefficients) for a given set of replaced (copy, image)s;
    returns (list, None) or (None, text)"""
    rows = world["atoms"]
    exp = []
    for mult in loc.images():
        off = loc.offset(mult)
        at = {}
        for kind in ("bond", "angle", "dihedral", "improper"):
            for t in world["ff"].get(kind, []):
                ids = []
                for a in t["a"]:
                    if a not in at:
                        hit = loc.find(rows[a]["el"], [fl(v) for v in rows[a]["pos"]] + off, tol)
                        if len(hit) != 1:
                            return None, "input atom %d (%s)%s is %s in the written file" % (
                                a, rows[a]["el"], "" if mult == (0, 0, 0) else " image %s" % (mult,),
                                "not" if not hit else "%d times" % len(hit))
                        at[a] = hit[0]
                    ids.append(at[a])
                exp.append([kind, canon_term(kind, ids), norm_coeff(t["c"]), True])
    frs = world["ffw"]["fragments"]
    for (fi, mult) in replaced:
        fr_ = frs[fi]
        off = loc.offset(mult)
        ids = []
        for a, up in zip(fr_["atoms"], fr_["upos"]):
            hit = loc.find(rows[a]["el"], [fl(v) for v in up] + off, tol)
            if len(hit) != 1:
                return None, "pattern atom (input atom %d) is %s in the written file" % (a, "not" if not hit else "there several times")
            ids.append(hit[0])
        for r in fr_["new"]:
            hit = loc.find(r["el"], [fl(v) for v in r["pos"]] + off, 5e-3)
            if len(hit) != 1:
                return None, "the atom (%s) the replacement pattern adds to the copy at input atoms %s is %s" % (
                    r["el"], fr_["atoms"], "not in the written file where the pattern puts it" if not hit else "there several times")
            ids.append(hit[0])
        for kind in ("bond", "angle", "dihedral", "improper"):
            for t in world["repl_ff"].get(kind, []):
                key = canon_term(kind, [ids[a] for a in t["a"]])
                for e in exp:
                    if e[3] and e[0] == kind and e[1] == key:
                        e[3] = False                       # re-defined by the replacement pattern: same atoms, same roles
                exp.append([kind, key, norm_coeff(t["c"]), None])
    return [(e[0], e[1], e[2]) for e in exp if e[3] is not False], None


def _term_text(t, loc):
    return "%s %s [%s] %s" % (t[0], list(t[1]), "-".join(loc.el[i] for i in t[1]), " ".join(str(x) for x in t[2]))


def oracle_terms(world, o, out_path):
    if "ff" not in world or o["mic"] is not None or o["dump"] or o["framework_element"] or o["pp"]:
        return None
    if os.path.splitext(out_path)[1] != ".lmpdat":
        return None
    if o["replace"] and not o["find"]:
        replace = False                                   # documented: a replacement without a find pattern does nothing
    else:
        replace = bool(o["find"] and o["replace"])
    try:
        got, tol = _read_written(out_path)
    except Exception as e:
        return "the written file cannot be read back by an independent reader: %r" % (e,)
    cell = [[fl(v) for v in row] for row in world["cell"]]
    loc = Located(got, cell, _dims(o))
    have = sorted((k, canon_term(k, t), norm_coeff(c)) for k, t, c in got["terms"])
    copies = [(fi, mult) for mult in loc.images() for fi in range(len(world["ffw"]["fragments"]))]
    if not replace:
        selections = [()]
    else:
        p = fl(o["fraction"]) if o["fraction"] is not None else 1.0
        if p >= 1.0:
            selections = [tuple(copies)]
        else:
            x = p * len(copies)
            sizes = sorted({max(0, math.floor(x)), min(len(copies), math.ceil(x))})
            selections = [s for k in sizes for s in itertools.combinations(copies, k)]
    first, fewest = None, None
    for sel in selections:
        exp, bad = _expected_terms(world, o, loc, tol, sel)
        if exp is None:
            first = first or bad
            continue
        exp = sorted(exp)
        if exp == have:
            return None
        missing = [t for t in exp if t not in have]
        extra = [t for t in have if t not in exp]
        if fewest is None or len(missing) + len(extra) < fewest:          # report the selection that fits best
            fewest = len(missing) + len(extra)
            first = ("force-field terms of the written file are not those of the input%s: missing %s; not expected %s" % (
                " with the terms of the replacement pattern overriding the terms between the same atoms in the same roles"
                if replace else " (nothing was to be replaced)",
                [_term_text(t, loc) for t in missing[:4]] + (["… %d in all" % len(missing)] if len(missing) > 4 else []),
                [_term_text(t, loc) for t in extra[:4]] + (["… %d in all" % len(extra)] if len(extra) > 4 else [])))
    if len(selections) > 1:
        return "for no selection of %s of the %d copies do the force-field terms of the written file fit; e.g. %s" % (
            "/".join(str(s) for s in sorted({len(s) for s in selections})), len(copies), first)
    return first
