"""C08 — self-replacement is a no-op and element substitutions are reversible (replace_pattern_in_structure)."""
import os
import random
import json
from fractions import Fraction

import numpy as np

from .. import core, findlib
from .. import gen_replace_c05 as G
from .. import gen_c08_exact as GX
from .. import gen_c08_hub as GH
from . import c05 as C5

RULE = ("[ordinary streams] (a) self-replacement P→P on planted structures (all cell kinds, poses, boundary placements, all findlib patterns "
        "incl. symmetric ones, 1–3 copies + decoys) that carry random bonds/angles/dihedrals/impropers with coefficient "
        "tables, unique charges and groups; patterns without terms; (a') RING stream: every matched copy of a ≥3-atom pattern "
        "carries all three angles (i,j,k),(j,k,i),(k,i,j) over its first three atoms and (≥4 atoms) the four torsions "
        "around the 4-ring of its first four atoms, each listed forwards or backwards with random types, and the search = "
        "replacement pattern itself carries ONE of these angles / torsions (type 0, no coefficient table): the pattern's "
        "term must supersede only the identical structure term; (b) site substitution A→B then B→A (B's element absent "
        "from the structure): single-atom sites (exact) and multi-atom site patterns with one element substituted "
        "(within 4·atol); (c) replace ALL occurrences by a pattern that does not contain the search pattern, then search "
        "again; (d, thorough) self-replacement on the repository's MOF files. Non-trivial = at least one match was "
        "replaced and (a) a term touches a matched atom / (b) the first replacement changed an element / (c) the first "
        "search found something. Tolerances: default-size (0.02–0.1) with copies perturbed ≤ atol/8, and in ~45 % of the "
        "cases of every stream a NON-default tolerance (0.1, 0.2, 0.01) with the planted copies distorted by up to 0.6·atol "
        "(0.35·atol for multi-atom A→B→A), for 0.01 also beyond the tolerance; every independent search of the oracles "
        "uses the case's own tolerance, and the number of replaced sites must equal what a plain search with that "
        "tolerance reports. replace_fraction < 1: in a quarter of the (a) cases, in a stream of self-replacements "
        "with replace_all=True (2–3 differently posed copies, fraction 1 / 0.75 / 0.5 / 0.34; required: atom count and "
        "(element, position mod lattice) multiset unchanged within 4·atol), and in (b): A→B on a random part of the sites, "
        "B→A on all B sites must restore the multiset. (b) also with B = A + one element substituted + one atom of "
        "unchanged element re-positioned by 0.02–0.09 Å (tight tolerance: more than 1.3·atol; and atol 0.1 / 0.2). "
        "TILT: in (b) and in the replace_all stream also 6–8 Å long patterns whose copies are tilted out of the pattern's own "
        "orientation by 1e-3 rad … 1.3·atol rad (angle × lever arm > tolerance while angle[rad] < atol[Å]). "
        "AXFLIP: in (b) site patterns whose replacement B has its longest atom pair exactly along x, y or z (A's is generic), "
        "sites unperturbed and turned by exactly 180° about a coordinate axis. "
        "[TAGGED stream, known finding self-replacement-adds-the-patterns-own-terms] self-replacement with patterns that CARRY "
        "bonds/angles/dihedrals on structures without (or with other) terms, plus the repository pair uio66-triclinic.lmpdat + "
        "uio66-linker.cml on every run: everything except the term tuples must be unchanged, no tuple may be lost, every gained "
        "tuple must be the image of one of the pattern's own terms on the atoms of a match — then (and only then) the case is "
        "attributed to the finding. "
        "HISTORY: 30 % of the plain / fraction (b) cases first search the unit cell, then let the library replicate it, and run A→B→A "
        "on the supercell object. MIRROR: in (b) a weakly chiral pattern (mirror misfit 0.5 Å, atol 0.1) next to its mirror image placed at coordinates "
        "above 0.7 × cell length. "
        "EXACT stream (e): 1–3 UNPERTURBED rigid copies (exact up to float rounding; ground truth by construction) of any ≥2-atom "
        "pattern (not ch3, whose H are only approximately equivalent) + spectator atoms; cells orthorhombic, NEARLY orthorhombic "
        "(diagonal + off-diagonal entries of 1e-7…3e-2 Å in a random subset of the six places), triclinic ±, rotated; poses random / "
        "identity / quarter and half turns / NEAR-(ANTI)PARALLEL (copy's long axis at eps or pi ± eps, eps = 1e-8…3e-2 rad log-uniform, "
        "to the pattern's long axis, after a random spin about it); placements anywhere or hugging faces / edges / corners, 15 % "
        "given outside the cell; B = A with one atom / the last atom / two atoms (distinct new elements) substituted in place, or one "
        "substituted + another re-positioned by 0.05–0.4 Å; every tolerance 0.01…0.2; 20 % replace_fraction < 1 on the way out. "
        "Required: number replaced = number of planted copies (× fraction); after A→B no A is found; B→A finds as many; the "
        "(element, position mod lattice) multiset is restored within 4e-6 Å (rounding noise; NOT a multiple of atol). A quarter of "
        "the stream is a self-replacement with replace_all=True judged with the same 4e-6 Å. "
        "HUB stream (f, judged like e): DISTINCT occurrences that SHARE an atom the substitution keeps: 1–2 hub atoms with 2–4 arms, "
        "each arm an exact rigid image of A = hub + 1 or 2 arm atoms (one occurrence per arm), the hub listed first / last / anywhere "
        "in the pattern; B = A with one arm atom substituted by an absent element (in place or moved 0.125–0.375 Å outwards on its "
        "bond); ground truth (occurrences = planted arms, before and after the substitution) confirmed by a brute-force distance "
        "enumeration with margin 4·atol+0.05 Å in the generator; a quarter with replace_fraction < 1.")

MOF = os.path.join(core.REPO, "")


def norm_tuple(t):
    t = tuple(int(x) for x in t)
    return min(t, t[::-1])


def term_sets(j):
    return {k: {norm_tuple(t["a"]) for t in j["terms"][k]} for k in ("bond", "angle", "dihedral", "improper")}


def elem_of(j, i):
    return j["types"]["elem"][j["atoms"][i]["ty"]]


# ------------------------------------------------------------------ (a) self-replacement

def oracle_self(sj, out):
    """P → P: every atom keeps position, element, charge, group (atom by atom); atom count and the sets of
    bonded / angled / torsion atom tuples are unchanged"""
    if "ok" not in out:
        return "self-replacement raised %s" % out.get("err")
    if not out.get("inputs_unchanged", True):
        return "replace_pattern_in_structure modified one of its inputs"
    r = out["ok"]
    if len(r["atoms"]) != len(sj["atoms"]):
        return "atom count changed: %d -> %d" % (len(sj["atoms"]), len(r["atoms"]))
    for i, (a, b) in enumerate(zip(sj["atoms"], r["atoms"])):
        if any(not core.close(x, y, 1e-9) for x, y in zip(a["pos"], b["pos"])):
            return "atom %d moved: %s -> %s" % (i, [float(Fraction(v)) for v in a["pos"]], [float(Fraction(v)) for v in b["pos"]])
        if elem_of(sj, i) != elem_of(r, i):
            return "atom %d changed element %s -> %s" % (i, elem_of(sj, i), elem_of(r, i))
        if not core.close(a["q"], b["q"], 1e-12):
            return "atom %d changed charge %s -> %s" % (i, a["q"], b["q"])
        if a["g"] != b["g"]:
            return "atom %d changed group %s -> %s" % (i, a["g"], b["g"])
    ta, tb = term_sets(sj), term_sets(r)
    for k in ta:
        if ta[k] != tb[k]:
            return "%s atom tuples changed: lost %s, gained %s" % (k, sorted(ta[k] - tb[k])[:4], sorted(tb[k] - ta[k])[:4])
    if core.same(sj["cell"], r["cell"], numeric=True):
        return "cell changed"
    return None


def self_case(rng, tier):
    if rng.random() < 0.06:
        # cell, structure and pattern typed (and constructed) with plain ints
        ic = G.make_int_case(rng, tier)
        return {"op": "c08-self", "s": ic["s"], "p": ic["p"], "atol": ic["atol"], "seed": ic["seed"], "info": ic["info"],
                "int_typed": True}
    if rng.random() < 0.08:
        # occurrences that SHARE an atom: a centre with 3–4 partners, two-atom pattern, all or part of them "replaced"
        star = G.make_star_case(rng, tier)
        case = {"op": "c08-self", "s": G.add_terms(rng, star["s"], density=1.0), "p": star["p"], "atol": star["atol"],
                "seed": star["seed"], "info": star["info"]}
        if rng.random() < 0.5:
            case["fraction"] = star["fraction"]
        return case
    base = G.make_case(rng, tier, hints=(None, None, None), rp_kind="keep_all+far", replace_all=False)   # structure + search pattern; Rp unused
    sj = G.add_terms(rng, base["s"], density=rng.choice([0.5, 1.0, 1.5]))
    case = {"op": "c08-self", "s": sj, "p": base["p"], "atol": base["atol"], "seed": base["seed"], "info": base["info"]}
    if rng.random() < 0.25:
        case["fraction"] = rng.choice([0.5, 0.34, 0.75, 0.6])      # only a random part of the matches is "replaced"
    if rng.random() < 0.4:
        # the pattern as a user would cut it out of the structure (`structure[[i, j, …]]` keeps the parent's whole type
        # table, so the pattern carries type entries it does not use), and the replacement applied twice in a row
        if rng.random() < 0.5:
            # the structure declares an atom type that no atom uses (e.g. a LAMMPS file declaring spare types)
            sj = json.loads(json.dumps(sj))
            sj["types"]["elem"].append("Ar")
            sj["types"]["label"].append("Ar_spare")
            sj["types"]["mass"].append(core.q(39.948))
            if sj["types"]["pair"]:
                sj["types"]["pair"].append("0.1 3.4 # Ar_spare")
            case["s"] = sj
        case["p"] = sliced_pattern(sj, base["p"])
        case["twice"] = True
    return case


def sliced_pattern(sj, pj):
    """pj re-typed against the structure's type tables (what Atoms.__getitem__ returns for a cut-out fragment)"""
    elems = sj["types"]["elem"]
    out = json.loads(json.dumps(pj))
    for a in out["atoms"]:
        a["ty"] = elems.index(pj["types"]["elem"][a["ty"]])
    out["types"] = dict(out["types"], elem=list(elems), label=list(sj["types"]["label"]), mass=list(sj["types"]["mass"]), pair=[])
    return out


def _rotations(t):
    t = list(t)
    return [t[k:] + t[:k] for k in range(len(t))]


def ring_case(rng, tier):
    """self-replacement where the matched atoms form small rings in the structure's topology (several angle / torsion
    terms over the same atom SET) and the pattern carries one of those terms"""
    names = [p for p in findlib.PATTERNS if len(findlib.PATTERNS[p][0]) >= 3]
    for attempt in range(20):
        base = G.make_case(rng, tier, hints=(None, None, None), pname=rng.choice(names), rp_kind="keep_all+far", replace_all=False)
        sj = G.add_terms(rng, base["s"], density=rng.choice([0.5, 1.0]))
        pre = findlib.run_replace(sj, base["p"], base["p"], atol=base["atol"], seed=base["seed"])
        used = pre.get("used") or []
        if used:
            break
    sj = json.loads(json.dumps(sj))
    pj = json.loads(json.dumps(base["p"]))
    n = len(pj["atoms"])
    kinds = [("angle", 3)] + ([("dihedral", 4)] if n >= 4 else [])
    for kind, ar in kinds:
        rots = _rotations(range(ar))
        own = list(rng.choice(rots))
        if rng.random() < 0.5:
            own.reverse()
        pj["terms"][kind] = [{"a": own, "ty": 0, "x": []}]
        nt = max(1, len(sj["types"][kind]))
        ring_keys = set()
        new_terms = []
        for m in used:
            for rot in rots:
                t = [m["idx"][k] for k in rot]
                if rng.random() < 0.5:
                    t.reverse()
                key = norm_tuple(t)
                if key in ring_keys:
                    continue
                ring_keys.add(key)
                new_terms.append({"a": t, "ty": rng.randrange(nt), "x": []})
        kept = [t for t in sj["terms"][kind] if norm_tuple(t["a"]) not in ring_keys]
        allt = kept + new_terms
        rng.shuffle(allt)
        sj["terms"][kind] = allt
    if rng.random() < 0.5 and n >= 2:
        # a bond of the pattern that the structure already has (listed the other way round)
        pj["terms"]["bond"] = [{"a": [0, 1], "ty": 0, "x": []}]
        keys = {norm_tuple(t["a"]) for t in sj["terms"]["bond"]}
        nt = max(1, len(sj["types"]["bond"]))
        for m in used:
            t = [m["idx"][1], m["idx"][0]]
            if norm_tuple(t) not in keys:
                keys.add(norm_tuple(t))
                sj["terms"]["bond"].append({"a": t, "ty": rng.randrange(nt), "x": []})
    return {"op": "c08-self", "s": sj, "p": pj, "atol": base["atol"], "seed": base["seed"], "info": base["info"],
            "ring": True, "ring_used": [m["idx"] for m in used]}


def run_self(case):
    with C5.int_constructed([case["s"], case["p"]] if case.get("int_typed") else []):
        return findlib.run_replace(case["s"], case["p"], case["p"], atol=case["atol"], seed=case["seed"],
                                   fraction=case.get("fraction", 1.0), replace_all=case.get("replace_all", False))


def self_all_case(rng, tier):
    """self-replacement with replace_all=True (every matched atom is removed and the pattern's atoms are inserted in
    its place), on all or on a random part of the matches: ≥ 2 copies in different poses, multi-atom patterns"""
    names = [p for p in findlib.PATTERNS if len(findlib.PATTERNS[p][0]) >= 2]
    tilt = rng.random() < 0.35          # long patterns, copies tilted by a small angle out of the pattern's orientation
    base = G.make_case(rng, tier, hints=(None, None, None), pname=rng.choice(list(G.LONG_PATTERNS)) if tilt else rng.choice(names),
                       rp_kind="keep_all+far", replace_all=False, atol=rng.choice([0.05, 0.02]), distort=False, exact=False,
                       tilt=tilt, ncopies=rng.randint(1, 2) if tilt else rng.randint(2, 3))
    return {"op": "c08-self-all", "s": base["s"], "p": base["p"], "atol": base["atol"], "seed": base["seed"],
            "info": base["info"], "replace_all": True, "fraction": rng.choice([1.0, 0.5, 0.5, 0.34, 0.75])}


def oracle_self_all(case, out):
    """replace_all=True: atoms are re-created, so only what the property states for ANY self-replacement is required:
    same atom count and the same multiset of (element, position mod lattice) within the bound proportional to atol"""
    if "ok" not in out:
        return "self-replacement (replace_all) raised %s" % out.get("err")
    sj, r = case["s"], out["ok"]
    if len(r["atoms"]) != len(sj["atoms"]):
        return "atom count changed: %d -> %d" % (len(sj["atoms"]), len(r["atoms"]))
    cell = C5.cell_of(sj)
    scale = float(np.abs(C5.positions(sj)).max()) + float(np.abs(cell).sum())
    tol = 4 * (case["atol"] + 1e-5 * scale) + 1e-6
    d = C5.multiset_equal_mod_lattice(multiset(sj), multiset(r), cell, tol)
    if d:
        return ("self-replacement with replace_all=True, replace_fraction=%s changes the (element, position mod lattice) "
                "multiset (tol %.3g): %s" % (case.get("fraction", 1.0), tol, d))
    return None


# ------------------------------------------------------------------ KNOWN FINDING: the pattern's own terms are added

FINDING_TERMS = "self-replacement-adds-the-patterns-own-terms"


def term_difference(before, after, pattern, matches):
    """(lost, added, foreign): tuples of `before` missing in `after`; tuples gained; gained tuples that are NOT the image of a
    term of the pattern on the atoms of one of the matches (index tuples in search-pattern order). All per kind."""
    ta, tb, tp = term_sets(before), term_sets(after), pattern["terms"]
    lost, added, foreign = {}, {}, {}
    for k in ta:
        images = {norm_tuple([m[a] for a in t["a"]]) for m in matches for t in tp[k] if all(a < len(m) for a in t["a"])}
        lo, ad = ta[k] - tb[k], tb[k] - ta[k]
        if lo:
            lost[k] = sorted(lo)
        if ad:
            added[k] = sorted(ad)
        if ad - images:
            foreign[k] = sorted(ad - images)
    return lost, added, foreign


def oracle_self_terms(case, out):
    """self-replacement with a pattern that CARRIES terms. Returns None | ("finding", text, observed) | ("violation", text)"""
    sj = case["s"]
    stripped = json.loads(json.dumps(out))
    if "ok" in out:
        # everything but the term tuples is judged by the ordinary oracle
        stripped["ok"]["terms"] = json.loads(json.dumps(sj["terms"]))
    bad = oracle_self(sj, stripped)
    if bad:
        return ("violation", bad)
    lost, added, foreign = term_difference(sj, out["ok"], case["p"], [m["idx"] for m in (out.get("used") or [])])
    if lost:
        return ("violation", "term atom tuples LOST in a self-replacement: %s" % lost)
    if foreign:
        return ("violation", "term atom tuples gained that are not images of the pattern's own terms on matched atoms: %s" % foreign)
    if added:
        n = sum(len(v) for v in added.values())
        return ("finding", "self-replacement adds %d term tuple(s) — the images of the pattern's own %s on the matched atoms — that the "
                "structure did not have; positions, elements, charges, groups and all existing tuples unchanged"
                % (n, "/".join(sorted(added))), {"added": {k: v[:6] for k, v in added.items()}, "lost": {}, "matches": len(out.get("used") or [])})
    return None


def pattern_with_terms(rng, pj):
    """the pattern carrying random bonds / angles / dihedrals among its own atoms (types 0.., sometimes coefficient tables)"""
    out = json.loads(json.dumps(pj))
    n = len(out["atoms"])
    for kind, ar in (("bond", 2), ("angle", 3), ("dihedral", 4)):
        if n < ar or rng.random() < 0.3:
            continue
        seen = set()
        for _ in range(rng.randint(1, 3)):
            t = rng.sample(range(n), ar)
            if norm_tuple(t) in seen:
                continue
            seen.add(norm_tuple(t))
            out["terms"][kind].append({"a": t, "ty": 0, "x": []})
    if not any(out["terms"][k] for k in out["terms"]) and n >= 2:
        out["terms"]["bond"].append({"a": [0, 1], "ty": 0, "x": []})
    return out


def self_terms_case(rng, tier):
    names = [p for p in findlib.PATTERNS if len(findlib.PATTERNS[p][0]) >= 2]
    base = G.make_case(rng, tier, hints=(None, None, None), pname=rng.choice(names), rp_kind="keep_all+far", replace_all=False,
                       int_rp=False)
    sj = base["s"] if rng.random() < 0.6 else G.add_terms(rng, base["s"], density=0.5)     # mostly structures WITHOUT terms
    if rng.random() < 0.5:
        # no coefficient tables on the structure side (a CIF-like structure): avoids the separate table-alignment finding
        sj = json.loads(json.dumps(sj))
        for k in ("bond", "angle", "dihedral", "improper"):
            sj["types"][k] = []
    return {"op": "c08-self-terms", "s": sj, "p": pattern_with_terms(rng, base["p"]), "atol": base["atol"], "seed": base["seed"],
            "info": base["info"]}


def canonical_self_terms_case():
    """identification snippet: two C–O pairs without bonds, the pattern C–O carries its bond"""
    cell = [[9.0, 0, 0], [-3.0, 10.0, 0], [2.0, -4.0, 11.0]]
    sj = findlib.struct_json(["C", "O", "C", "O", "H"], [[1.0, 1, 1], [2.25, 1, 1], [4.0, 5, 6], [4.0, 6.25, 6], [6.0, 2, 8]], cell,
                             charges=[1 / 16, 2 / 16, 3 / 16, 4 / 16, 5 / 16], groups=[1, 1, 2, 2, 3])
    pj = G.pattern_atoms_json(["C", "O"], [[0.0, 0, 0], [1.25, 0, 0]])
    pj["terms"]["bond"] = [{"a": [0, 1], "ty": 0, "x": []}]
    return {"op": "c08-self-terms", "s": sj, "p": pj, "atol": 0.05, "seed": 0,
            "info": {"cell": "tri-", "pattern": "pair", "boundary": "None", "rp": "self", "copies": 2, "decoys": [], "atol": 0.05,
                     "distorted": "none"}}


# ------------------------------------------------------------------ (b) A → B → A

def multiset(j):
    ps = C5.positions(j)
    return [(elem_of(j, i), ps[i]) for i in range(len(j["atoms"]))]


def site_case(rng, tier):
    if rng.random() < 0.05:
        # integer-typed structure / cell / site patterns (B = A with one element substituted, whole-number coordinates)
        ic = G.make_int_case(rng, tier)
        bj = json.loads(json.dumps(ic["p"]))
        k = rng.randrange(len(bj["atoms"]))
        bj["types"] = dict(bj["types"], elem=bj["types"]["elem"] + ["Zn"], label=bj["types"]["label"] + ["Zn"],
                           mass=bj["types"]["mass"] + [core.q(65.38)])
        bj["atoms"][k]["ty"] = len(bj["types"]["elem"]) - 1
        return {"op": "c08-site", "s": ic["s"], "a": ic["p"], "b": bj, "atol": ic["atol"], "seed": ic["seed"],
                "single": False, "info": ic["info"], "variant": "int-typed", "int_typed": True}
    single = rng.random() < 0.4
    variant = "plain"
    kw = {}
    if single:
        pname = "single"
    else:
        variant = rng.choice(["plain", "fraction", "fraction", "nudge", "nudge", "tilt", "tilt", "axflip", "axflip", "mirror", "mirror"])
        # nudge: only patterns without (near-)symmetry — a symmetric pattern with one atom re-positioned by more than the
        # tolerance can still match its own copy in two numberings (out-of-plane shifts change the distances only to second
        # order), and the way back is then legitimately ambiguous
        names = [p for p in findlib.PATTERNS if p != "single" and (variant != "nudge" or (
            len(findlib.PATTERNS[p][0]) >= 3 and p.split("@")[0] not in G.SYMMETRIC))]
        pname = rng.choice(names)
        if variant == "tilt":
            pname = rng.choice(G.TILT_PATTERNS)
        if variant == "axflip":
            pname = rng.choice(G.AXSITE_PATTERNS)
    rp_kind = "subst"
    if variant == "fraction":
        kw = dict(ncopies=rng.randint(2, 3))
    if variant == "axflip":
        # A's longest pair has a generic direction; B (= A with its last atom substituted and moved further out on its bond)
        # has its longest pair EXACTLY along a coordinate axis; the sites are unperturbed and turned by exactly 180° about a
        # coordinate axis, so that B's axis is exactly antiparallel to the copy's on the way back
        kw = dict(exact=True, tilt=False, flip=False, bent=False, atol=rng.choice([0.05, 0.02, 0.1]), ncopies=rng.randint(1, 2))
        rp_kind = "stretch"
    if variant == "mirror":
        # a weakly chiral site pattern; the structure also holds its MIRROR IMAGE (misfit 0.5 Å, tolerance 0.1) far from the
        # cell origin: not an occurrence, it must stay untouched in both directions
        pname = "twist4"
        kw = dict(mirror_far=True, cell_kind="ortho", atol=0.1, distort=False, exact=False, tilt=False, flip=False, bent=False)
        rp_kind = "subst_last"
    if variant == "tilt":
        # 6–8 Å long site patterns whose copies are tilted by a small angle (1e-3 rad … 1.3·atol rad) out of the pattern's
        # own orientation: the substituted atom sits at the end of a long lever arm
        kw = dict(tilt=True, atol=rng.choice([0.05, 0.05, 0.1, 0.02]), ncopies=rng.randint(1, 2))
    if variant == "nudge":
        # B = A with one element substituted AND one atom of unchanged element re-positioned; undistorted copies. Either a
        # tight tolerance (the re-positioning exceeds it: B is geometrically a different pattern than A) or a wide one
        atol = rng.choice([0.02, 0.05, 0.05, 0.1, 0.2])
        lo = max(0.02, 1.3 * atol) if atol <= 0.05 else 0.02
        kw = dict(atol=atol, distort=False, exact=False, nudge=(lo, 0.09))
        rp_kind = "subst+nudge"
    # multi-atom sites: moderate distortion only, so that the tolerance stays "large enough to match" in BOTH directions
    kw.setdefault("tilt", False)
    base = G.make_case(rng, tier, hints=(None, None, None), pname=pname, rp_kind=rp_kind, replace_all=False, fmax=0.35, **kw)
    case = {"op": "c08-site", "s": base["s"], "a": base["p"], "b": base["r"], "atol": base["atol"], "seed": base["seed"],
            "single": single, "info": base["info"], "variant": variant}
    if single and rng.random() < 0.3:
        # B written at other coordinates than A: A→B moves the site by the difference, B→A moves it back
        off = [G.dyad(rng, -2, 2) for _ in range(3)]
        case["b"] = json.loads(json.dumps(case["b"]))
        for a in case["b"]["atoms"]:
            a["pos"] = [core.q(float(Fraction(v)) + off[i]) for i, v in enumerate(a["pos"])]
        case["variant"] = "b-elsewhere"
    if variant in ("plain", "fraction") and base["info"].get("distorted", "none") == "none" and rng.random() < 0.3:
        case["history"] = {"dims": rng.choice([[2, 1, 1], [1, 2, 1], [1, 1, 2], [2, 1, 2]])}
    if variant == "fraction" or (single and rng.random() < 0.3):
        case["fraction"] = rng.choice([0.5, 0.5, 0.34, 0.75, 0.6])   # A→B on a random part of the sites, B→A on all B sites
    return case


def derive_site(case):
    """history variant: the structure is searched once, then REPLICATED by the library; A→B→A runs on the supercell OBJECT.
    Returns (case on the derived structure, the derived object)"""
    import mofun.mofun as mm
    s0 = core.atoms_from_json(case["s"])
    random.seed(case["seed"])
    np.random.seed(case["seed"] % (2 ** 32))
    with core.quiet():
        mm.find_pattern_in_structure(s0, core.atoms_from_json(case["a"]), atol=case["atol"])
        s1 = s0.replicate(repldims=tuple(case["history"]["dims"]))
    sj1 = core.canon_atoms(s1)
    return dict(case, s=sj1, history=None), s1


def run_site(case, obj=None):
    if obj is not None:
        with C5.object_for(case["s"], obj):
            o1 = findlib.run_replace(case["s"], case["a"], case["b"], atol=case["atol"], seed=case["seed"],
                                     fraction=case.get("fraction", 1.0))
        if "ok" not in o1:
            return o1, None
        return o1, findlib.run_replace(o1["ok"], case["b"], case["a"], atol=case["atol"], seed=case["seed"] + 1)
    if case.get("int_typed"):
        with C5.int_constructed([case["s"], case["a"], case["b"]]):
            o1 = findlib.run_replace(case["s"], case["a"], case["b"], atol=case["atol"], seed=case["seed"],
                                     fraction=case.get("fraction", 1.0))
            if "ok" not in o1:
                return o1, None
            o2 = findlib.run_replace(o1["ok"], case["b"], case["a"], atol=case["atol"], seed=case["seed"] + 1)
        return o1, o2
    o1 = findlib.run_replace(case["s"], case["a"], case["b"], atol=case["atol"], seed=case["seed"],
                             fraction=case.get("fraction", 1.0))
    if "ok" not in o1:
        return o1, None
    o2 = findlib.run_replace(o1["ok"], case["b"], case["a"], atol=case["atol"], seed=case["seed"] + 1)
    return o1, o2


def oracle_site(case, o1, o2):
    if "ok" not in o1:
        return "A→B raised %s" % o1.get("err")
    if o2 is None or "ok" not in o2:
        return "B→A raised %s" % (o2 or {}).get("err")
    sj = case["s"]
    belems = set(case["b"]["types"]["elem"][a["ty"]] for a in case["b"]["atoms"]) - \
        set(case["a"]["types"]["elem"][a["ty"]] for a in case["a"]["atoms"])
    if any(elem_of(sj, i) in belems for i in range(len(sj["atoms"]))):
        return None                     # outside the property's quantifier (structure already contains B)
    cell = C5.cell_of(sj)
    # every site that a plain search with the same tolerance reports was substituted
    lo, hi = C5.occurrence_bracket({"s": sj, "p": case["a"], "atol": case["atol"], "seed": case["seed"]})
    f = case.get("fraction", 1.0)
    want = (lambda m: m) if f >= 1.0 else (lambda m: round(f * m))
    if not (want(len(lo)) <= o1["n"] <= want(len(hi))):
        return ("a search reports %d site(s) with 0.7·atol and %d with 1.4·atol (atol=%g); A→B (same atol, "
                "replace_fraction=%s) replaced %d" % (len(lo), len(hi), case["atol"], f, o1["n"]))
    if o2["n"] != o1["n"]:
        clear = all(tuple(sorted(int(i) for i in m["idx"])) in lo for m in (o1.get("used") or []))
        if not case["single"] and o2["n"] < o1["n"] and (case["info"].get("distorted", "none") != "none" or not clear):
            # purposely distorted multi-atom copies, or a replaced site that is not a CLEAR occurrence (not reported with
            # 0.7·atol, e.g. a near-miss decoy that just passes): after A→B the substituted atom sits at its ideal place, the others
            # do not; the tolerance is then not "large enough to match" on the way back — outside the quantifier
            return "skip"
        return "A→B replaced %d sites, B→A found %d" % (o1["n"], o2["n"])
    if case["single"]:
        tol = 1e-9
    else:
        scale = float(np.abs(C5.positions(sj)).max()) + float(np.abs(cell).sum())
        tol = 4 * (case["atol"] + 1e-5 * scale) + 1e-6
    d = C5.multiset_equal_mod_lattice(multiset(sj), multiset(o2["ok"]), cell, tol)
    if d:
        return "A→B→A does not restore the (element, position mod lattice) multiset (tol %.3g): %s" % (tol, d)
    return None


# ------------------------------------------------------------------ (e) EXACT copies: restoration up to rounding noise

EXACT_TOL = 4e-6      # Å; the copies are exact rigid images, so nothing but float rounding may remain (measured over 10^4
                      # cases on the unchanged code: ≤ 2.4e-7 = sqrt(machine eps) × lever arm × a few steps)


def run_exact(case):
    """(o1, o2, found_after_first): A→B then B→A (mode aba), or one self-replacement with replace_all=True (mode self-all)"""
    import mofun.mofun as mm
    if case["mode"] == "self-all":
        o1 = findlib.run_replace(case["s"], case["a"], case["a"], atol=case["atol"], seed=case["seed"],
                                 fraction=case.get("fraction", 1.0), replace_all=True)
        return o1, None, None
    o1 = findlib.run_replace(case["s"], case["a"], case["b"], atol=case["atol"], seed=case["seed"],
                             fraction=case.get("fraction", 1.0))
    if "ok" not in o1:
        return o1, None, None
    o2 = findlib.run_replace(o1["ok"], case["b"], case["a"], atol=case["atol"], seed=case["seed"] + 1)
    left = None
    if case.get("fraction", 1.0) >= 1.0:
        random.seed(case["seed"] + 2)
        np.random.seed((case["seed"] + 2) % (2 ** 32))
        with core.quiet():
            left = [[int(i) for i in t] for t in mm.find_pattern_in_structure(core.atoms_from_json(o1["ok"]),
                                                                               core.atoms_from_json(case["a"]), atol=case["atol"])]
    return o1, o2, left


def oracle_exact(case, o1, o2, left):
    """ground truth by construction: the structure holds len(case["planted"]) exact copies of A (atoms of different copies
    farther apart than a match can reach), B's substituted element is absent from the structure, B does not contain A"""
    sj = case["s"]
    cell = C5.cell_of(sj)
    m = len(case["planted"])
    f = case.get("fraction", 1.0)
    want = m if f >= 1.0 else round(f * m)
    if "ok" not in o1:
        return "%s raised %s" % ("self-replacement (replace_all)" if case["mode"] == "self-all" else "A→B", o1.get("err"))
    if o1["n"] != want:
        return ("the structure holds %d exact copies of the pattern; the replacement (atol=%g, replace_fraction=%s) replaced %d"
                % (m, case["atol"], f, o1["n"]))
    if case["mode"] == "self-all":
        d = C5.multiset_equal_mod_lattice(multiset(sj), multiset(o1["ok"]), cell, EXACT_TOL)
        if d:
            return ("self-replacement with replace_all=True on exact copies changes the (element, position mod lattice) multiset "
                    "(tol %.1g Å): %s" % (EXACT_TOL, d))
        return None
    if o2 is None or "ok" not in o2:
        return "B→A raised %s" % (o2 or {}).get("err")
    if left:
        return "after replacing all %d occurrences of A by B (which does not contain A) a second search for A finds %d: %s" % (
            o1["n"], len(left), left[:3])
    if o2["n"] != o1["n"]:
        return "A→B replaced %d sites, B→A found %d" % (o1["n"], o2["n"])
    d = C5.multiset_equal_mod_lattice(multiset(sj), multiset(o2["ok"]), cell, EXACT_TOL)
    if d:
        return ("A→B→A on exact copies does not restore the (element, position mod lattice) multiset (tol %.1g Å): %s"
                % (EXACT_TOL, d))
    return None


# ------------------------------------------------------------------ (c) nothing left after replacing all

def gone_case(rng, tier):
    base = G.make_case(rng, tier, hints=(None, None, None), rp_kind=rng.choice(["all_new", "subst", "keep_some+new"]), replace_all=False)
    base["op"] = "c08-gone"
    return base


def run_gone(case):
    import mofun.mofun as mm
    o1 = findlib.run_replace(case["s"], case["p"], case["r"], atol=case["atol"], seed=case["seed"])
    found2 = None
    if "ok" in o1:
        s2 = core.atoms_from_json(o1["ok"])
        p = core.atoms_from_json(case["p"])
        random.seed(case["seed"])
        with core.quiet():
            found2 = [[int(i) for i in t] for t in mm.find_pattern_in_structure(s2, p, atol=case["atol"])]
    return o1, found2


def contains_pattern(case):
    """does the replacement pattern contain every search atom (same element, same coordinates)?"""
    return all(j in [x for x in case["shared"] if x is not None] for j in range(len(case["p"]["atoms"])))


def oracle_gone(case, o1, found2):
    if "ok" not in o1:
        return "replacement raised %s" % o1.get("err")
    lo, hi = C5.occurrence_bracket(case)
    if not (len(lo) <= o1["n"] <= len(hi)):
        return ("a search reports %d occurrence(s) with 0.7·atol and %d with 1.4·atol (atol=%g); the replacement (same "
                "atol) replaced %d" % (len(lo), len(hi), case["atol"], o1["n"]))
    if contains_pattern(case):
        return None
    if found2:
        return "after replacing all %d occurrences a second search still finds %d: %s" % (o1["n"], len(found2), found2[:3])
    return None


# ------------------------------------------------------------------ (d) the repository's MOF files

def mof_inputs():
    import ase.io
    from mofun import Atoms
    root = core.REPO
    with core.quiet():
        yield ("uio66.cif + uio66-linker.cml", Atoms.load(os.path.join(root, "docs/examples/uio66.cif")),
               Atoms.load(os.path.join(root, "docs/examples/uio66-linker.cml")), 5e-2)
        yield ("uio66-triclinic.lmpdat + uio66-linker.cml",
               Atoms.load(os.path.join(root, "tests/uio66/uio66-triclinic.lmpdat"), atom_format="full"),
               Atoms.load(os.path.join(root, "tests/uio66/uio66-linker.cml")), 0.2)
        yield ("hkust-1-with-bonds.cif + benzene.xyz", Atoms.load_p1_cif(os.path.join(root, "tests/hkust-1/hkust-1-with-bonds.cif")),
               Atoms.from_ase_atoms(ase.io.read(os.path.join(root, "tests/molecules/benzene.xyz"))), 5e-2)
        h = Atoms.load_p1_cif(os.path.join(root, "tests/hkust-1/hkust-1-with-bonds.cif"))
        h.translate((-4, -4, -4))
        h.positions = h.positions % np.diag(h.cell)
        yield ("hkust-1-with-bonds.cif shifted by (-4,-4,-4) + benzene.xyz", h,
               Atoms.from_ase_atoms(ase.io.read(os.path.join(root, "tests/molecules/benzene.xyz"))), 5e-2)


def oracle_mof(name, s, p, atol):
    """returns (None | text | ("finding", text, observed), number of matches)"""
    import mofun.mofun as mm
    before = core.canon_atoms(s)
    pj = core.canon_atoms(p)
    rec = {}
    real_find = mm.find_pattern_in_structure

    def find_wrap(*a, **k):
        o = real_find(*a, **k)
        rec["idx"] = [[int(i) for i in t] for t in o[0]]
        return o
    random.seed(0)
    np.random.seed(0)
    mm.find_pattern_in_structure = find_wrap
    try:
        res = core.result_of(lambda: mm.replace_pattern_in_structure(s, p, p, atol=atol, return_num_matches=True))
    finally:
        mm.find_pattern_in_structure = real_find
    if "ok" not in res:
        return "%s: self-replacement raised %s" % (name, res["err"]), 0
    r, n = res["ok"]
    after = core.canon_atoms(r)
    if len(after["atoms"]) != len(before["atoms"]):
        return "%s: atom count %d -> %d" % (name, len(before["atoms"]), len(after["atoms"])), n
    for i, (a, b) in enumerate(zip(before["atoms"], after["atoms"])):
        if any(not core.close(x, y, 1e-9) for x, y in zip(a["pos"], b["pos"])):
            return "%s: atom %d moved" % (name, i), n
        if elem_of(before, i) != elem_of(after, i):
            return "%s: atom %d changed element %s -> %s" % (name, i, elem_of(before, i), elem_of(after, i)), n
        if not core.close(a["q"], b["q"], 1e-12) or a["g"] != b["g"]:
            return "%s: atom %d changed charge/group" % (name, i), n
    lost, added, foreign = term_difference(before, after, pj, rec.get("idx", []))
    if lost:
        return "%s: term atom tuples LOST in a self-replacement: %s" % (name, {k: v[:4] for k, v in lost.items()}), n
    if foreign:
        return "%s: term tuples gained that are not images of the pattern's own terms: %s" % (name, {k: v[:4] for k, v in foreign.items()}), n
    if added:
        cnt = {k: len(v) for k, v in added.items()}
        return ("finding", "%s: self-replacement adds the images of the pattern's own terms on the %d matched sites (%s new tuples); "
                "positions, elements, charges, groups and all existing tuples unchanged" % (name, n, cnt), {"added_counts": cnt, "lost": {}}), n
    return None, n


# ------------------------------------------------------------------ running

def do_self(ctx, case, ops):
    out = run_self(case)
    bad = oracle_self(case["s"], out)
    if bad is None and case.get("twice") and "ok" in out:
        out2 = run_self(dict(case, s=out["ok"], seed=case["seed"] + 1))
        bad = oracle_self(case["s"], dict(out2, inputs_unchanged=True))
        if bad:
            bad = "second consecutive self-replacement: " + bad
        ctx.count("self:twice")
    used = out.get("used") or []
    if case.get("ring"):
        ctx.count("self:ring")
        if [m["idx"] for m in used] != case.get("ring_used"):
            # the search numbered a symmetric copy differently than when the ring terms were laid out: the pattern's
            # torsion may then be a genuinely new tuple; outside this stream's construction
            ctx.count("self:ring:renumbered-skipped")
            bad = None
    matched = {i for m in used for i in m["idx"]}
    touched = any(set(t["a"]) & matched for k in case["s"]["terms"] for t in case["s"]["terms"][k])
    ctx.case(case, nontrivial=bool(used) and touched)
    ctx.count("self")
    ctx.count("self:cell:" + case["info"]["cell"])
    ctx.count("self:star:%s" % bool(case["info"].get("star")))
    ctx.count("self:int-typed:%s" % bool(case.get("int_typed")))
    ctx.count("unwrapped:%s" % bool(case["info"].get("unwrapped")))
    ctx.count("cell-spelling:%s" % (case["info"].get("cellvar") or "standard"))
    ctx.count("atol:%g" % case["atol"])
    ctx.count("distorted:" + case["info"].get("distorted", "none"))
    ctx.count("self:pattern:" + case["info"]["pattern"])
    ctx.count("self:matches:%d" % min(len(used), 4))
    if bad:
        ctx.fail(bad, case, observed={"err": out.get("err"), "n": out.get("n")}, required="self-replacement is a no-op",
                 tags=["c08", "self"])
    if ops is not None and out.get("used") is not None:
        ops.append((case, findlib.replace_op(case["s"], case["p"], case["p"], out["used"]), out))


def do_self_all(ctx, case, ops):
    out = run_self(case)
    bad = oracle_self_all(case, out)
    used = out.get("used") or []
    ctx.case(case, nontrivial=bool(used))
    ctx.count("self-all")
    ctx.count("self-all:fraction:%s" % case["fraction"])
    ctx.count("self-all:tilted:%s" % bool(case["info"].get("tilt_over_atol")))
    ctx.count("self-all:matches:%d" % min(len(used), 4))
    if bad:
        ctx.fail(bad, case, observed={"err": out.get("err"), "n": out.get("n")},
                 required="self-replacement keeps the (element, position) multiset", tags=["c08", "self-all"])
    if ops is not None and out.get("used") is not None:
        ops.append((case, findlib.replace_op(case["s"], case["p"], case["p"], out["used"], replace_all=True), out))


def do_site(ctx, case, ops):
    orig = case
    obj = None
    if case.get("history"):
        case, obj = derive_site(case)
        ctx.count("site:history:search-then-replicate")
    o1, o2 = run_site(case, obj)
    bad = oracle_site(case, o1, o2)
    if bad and bad != "skip" and obj is not None:
        bad = "after a search on the unit cell and replicate%s: %s" % (tuple(orig["history"]["dims"]), bad)
        case = orig
    if bad == "skip":
        ctx.count("site:skipped (distorted / borderline copies no longer match on the way back)")
        bad = None
    ctx.case(case, nontrivial=("ok" in o1 and o1.get("n", 0) > 0))
    ctx.count("site:single" if case["single"] else "site:multi")
    ctx.count("site:variant:%s" % case.get("variant", "plain"))
    ctx.count("site:fraction:%s" % case.get("fraction", 1.0))
    ctx.count("site:cell:" + case["info"]["cell"])
    ctx.count("atol:%g" % case["atol"])
    ctx.count("distorted:" + case["info"].get("distorted", "none"))
    if bad:
        ctx.fail(bad, case, observed={"n1": o1.get("n"), "n2": (o2 or {}).get("n")},
                 required="A→B→A restores the multiset of (element, position mod lattice)", tags=["c08", "site"])
    if ops is not None and o1.get("used") is not None:
        ops.append((case, findlib.replace_op(case["s"], case["a"], case["b"], o1["used"]), o1))
        if o2 is not None and o2.get("used") is not None:
            ops.append((dict(case, s=o1["ok"]), findlib.replace_op(o1["ok"], case["b"], case["a"], o2["used"]), o2))


def do_exact(ctx, case, ops):
    o1, o2, left = run_exact(case)
    bad = oracle_exact(case, o1, o2, left)
    ctx.case(case, nontrivial=("ok" in o1 and o1.get("n", 0) > 0))
    ctx.count("exact")
    ctx.count("exact:mode:" + case["mode"])
    ctx.count("exact:cell:" + case["info"]["cell"])
    ctx.count("exact:rp:" + case["info"]["rp"])
    ctx.count("exact:boundary:" + case["info"]["boundary"])
    for d in case["info"]["poses"]:
        ctx.count("exact:pose:" + d.split("(")[0])
    ctx.count("exact:fraction:%s" % case.get("fraction", 1.0))
    ctx.count("atol:%g" % case["atol"])
    if bad:
        ctx.fail(bad, case, observed={"n1": o1.get("n"), "n2": (o2 or {}).get("n"), "found_again": left},
                 required="exact copies: A→B→A (or a self-replacement) restores the multiset of (element, position mod lattice) "
                          "up to rounding noise; no A left after A→B", tags=["c08", "exact"])
    if ops is not None and o1.get("used") is not None:
        if case["mode"] == "self-all":
            ops.append((case, findlib.replace_op(case["s"], case["a"], case["a"], o1["used"], replace_all=True), o1))
        else:
            ops.append((case, findlib.replace_op(case["s"], case["a"], case["b"], o1["used"]), o1))
            if o2 is not None and o2.get("used") is not None:
                ops.append((dict(case, s=o1["ok"]), findlib.replace_op(o1["ok"], case["b"], case["a"], o2["used"]), o2))


def do_gone(ctx, case, ops):
    o1, found2 = run_gone(case)
    bad = oracle_gone(case, o1, found2)
    ctx.case(case, nontrivial=("ok" in o1 and o1.get("n", 0) > 0 and not contains_pattern(case)))
    ctx.count("gone")
    ctx.count("gone:rp:" + case["info"]["rp"])
    ctx.count("atol:%g" % case["atol"])
    ctx.count("distorted:" + case["info"].get("distorted", "none"))
    if bad:
        ctx.fail(bad, case, observed={"n": o1.get("n"), "found_again": found2}, required="second search finds nothing",
                 tags=["c08", "gone"])


def mof_pair_with_terms():
    from mofun import Atoms
    root = core.REPO
    with core.quiet():
        yield ("uio66-triclinic.lmpdat + uio66-linker.cml",
               Atoms.load(os.path.join(root, "tests/uio66/uio66-triclinic.lmpdat"), atom_format="full"),
               Atoms.load(os.path.join(root, "tests/uio66/uio66-linker.cml")), 0.2)


def do_mofs(ctx, only_with_terms=False):
    for name, s, p, atol in (mof_pair_with_terms() if only_with_terms else mof_inputs()):
        bad, n = oracle_mof(name, s, p, atol)
        inp = {"op": "c08-mof", "name": name, "atol": atol}
        ctx.case(inp, nontrivial=n > 0)
        ctx.count("mof")
        if isinstance(bad, tuple):
            ctx.notes.append("MOF self-replacement %s: %d matches, KNOWN FINDING: %s" % (name, n, bad[1]))
            ctx.fail(bad[1], inp, observed=bad[2], required="set of bonded/angled/torsion atom tuples unchanged",
                     tags=["c08", "mof", FINDING_TERMS])
            continue
        ctx.notes.append("MOF self-replacement %s: %d matches, %s" % (name, n, "unchanged" if bad is None else bad))
        if bad:
            ctx.fail(bad, inp, observed=None, required="self-replacement leaves positions/elements unchanged", tags=["c08", "mof"])


def do_self_terms(ctx, case, ops):
    out = run_self(case)
    r = oracle_self_terms(case, out)
    used = out.get("used") or []
    ctx.case(case, nontrivial=bool(used))
    ctx.count("self-terms")
    if r is None:
        ctx.count("self-terms:nothing-added")
    elif r[0] == "finding":
        ctx.count("self-terms:pattern-terms-added")
        ctx.fail(r[1], case, observed=r[2], required="set of bonded/angled/torsion atom tuples unchanged",
                 tags=["c08", "self", FINDING_TERMS])
    else:
        ctx.fail(r[1], case, observed={"err": out.get("err"), "n": out.get("n")}, required="self-replacement is a no-op",
                 tags=["c08", "self"])
    if ops is not None and out.get("used") is not None:
        ops.append((case, findlib.replace_op(case["s"], case["p"], case["p"], out["used"]), out))


def run(ctx, oracle_only=False):
    ctx.rule = RULE
    rng = ctx.rng
    ops = None if oracle_only else []
    for _ in range(ctx.n(150, 2500)):
        do_self(ctx, self_case(rng, ctx.tier), ops)
    for _ in range(ctx.n(80, 1200)):
        do_self(ctx, ring_case(rng, ctx.tier), ops)
    for _ in range(ctx.n(60, 800)):
        do_self_all(ctx, self_all_case(rng, ctx.tier), ops)
    for _ in range(ctx.n(90, 1500)):
        do_site(ctx, site_case(rng, ctx.tier), ops)
    for _ in range(ctx.n(60, 1000)):
        do_gone(ctx, gone_case(rng, ctx.tier), None)
    for _ in range(ctx.n(120, 2000)):
        do_exact(ctx, GX.make_exact_case(rng, ctx.tier), ops)
    for _ in range(ctx.n(60, 800)):
        do_exact(ctx, GH.make_hub_case(rng, ctx.tier), ops)
    # tagged stream (known finding): patterns that carry terms the structure lacks
    do_self_terms(ctx, canonical_self_terms_case(), ops)
    for _ in range(ctx.n(30, 400)):
        do_self_terms(ctx, self_terms_case(rng, ctx.tier), ops)
    do_mofs(ctx, only_with_terms=(ctx.tier != "thorough"))
    if oracle_only or not ops:
        return
    models = []
    step = 400
    for k in range(0, len(ops), step):
        models += ctx.lean.run([o[1] for o in ops[k:k + step]])
    for (case, op, out), m in zip(ops, models):
        C5.tie(ctx, case, op, out, m)


def search(ctx):
    saved = ctx.tier
    ctx.tier = "thorough"
    try:
        rng = ctx.rng
        for _ in range(1200):
            do_self(ctx, self_case(rng, "thorough"), None)
            if ctx.failures:
                return
        for _ in range(600):
            do_self(ctx, ring_case(rng, "thorough"), None)
            if ctx.failures:
                return
        for _ in range(500):
            do_self_all(ctx, self_all_case(rng, "thorough"), None)
            if ctx.failures:
                return
        for _ in range(800):
            do_site(ctx, site_case(rng, "thorough"), None)
            do_gone(ctx, gone_case(rng, "thorough"), None)
            do_exact(ctx, GX.make_exact_case(rng, "thorough"), None)
            do_exact(ctx, GH.make_hub_case(rng, "thorough"), None)
            if ctx.failures:
                return
        do_mofs(ctx)
    finally:
        ctx.tier = saved


def replay(ctx, rec):
    case = rec["input"]
    op = case.get("op")
    if op == "c08-self":
        return oracle_self(case["s"], run_self(case)) is None
    if op == "c08-self-terms":
        return oracle_self_terms(case, run_self(case)) is None
    if op == "c08-self-all":
        return oracle_self_all(case, run_self(case)) is None
    if op == "c08-site":
        obj = None
        if case.get("history"):
            case, obj = derive_site(case)
        o1, o2 = run_site(case, obj)
        return oracle_site(case, o1, o2) in (None, "skip")
    if op == "c08-exact":
        return oracle_exact(case, *run_exact(case)) is None
    if op == "c08-gone":
        o1, f2 = run_gone(case)
        return oracle_gone(case, o1, f2) is None
    if op == "c08-mof":
        for name, s, p, atol in mof_inputs():
            if name == case["name"]:
                return oracle_mof(name, s, p, atol)[0] is None
    return True
