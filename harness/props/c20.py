"""C20 — the command line does exactly: load, (overrides), replicate, minimum-image replicate, pair parameters,
find / replace, save.

Three independent pieces per case (DESIGN.md §7 C20):

(a) TIE.  The real entry point `mofun.cli.mofun_cli.mofun_cli` is invoked in-process through click's `CliRunner`
    while recording wrappers sit on the attributes the function uses (`Atoms.load/replicate/save/from_ase_atoms/
    to_ase`, `find_pattern_in_structure`, `replace_pattern_in_structure`, `assign_pair_params_to_structure`, the
    module-level `print`, `ase.io.read`, `ase.Atoms.write`); attribute assignments on the structure object
    (`atoms.cell = …`, `.positions = …`, `.charges = …`) are observed through a recording subclass the loaded object
    is switched to.  Nothing in the repository is edited and everything is restored afterwards.  The recorded call
    list, with the effective arguments, is compared with the Lean model's `plan`.
(b) TRACE ORACLE (independent of the model): the statements of the property, checked directly on the recorded
    calls: every option is the argument of the call it names (effective arguments, library defaults filled in),
    --replicate before the minimum-image step, replications and pair parameters before the search.  It asks no more
    than that: e.g. a harmless re-ordering of the overrides is left to the tie (→ no-failing-input-found).
(a') EXECUTION TIE (Model/CliRun.lean): the Lean interpreter of the plan (`runPlan`) and the API pipeline written in Lean
    (`apiPipeline`; proved equal) are run on the environment observed on the real run (content of every loaded file, the
    matches the search returned, the sampled positions, charge / dump numbers) and compared with the structure the real
    run held when it saved, and with the matches it reported.
(a") ARGUMENT-VECTOR TIE (Model/CliArgs.lean): the very command line of every case, another spelling of it, and a stream of
    generated command lines (short / long names, attached values, `=`, repeated options, `--`, one defect each: unknown
    option, missing value(s), value for the flag, non-number, missing / surplus path, `--help`) go through click
    (`mofun_cli.make_context`, nothing is run) and through the model's `parseArgs`: same record or same error class.
(c) END-TO-END ORACLE: the file the CLI wrote is compared (as a parsed structure, 1e-6) with the file written by
    the equivalent API pipeline run under the same `random`/`numpy.random` seed; find-only: the printed matches equal
    the API's matches as a set of sorted tuples.
(d') SUPERCELL CLAUSE: whenever --replicate / --mic are given, the lattice stated by the written file is factor i x lattice
    vector i of the input (generated worlds: the world's cell; repository files: the input file read by the check's own reader),
    for cells that are not orthorhombic and factors that differ — the command line and the API share Atoms.replicate, so (c) is
    blind to a defect there.
(d) BY-CONSTRUCTION ORACLES (c20_effects.py): worlds for which the matches to report and the file to write are known from
    the way the input was built — the tolerance judged by its effect on copies deformed by a known amount in every
    orientation, and the force-field terms after a re-parameterising replacement on rings; judged on the written file with
    the check's own readers (the command line and the API share the search and the merge code: (c) is blind to a defect there).
"""
import ast
import builtins
import json
import contextlib
import inspect
import math
import os
import pathlib
import random
import re
import shutil
import tempfile
import traceback
from fractions import Fraction

from .. import core
from . import c20_effects as fx

RULE = ("worlds: generated periodic structures (orthorhombic; a separate triclinic stream) of 15-35 atoms with 2-5 planted "
        "copies (cube rotations, wrapped across the boundary, one optional copy perturbed by 0.07 A so that --atol 0.1 vs "
        "default changes the result) of a 3-4 atom pattern, written as .lmpdat/.cif/.cml (+--extract-uc) inputs, patterns "
        "as .cml/.lmpdat, outputs .lmpdat/.cif; option rows: PAIRWISE-EXHAUSTIVE covering array over atol{default,0.1} x "
        "-p{default,0,0.5,1,0.25,1.5} x hints{none,(0,1,2),(2,0,1),(0,-,-)} x replicate{none,2 1 1,1 2 2} x mic{none,1x1x1,2x..,exact multiple,0,negative,tiny} x "
        "chargefile{no,yes} x pp{off,on} x mode{none,find,find+replace,replace-without-find} x input format x pattern "
        "format x output format; plus streams: docs examples (uio66), ASE in/out + dump file, no-cell rejections, "
        "--framework-element (known finding), LAMMPS inputs with atoms stored up to two cells outside the unit cell; every output is also "
        "read by the check's own reader and compared with the INPUT DATA (unreplaced atoms keep element and stored coordinates); "
        "BY-CONSTRUCTION worlds (c20_effects): (i) 5-7 copies of a 2-4 atom pattern, each with its far end moved along the pattern's long "
        "axis by a known d (0, +-0.5..0.75 x the small atol, +-0.5..0.75 x the big atol, +-2.75..3 x), long axis along a Cartesian axis / "
        "a diagonal / a general direction, wrapped across the boundary, ortho and triclinic, inputs lmpdat/cif/cml, --atol default/0.02 and "
        "0.1/0.2, find-only and replace, +-replicate, hints on the long axis: copies with |d| <= 0.8 atol must be reported / replaced, with "
        "|d| >= 2.5 atol must not; (ii) LAMMPS inputs with bonds/angles/dihedrals/impropers and coefficient tables holding 2-3 copies of a "
        "3- or 4-membered ring with substituents, replacement pattern = the same atoms (+ optionally one atom) carrying 2-4 re-defined terms "
        "(listed forwards or backwards, also terms new to the structure), -p default/0.5, +-replicate, conversion / find-only: the terms of "
        "the written file are the input's, minus those re-defined between the same atoms in the same roles, plus the replacement's; (iii) SUPERCELLS: --replicate nx ny nz with factors from 1..3 that differ from each other (product <= 6) on "
        "monoclinic / general triclinic / orthorhombic worlds, inputs lmpdat/cif/cml(+--extract-uc) x outputs lmpdat/cif, conversion / "
        "find-only / replacement, and on the repository's uio66-triclinic.lmpdat / .cif and docs uio66.cif: the written lattice is "
        "factor i x vector i of the input's (lengths and angles) and, without a replacement, the atoms are the input's atoms and their "
        "images under these vectors (input and output both read by the check's own readers); every case also feeds the execution tie and the argument-vector tie, plus 200 "
        "(quick) / 3000 (thorough) generated command lines, half of them with one defect. Non-trivial = distinct input in which at least one option beyond "
        "input/output reaches a library call.")

NATIVE_IN = (".lmpdat", ".cml", ".cif")
NATIVE_OUT = (".lmpdat", ".mol", ".cif")
DEFAULT_ATOL = 5e-2
DEFAULT_FRACTION = 1.0


# ====================================================================== small helpers

def fr(s):
    return Fraction(s)


def fl(s):
    return float(Fraction(s))


def sub(p, T):
    return p.replace("$T", T).replace("$REPO", core.REPO)


def unsub(p, T):
    return str(p).replace(T, "$T").replace(core.REPO, "$REPO")


def suffix(p):
    return pathlib.PurePath(p).suffix


# ====================================================================== worlds (self-contained, replayable)

TEMPLATES = [
    # (elements, positions in 1/8 A, bonds)
    (["C", "O", "H"], [(0, 0, 0), (10, 0, 0), (12, 8, 2)], [(0, 1), (1, 2)]),
    (["N", "C", "H", "H"], [(0, 0, 0), (12, 0, 0), (16, 7, 0), (16, -7, 0)], [(0, 1), (1, 2), (1, 3)]),
    (["O", "C", "N", "H"], [(0, 0, 0), (9, 3, 0), (14, -5, 4), (4, 10, 6)], [(0, 1), (1, 2), (0, 3)]),
    (["C", "C", "O"], [(0, 0, 0), (11, 2, 0), (3, 9, 5)], [(0, 1), (0, 2)]),
    # one-letter symbols that are prefixes of other UFF keys (S/Si, B/Be/Br, I/In) inside the pattern itself
    (["S", "C", "H"], [(0, 0, 0), (14, 0, 0), (17, 8, 3)], [(0, 1), (1, 2)]),
    (["B", "O", "I", "H"], [(0, 0, 0), (11, 0, 0), (-6, 15, 0), (15, 6, 5)], [(0, 1), (0, 2), (1, 3)]),
    (["P", "S", "N"], [(0, 0, 0), (15, 3, 0), (-5, 11, 6)], [(0, 1), (0, 2)]),
]

# filler atoms: every generated world contains at least one of S / B / I (whose bare symbol is a prefix of another
# element's UFF keys: Si…, Be…/Br, In…) next to their two-letter neighbours and other common elements
PREFIX_ELEMENTS = ["S", "B", "I"]
FILLER_ELEMENTS = ["S", "B", "I", "N", "C", "O", "H", "F", "P", "Si", "Be", "In", "Br", "Na", "Cl", "Zr", "Cu", "K", "Y",
                   "Sn", "Se", "Sc", "Ba", "Bi", "Ir", "Ni", "Nb", "Co", "Cr", "Ca", "Fe", "Pt", "Pd", "Hf", "Hg", "Os"]


def cube_rotations():
    import itertools
    rots = []
    for perm in itertools.permutations(range(3)):
        for signs in itertools.product([1, -1], repeat=3):
            m = [[0] * 3 for _ in range(3)]
            for i in range(3):
                m[i][perm[i]] = signs[i]
            det = (m[0][0] * (m[1][1] * m[2][2] - m[1][2] * m[2][1]) - m[0][1] * (m[1][0] * m[2][2] - m[1][2] * m[2][0])
                   + m[0][2] * (m[1][0] * m[2][1] - m[1][1] * m[2][0]))
            if det == 1:
                rots.append(m)
    return rots


ROTS = cube_rotations()


def rot(m, v):
    return tuple(sum(m[i][j] * v[j] for j in range(3)) for i in range(3))


def gen_world(rng, cell_kind="ortho", in_fmt="lmpdat", pat_fmt="cml", out_fmt="lmpdat", perturbed=None):
    """a periodic structure with planted copies of a small pattern; all numbers exact rationals (strings)"""
    els, pos8, bonds = rng.choice(TEMPLATES)
    P = [tuple(Fraction(c, 8) for c in p) for p in pos8]
    lens = rng.sample([Fraction(k, 2) for k in range(16, 23)], 3)          # 8.0 … 11.0, distinct
    t = lambda: Fraction(rng.randint(6, 20), 8) * rng.choice([1, -1])
    if cell_kind == "ortho":
        cell = [[lens[0], 0, 0], [0, lens[1], 0], [0, 0, lens[2]]]
    elif cell_kind == "mono":                                       # alpha = gamma = 90, beta != 90
        cell = [[lens[0], 0, 0], [0, lens[1], 0], [t(), 0, lens[2]]]
    else:                                                            # general triclinic: three different angles
        t1, t2, t3 = t(), t(), t()
        while abs(t2) == abs(t3):
            t3 = t()
        cell = [[lens[0], 0, 0], [t1, lens[1], 0], [t2, t3, lens[2]]]
    # eight well separated sites (fractional centres 1/4, 3/4)
    sites = [(i, j, k) for i in (1, 3) for j in (1, 3) for k in (1, 3)]
    rng.shuffle(sites)
    ncopies = rng.randint(2, 5)
    atoms = []

    def place(site, shift=None):
        f = [Fraction(s, 4) for s in site]
        centre = tuple(sum(f[r] * Fraction(cell[r][c]) for r in range(3)) for c in range(3))
        m = rng.choice(ROTS)
        out = []
        for idx, (e, p) in enumerate(zip(els, P)):
            v = rot(m, p)
            x = [centre[c] + v[c] - Fraction(3, 4) for c in range(3)]
            if shift is not None and idx == len(P) - 1:
                x[0] += shift
            out.append((e, x))
        return out

    for s in sites[:ncopies]:
        atoms += place(s)
    if perturbed if perturbed is not None else rng.random() < 0.6:
        atoms += place(sites[ncopies], shift=Fraction(9, 128))               # 0.0703 A: inside atol 0.1, outside 0.05
        ncopies += 1
    # bonds of the structure itself: those of the pattern, inside every planted copy (used when `with_bonds` is set)
    sbonds = [[k * len(P) + a, k * len(P) + b] for k in range(ncopies) for (a, b) in bonds]
    for s in sites[ncopies:ncopies + rng.randint(1, 2)]:
        f = [Fraction(v, 4) for v in s]
        centre = [sum(f[r] * Fraction(cell[r][c]) for r in range(3)) for c in range(3)]
        atoms.append((rng.choice(["Zr", "Cu"]), centre))
    # single filler atoms on the half-lattice points (well away from the pattern sites): element variety for --pp
    half = [(i, j, k) for i in (0, 2) for j in (0, 2) for k in (0, 2)]
    rng.shuffle(half)
    fillers = [rng.choice(PREFIX_ELEMENTS)] + [rng.choice(FILLER_ELEMENTS) for _ in range(rng.randint(2, 5))]
    for s, e in zip(half, fillers):
        f = [Fraction(v, 4) for v in s]
        centre = [sum(f[r] * Fraction(cell[r][c]) for r in range(3)) + Fraction(1, 8) for c in range(3)]
        atoms.append((e, centre))
    # wrap into the cell (orthorhombic: per component; triclinic: leave unwrapped — loaders wrap what they wrap)
    if cell_kind == "ortho":
        atoms = [(e, [x[c] % Fraction(cell[c][c]) for c in range(3)]) for e, x in atoms]
    n = len(atoms)
    # replacement: same frame, last atom becomes F, optionally one more atom
    R = [(e, p) for e, p in zip(els, P)]
    R[-1] = ("F", R[-1][1])
    rbonds = list(bonds)
    if rng.random() < 0.5:
        R.append(("O", tuple(R[-1][1][c] + Fraction([6, 5, 4][c], 8) for c in range(3))))
        rbonds.append((len(R) - 2, len(R) - 1))
    # the pattern files live in their own frame: a rotated, shifted copy (the search is pose independent)
    m = rng.choice(ROTS)
    sh = tuple(Fraction(rng.randint(0, 16), 8) for _ in range(3))
    mv = lambda p: tuple(rot(m, p)[c] + sh[c] for c in range(3))
    q = core.q
    return {
        "kind": "gen", "cell_kind": cell_kind, "in_fmt": in_fmt, "pat_fmt": pat_fmt, "out_fmt": out_fmt,
        "cell": [[q(Fraction(v)) for v in row] for row in cell],
        "atoms": [{"el": e, "pos": [q(v) for v in x], "q": q(Fraction(rng.randint(-8, 8), 16))} for e, x in atoms],
        "pattern": [{"el": e, "pos": [q(v) for v in mv(p)]} for e, p in zip(els, P)], "pattern_bonds": [list(b) for b in bonds],
        "repl": [{"el": e, "pos": [q(v) for v in mv(p)]} for e, p in R], "repl_bonds": [list(b) for b in rbonds],
        "chargefile": [q(Fraction(rng.randint(-16, 16), 32)) for _ in range(n)],
        "bonds": sbonds,
        "nplanted": ncopies * len(P),        # the atoms after these belong to no copy of the pattern (bystanders)
        # with_bonds: the input file carries `bonds` (lmpdat / cif inputs); split_types: a LAMMPS input that types the
        # atoms of one element in two ways (labels X_a / X_b) — both matter for what a CIF writer has to get right
        "with_bonds": False, "split_types": False,
    }


def move_outside(rng, world, prob=0.45):
    """store some atoms up to two cells outside the unit cell (an unwrapped frame, as LAMMPS dumps it): every atom
    independently, by a lattice vector, so the structure is the same periodic structure"""
    cell = [[Fraction(v) for v in row] for row in world["cell"]]
    for r in world["atoms"]:
        if rng.random() < prob:
            m = [rng.choice([-2, -1, 1, 2]) if rng.random() < 0.6 else 0 for _ in range(3)]
            pos = [Fraction(v) for v in r["pos"]]
            r["pos"] = [core.q(pos[c] + sum(m[k] * cell[k][c] for k in range(3))) for c in range(3)]
    world["outside"] = True
    return world


def write_cml(path, rows, bonds):
    with open(path, "w") as f:
        f.write("<molecule>\n <atomArray>\n")
        for i, r in enumerate(rows):
            x, y, z = [fl(v) for v in r["pos"]]
            f.write('  <atom id="a%d" elementType="%s" x3="%.8f" y3="%.8f" z3="%.8f"/>\n' % (i + 1, r["el"], x, y, z))
        f.write(" </atomArray>\n <bondArray>\n")
        for a, b in bonds:
            f.write('  <bond atomRefs2="a%d a%d" order="1"/>\n' % (a + 1, b + 1))
        f.write(" </bondArray>\n</molecule>\n")


def write_cif(path, rows, cell, bonds=()):
    import numpy as np
    c = np.array([[fl(v) for v in row] for row in cell])
    a, b, cc = [float(np.linalg.norm(c[i])) for i in range(3)]
    ang = lambda u, v: float(np.degrees(np.arccos(np.dot(u, v) / (np.linalg.norm(u) * np.linalg.norm(v)))))
    al, be, ga = ang(c[1], c[2]), ang(c[0], c[2]), ang(c[0], c[1])
    inv = np.linalg.inv(c)
    with open(path, "w") as f:
        f.write("data_structure\n_symmetry_space_group_name_H-M 'P 1'\n_symmetry_Int_Tables_number 1\n")
        f.write("_cell_length_a %.8f\n_cell_length_b %.8f\n_cell_length_c %.8f\n" % (a, b, cc))
        f.write("_cell_angle_alpha %.8f\n_cell_angle_beta %.8f\n_cell_angle_gamma %.8f\n" % (al, be, ga))
        f.write("loop_\n_atom_site_label\n_atom_site_type_symbol\n_atom_site_fract_x\n_atom_site_fract_y\n"
                "_atom_site_fract_z\n_atom_site_charge\n")
        for i, r in enumerate(rows):
            fx = np.array([fl(v) for v in r["pos"]]).dot(inv)
            f.write("%s%d %s %.8f %.8f %.8f %.6f\n" % (r["el"], i + 1, r["el"], fx[0], fx[1], fx[2], fl(r.get("q", "0"))))
        if bonds:
            f.write("loop_\n_geom_bond_atom_site_label_1\n_geom_bond_atom_site_label_2\n")
            for a, b in bonds:
                f.write("%s%d %s%d\n" % (rows[a]["el"], a + 1, rows[b]["el"], b + 1))


def write_lmpdat(path, rows, cell, bonds=(), charges=True):
    import numpy as np
    from mofun import Atoms
    kw = dict(elements=[r["el"] for r in rows], positions=[[fl(v) for v in r["pos"]] for r in rows])
    if cell is not None:
        kw["cell"] = np.array([[fl(v) for v in row] for row in cell])
    if charges:
        kw["charges"] = [fl(r.get("q", "0")) for r in rows]
    if bonds:
        kw["bonds"] = [tuple(b) for b in bonds]
        kw["bond_types"] = [0] * len(bonds)
    with core.quiet():
        Atoms(**kw).save(path)


def write_lmpdat_typed(path, rows, cell, bonds):
    """a LAMMPS data file (atom style full) written by hand in which the atoms of the most frequent element alternate
    between two atom types labelled X_a / X_b (orthorhombic or lower-triangular cell)"""
    from ase.data import atomic_masses, atomic_numbers
    els = [r["el"] for r in rows]
    split = max(sorted(set(els)), key=els.count)
    types, tyof, seen = [], [], 0
    for e in els:
        if e == split:
            lab = "%s_%s" % (e, "ab"[seen % 2])
            seen += 1
        else:
            lab = e
        if (e, lab) not in types:
            types.append((e, lab))
        tyof.append(types.index((e, lab)))
    c = [[fl(v) for v in row] for row in cell]
    with open(path, "w") as f:
        f.write("typed input (written by the C20 harness)\n\n%d atoms\n%d bonds\n\n%d atom types\n" % (len(rows), len(bonds), len(types)))
        if bonds:
            f.write("1 bond types\n")
        f.write("\n0.0 %.8f xlo xhi\n0.0 %.8f ylo yhi\n0.0 %.8f zlo zhi\n" % (c[0][0], c[1][1], c[2][2]))
        if c[1][0] or c[2][0] or c[2][1]:
            f.write("%.8f %.8f %.8f xy xz yz\n" % (c[1][0], c[2][0], c[2][1]))
        f.write("\nMasses\n\n")
        for i, (e, lab) in enumerate(types):
            f.write("%d %.6f # %s\n" % (i + 1, atomic_masses[atomic_numbers[e]], lab))
        f.write("\nAtoms\n\n")
        for i, r in enumerate(rows):
            x, y, z = [fl(v) for v in r["pos"]]
            f.write("%d 1 %d %.6f %.8f %.8f %.8f\n" % (i + 1, tyof[i] + 1, fl(r.get("q", "0")), x, y, z))
        if bonds:
            f.write("\nBonds\n\n")
            for i, (a, b) in enumerate(bonds):
                f.write("%d 1 %d %d\n" % (i + 1, a + 1, b + 1))


def write_xyz(path, rows):
    with open(path, "w") as f:
        f.write("%d\ngenerated\n" % len(rows))
        for r in rows:
            f.write("%s %.8f %.8f %.8f\n" % (r["el"], *[fl(v) for v in r["pos"]]))


def write_dump(path, rows, cell, delta):
    """a LAMMPS text dump with every coordinate shifted by `delta` (orthorhombic box)"""
    with open(path, "w") as f:
        f.write("ITEM: TIMESTEP\n0\nITEM: NUMBER OF ATOMS\n%d\nITEM: BOX BOUNDS pp pp pp\n" % len(rows))
        for i in range(3):
            f.write("0.0 %.8f\n" % fl(cell[i][i]))
        f.write("ITEM: ATOMS id type x y z\n")
        for i, r in enumerate(rows):
            x, y, z = [fl(v) + delta for v in r["pos"]]
            f.write("%d 1 %.8f %.8f %.8f\n" % (i + 1, x, y, z))


def materialise(world, T):
    """write every file of a generated world into directory T (docs worlds need nothing)"""
    if world["kind"] != "gen":
        return
    rows, cell = world["atoms"], world["cell"]
    fmt = world["in_fmt"]
    sb = world.get("bonds", []) if world.get("with_bonds") else []
    if fmt == "lmpdat":
        if world.get("ff") is not None:
            fx.write_ff_lmpdat(os.path.join(T, "in.lmpdat"), rows, cell, world["ff"])      # input with force-field terms
        elif world.get("split_types"):
            write_lmpdat_typed(os.path.join(T, "in.lmpdat"), rows, cell, sb)
        else:
            write_lmpdat(os.path.join(T, "in.lmpdat"), rows, cell, sb)
    elif fmt == "cif":
        write_cif(os.path.join(T, "in.cif"), rows, cell, sb)
    elif fmt == "cml":
        write_cml(os.path.join(T, "in.cml"), rows, [])
    elif fmt == "xyz":
        write_xyz(os.path.join(T, "in.xyz"), rows)
    write_lmpdat(os.path.join(T, "uc.lmpdat"), rows[:1], cell)              # only its cell is used (--extract-uc)
    if world["pat_fmt"] == "cml":
        write_cml(os.path.join(T, "p.cml"), world["pattern"], world["pattern_bonds"])
        write_cml(os.path.join(T, "r.cml"), world["repl"], world["repl_bonds"])
    else:
        write_lmpdat(os.path.join(T, "p.lmpdat"), world["pattern"], None, world["pattern_bonds"], charges=False)
        write_lmpdat(os.path.join(T, "r.lmpdat"), world["repl"], None, world["repl_bonds"], charges=False)
    if world.get("repl_ff") is not None:
        # a replacement pattern that carries force-field terms is a LAMMPS data file whatever the pattern's format is
        fx.write_ff_lmpdat(os.path.join(T, "r.lmpdat"), world["repl"], None, world["repl_ff"])
    with open(os.path.join(T, "q.txt"), "w") as f:
        for v in world["chargefile"]:
            f.write("%r\n" % fl(v))
        f.write("\n")
    if world.get("dump"):
        write_dump(os.path.join(T, "d.dump"), rows, cell, fl(world["dump"]))


# ====================================================================== option rows

def blank_opts():
    return {"input": None, "output": None, "find": None, "replace": None, "fraction": None, "atol": None,
            "ap1": None, "ap2": None, "op": None, "dump": None, "extract_uc": None, "chargefile": None,
            "replicate": None, "mic": None, "framework_element": None, "pp": False}


def argv(o, T):
    a = [sub(o["input"], T), sub(o["output"], T)]
    if o["find"]:
        a += ["-f", sub(o["find"], T)]
    if o["replace"]:
        a += ["-r", sub(o["replace"], T)]
    if o["fraction"] is not None:
        a += ["-p", repr(fl(o["fraction"]))]
    if o["atol"] is not None:
        a += ["--atol", repr(fl(o["atol"]))]
    for k, flag in (("ap1", "-ap1"), ("ap2", "-ap2"), ("op", "-op")):
        if o[k] is not None:
            a += [flag, str(o[k])]
    if o["dump"]:
        a += ["--dumppath", sub(o["dump"], T)]
    if o["extract_uc"]:
        a += ["--extract-uc", sub(o["extract_uc"], T)]
    if o["chargefile"]:
        a += ["-q", sub(o["chargefile"], T)]
    if o["replicate"]:
        a += ["--replicate"] + [str(v) for v in o["replicate"]]
    if o["mic"] is not None:
        a += ["--mic", repr(fl(o["mic"]))]
    if o["framework_element"]:
        a += ["--framework-element", o["framework_element"]]
    if o["pp"]:
        a += ["--pp"]
    return a


FACTORS = {
    "atol": [None, "0.1"],
    "p": [None, "0", "0.5", "1", "0.25", "1.5"],
    "hints": ["none", "012", "201", "0--"],
    "replicate": [None, [2, 1, 1], [1, 2, 2]],
    "mic": [None, "small", "big", "exact", "zero", "negative", "tiny"],
    "q": [False, True],
    "pp": [False, True],
    "mode": ["none", "find", "replace", "replace_only"],
    "in_fmt": ["lmpdat", "cif", "cml"],
    "pat_fmt": ["cml", "lmpdat"],
    "out_fmt": ["lmpdat", "cif"],
}


def pairwise_rows(rng, factors):
    """greedy pairwise covering array: every pair of values of every two factors occurs in some row"""
    names = sorted(factors)
    key = lambda v: repr(v)
    uncovered = set()
    for i, a in enumerate(names):
        for b in names[i + 1:]:
            for va in factors[a]:
                for vb in factors[b]:
                    uncovered.add((a, key(va), b, key(vb)))
    rows = []
    while uncovered:
        best, gain = None, -1
        for _ in range(40):
            row = {n: rng.choice(factors[n]) for n in names}
            # seed half of the candidates with one still-uncovered pair
            if rng.random() < 0.7:
                a, va, b, vb = rng.choice(sorted(uncovered))
                row[a] = [v for v in factors[a] if key(v) == va][0]
                row[b] = [v for v in factors[b] if key(v) == vb][0]
            g = sum(1 for i, a in enumerate(names) for b in names[i + 1:] if (a, key(row[a]), b, key(row[b])) in uncovered)
            if g > gain:
                best, gain = row, g
        rows.append(best)
        for i, a in enumerate(names):
            for b in names[i + 1:]:
                uncovered.discard((a, key(best[a]), b, key(best[b])))
    return rows


def opts_of_row(row, world):
    """factor row + world → option record (paths with the $T placeholder)"""
    o = blank_opts()
    fmt = world["in_fmt"]
    o["input"] = "$T/in." + fmt
    o["output"] = "$T/out." + world["out_fmt"]
    if fmt in ("cml", "xyz"):
        o["extract_uc"] = "$T/uc.lmpdat"
    pe = world["pat_fmt"]
    mode = row["mode"]
    if mode in ("find", "replace"):
        o["find"] = "$T/p." + pe
    if mode in ("replace", "replace_only"):
        o["replace"] = "$T/r." + pe
    if row["atol"] is not None:
        o["atol"] = core.q(float(row["atol"]))
    if row["p"] is not None:
        o["fraction"] = core.q(float(row["p"]))
    h = row["hints"]
    n = len(world["pattern"])
    if h == "012":
        o["ap1"], o["ap2"], o["op"] = 0, 1, 2
    elif h == "201":
        o["ap1"], o["ap2"], o["op"] = 2, 0, 1
    elif h == "0--":
        o["ap1"] = 0
    assert n >= 3 or h == "none"
    o["replicate"] = row["replicate"]
    diag = [fr(world["cell"][i][i]) for i in range(3)]
    if row["mic"] == "small":
        o["mic"] = core.q(float(min(diag) / 2 - Fraction(1, 2)))
    elif row["mic"] == "big":
        o["mic"] = core.q(float(max(diag) / 2 + Fraction(1, 4)))
    elif row["mic"] == "zero":
        o["mic"] = core.q(0.0)                                  # satisfied by the structure as it is: factors 1, 1, 1
    elif row["mic"] == "negative":
        o["mic"] = core.q(-3.5)
    elif row["mic"] == "tiny":
        o["mic"] = core.q(1.0 / 64)
    elif row["mic"] == "exact":
        # 2*mic is EXACTLY the largest cell edge: the documented factor there is ceil(1.0) = 1 (boundary of the ceiling)
        o["mic"] = core.q(float(max(diag) / 2))
    if row["q"]:
        o["chargefile"] = "$T/q.txt"
    o["pp"] = bool(row["pp"])
    return o


# ====================================================================== recording wrappers

class Recorder:
    """records the calls the entry point makes (top level only) and the attribute assignments on its structure"""

    def __init__(self):
        self.events = []
        self.inner = {}                  # matches of the search inside a replacement, sampled positions
        self.depth = 0
        self.active = False
        self._tok = {}
        self._keep = []

    def tok(self, obj):
        if obj is None:
            return None
        k = id(obj)
        if k not in self._tok:
            self._tok[k] = len(self._tok) + 1
            self._keep.append(obj)       # keep alive: ids are not reused
        return self._tok[k]

    @contextlib.contextmanager
    def installed(self):
        import ase
        import ase.io
        import mofun.cli.mofun_cli as M
        rec = self
        A = M.Atoms
        saved_cls = {n: A.__dict__[n] for n in ("load", "replicate", "save", "from_ase_atoms", "to_ase")}
        saved_mod = {n: getattr(M, n) for n in ("find_pattern_in_structure", "replace_pattern_in_structure",
                                                 "assign_pair_params_to_structure")}
        had_print = "print" in M.__dict__
        saved_print = M.__dict__.get("print")
        saved_read = ase.io.read
        saved_write = ase.Atoms.write

        class RecAtoms(A):
            __qualname__ = A.__qualname__

            def __setattr__(s, k, v):
                if rec.active and rec.depth == 0:
                    rec.events.append({"k": "set", "attr": k, "on": rec.tok(s), "val": v})
                object.__setattr__(s, k, v)

        RecAtoms.__name__ = A.__name__

        def track(r):
            if isinstance(r, A) and type(r) is A:
                r.__class__ = RecAtoms
            return r

        def wrap(name, fn, describe, after=None):
            def w(*a, **k):
                top = rec.active and rec.depth == 0
                ev = None
                if top:
                    ev = {"k": name}
                    try:
                        describe(ev, a, k)
                    except Exception as e:  # the call itself will raise the real error
                        ev["describe_error"] = repr(e)
                    rec.events.append(ev)
                rec.depth += 1
                try:
                    r = fn(*a, **k)
                except BaseException as e:
                    if ev is not None:
                        ev["raised"] = type(e).__name__
                    raise
                finally:
                    rec.depth -= 1
                if top:
                    if isinstance(r, A):
                        track(r)
                        ev["ret"] = rec.tok(r)
                        ev["ret_obj"] = r
                    if name == "find":
                        try:
                            ev["result"] = [[int(i) for i in t] for t in r]
                        except Exception as e:
                            ev["result_error"] = repr(e)
                    if after is not None:
                        try:
                            after(ev, a, k)
                        except Exception as e:
                            ev["after_error"] = repr(e)
                return r
            return w

        def cell_of(s):
            c = getattr(s, "cell", None)
            return None if c is None else [[float(v) for v in row] for row in c]

        def d_load(ev, a, k):
            ev["path"] = str(a[1])

        def d_repl(ev, a, k):
            import numpy as np
            dims = a[1] if len(a) > 1 else k.get("repldims", (1, 1, 1))
            ev["on"] = rec.tok(a[0])
            ev["nd"] = isinstance(dims, np.ndarray)
            ev["dims"] = [int(v) for v in dims]
            ev["cell"] = cell_of(a[0])

        def snap(x):
            try:
                return core.canon_atoms(x)
            except Exception as e:  # not canonicalisable: the execution tie is skipped for this case
                return {"unsnappable": repr(e)}

        def d_save(ev, a, k):
            ev["on"] = rec.tok(a[0])
            ev["path"] = str(a[1])
            ev["final"] = snap(a[0])

        def d_to_ase(ev, a, k):
            ev["on"] = rec.tok(a[0])
            ev["final"] = snap(a[0])

        def a_snap(ev, a, k):
            if ev.get("ret_obj") is not None:
                ev["snapshot"] = snap(ev["ret_obj"])

        def a_find(ev, a, k):
            pass

        def d_on(ev, a, k):
            ev["on"] = rec.tok(a[0])

        def d_pair(ev, a, k):
            ev["on"] = rec.tok(a[0])
            ev["elements_before"] = [str(x) for x in a[0].atom_type_elements]

        def a_pair(ev, a, k):
            ev["elements"] = [str(x) for x in a[0].atom_type_elements]
            ev["labels"] = [str(x) for x in a[0].atom_type_labels]
            ev["pair_coeffs"] = [str(x) for x in a[0].pair_coeffs]

        def d_from_ase(ev, a, k):
            ev["src"] = rec.tok(a[1])

        find0, repl0 = saved_mod["find_pattern_in_structure"], saved_mod["replace_pattern_in_structure"]

        def d_find(ev, a, k):
            b = inspect.signature(find0).bind(*a, **k)
            b.apply_defaults()
            g = b.arguments
            ev.update(on=rec.tok(g["structure"]), pattern=rec.tok(g["pattern"]), atol=float(g["atol"]),
                      hints=[g["axisp1_idx"], g["axisp2_idx"], g["opoint_idx"]],
                      other={n: g[n] for n in ("return_positions_and_quats", "verbose")})

        def d_replace(ev, a, k):
            b = inspect.signature(repl0).bind(*a, **k)
            b.apply_defaults()
            g = b.arguments
            ev.update(on=rec.tok(g["structure"]), pattern=rec.tok(g["search_pattern"]), repl=rec.tok(g["replace_pattern"]),
                      atol=float(g["atol"]), hints=[g["axisp1_idx"], g["axisp2_idx"], g["opoint_idx"]],
                      fraction=float(g["replace_fraction"]),
                      other={n: g[n] for n in ("return_num_matches", "replace_all", "verbose",
                                               "positions_check_max_delta", "ignore_atoms_should_not_be_deleted_twice")})

        def d_read(ev, a, k):
            ev["path"] = str(a[0])
            ev["format"] = k.get("format", a[2] if len(a) > 2 else None)

        def d_write(ev, a, k):
            ev["on"] = rec.tok(a[0])
            ev["path"] = str(a[1])

        import mofun.mofun as mm
        saved_inner_find = mm.find_pattern_in_structure
        saved_sample = random.sample

        def inner_find(*a, **k):
            out = saved_inner_find(*a, **k)
            if rec.active and k.get("return_positions_and_quats"):
                try:
                    import numpy as np
                    rec.inner["found"] = [{"idx": [int(i) for i in t],
                                           "pos": [[core.q(x) for x in pp] for pp in np.array(out[1][n], dtype=float).tolist()],
                                           "quat": [core.q(float(x)) for x in out[2][n].as_quat()]}
                                          for n, t in enumerate(out[0])]
                except Exception as e:
                    rec.inner["found_error"] = repr(e)
            return out

        def sample_wrap(pop, k):
            out = saved_sample(pop, k)
            if rec.active:
                rec.inner["sample"] = [int(i) for i in out]
            return out

        def rec_print(*a, **k):
            if rec.active and rec.depth == 0:
                rec.events.append({"k": "print", "text": " ".join(str(x) for x in a)})
            return builtins.print(*a, **k)

        def w_read(*a, **k):
            r = wrap("ase_read", saved_read, d_read)(*a, **k)
            if rec.events and rec.events[-1]["k"] == "ase_read":
                rec.events[-1]["ret_any"] = rec.tok(r)
                rec.events[-1]["ret_positions"] = getattr(r, "positions", None)
            return r

        try:
            A.load = classmethod(wrap("load", saved_cls["load"].__func__, d_load, a_snap))
            A.from_ase_atoms = classmethod(wrap("from_ase", saved_cls["from_ase_atoms"].__func__, d_from_ase, a_snap))
            A.replicate = wrap("replicate", saved_cls["replicate"], d_repl)
            A.save = wrap("save", saved_cls["save"], d_save)
            A.to_ase = wrap("to_ase", saved_cls["to_ase"], d_to_ase)
            M.find_pattern_in_structure = wrap("find", find0, d_find)
            M.replace_pattern_in_structure = wrap("replace", repl0, d_replace)
            M.assign_pair_params_to_structure = wrap("assign_pair", saved_mod["assign_pair_params_to_structure"], d_pair, a_pair)
            M.print = rec_print
            mm.find_pattern_in_structure = inner_find
            random.sample = sample_wrap
            ase.io.read = w_read
            ase.Atoms.write = wrap("ase_write", saved_write, d_write)
            self.active = True
            yield self
        finally:
            self.active = False
            for n, v in saved_cls.items():
                setattr(A, n, v)
            for n, v in saved_mod.items():
                setattr(M, n, v)
            if had_print:
                M.print = saved_print
            elif "print" in M.__dict__:
                del M.print
            ase.io.read = saved_read
            ase.Atoms.write = saved_write
            mm.find_pattern_in_structure = saved_inner_find
            random.sample = saved_sample
            # objects switched to the recording subclass go back to plain Atoms
            for obj in self._keep:
                if isinstance(obj, A) and type(obj) is not A:
                    try:
                        obj.__class__ = A
                    except Exception:
                        pass


def run_cli(o, T, seed):
    """invoke the real entry point under the recorder; returns (click result, raw events)"""
    import numpy as np
    from click.testing import CliRunner
    import mofun.cli.mofun_cli as M
    rec = Recorder()
    args = argv(o, T)
    with rec.installed():
        random.seed(seed)
        np.random.seed(seed)
        try:
            runner = CliRunner(mix_stderr=False)
        except TypeError:
            runner = CliRunner()
        res = runner.invoke(M.mofun_cli, args)
    return res, rec.events, rec.inner


# ====================================================================== trace normalisation (canonical call list)

def _hint(v):
    return None if v is None else int(v)


def normalise(events, o, T, ortho, chargevals):
    """raw events → the call list in the model's vocabulary; `flow` = every call acted on the current structure"""
    import numpy as np
    out = []
    flow = []
    cur = None
    expected = (["replicate"] if o["replicate"] else []) + (["micReplicate"] if (o["mic"] is not None and ortho) else [])
    repl_events = [e for e in events if e["k"] == "replicate"]
    if len(repl_events) == len(expected):
        labels = list(expected)
    else:
        labels = ["micReplicate" if e.get("nd") else "replicate" for e in repl_events]
    labels = iter(labels)
    first_load = True
    pending_patterns = []
    i = 0
    n = len(events)

    def call(f, **args):
        out.append({"f": f, "args": args})

    while i < n:
        e = events[i]
        nxt = events[i + 1] if i + 1 < n else None
        k = e["k"]
        if k == "load":
            p = unsub(e["path"], T)
            if first_load:
                first_load = False
                call("load", path=p)
                cur = e.get("ret")
            elif nxt is not None and nxt["k"] == "set" and nxt["attr"] == "cell":
                same_cell = e.get("ret_obj") is not None and (nxt["val"] is e["ret_obj"].cell or (
                    nxt["val"] is not None and e["ret_obj"].cell is not None and np.array_equal(nxt["val"], e["ret_obj"].cell)))
                call("setCellFrom", path=p if same_cell else "?other-cell")
                flow.append(nxt["on"] == cur)
                i += 1
            else:
                call("loadPattern", path=p)
                pending_patterns.append(e.get("ret"))
        elif k == "ase_read":
            p = unsub(e["path"], T)
            if e.get("format") is None and nxt is not None and nxt["k"] == "from_ase":
                call("loadAse", path=p)
                flow.append(nxt.get("src") == e.get("ret_any"))
                cur = nxt.get("ret")
                first_load = False
                i += 1
            elif e.get("format") == "lammps-dump-text" and nxt is not None and nxt["k"] == "set" and nxt["attr"] == "positions":
                ok = e.get("ret_positions") is not None and np.array_equal(nxt["val"], e["ret_positions"])
                call("setPositionsFromDump", path=p if ok else "?other-positions")
                flow.append(nxt["on"] == cur)
                i += 1
            else:
                call("?ase_read", path=p)
        elif k == "set":
            if e["attr"] == "charges":
                # the file's values, or a whole-number tiling of them (equivalent after a replication, which appends
                # complete images of the structure)
                val = np.asarray(e["val"], dtype=float).ravel()
                ok = bool(chargevals) and len(val) % len(chargevals) == 0 and np.array_equal(
                    val, np.tile(np.asarray(chargevals, dtype=float), len(val) // len(chargevals)))
                call("setCharges", file=o["chargefile"] if (ok and o["chargefile"]) else "?other-values")
                flow.append(e["on"] == cur)
            else:
                call("?set:" + e["attr"])
        elif k == "replicate":
            call(next(labels, "replicate"), dims=e["dims"])
            flow.append(e["on"] == cur)
            cur = e.get("ret")
        elif k == "assign_pair":
            call("assignPair")
            flow.append(e["on"] == cur)
        elif k == "find":
            call("find", atol=core.q(e["atol"]), ap1=_hint(e["hints"][0]), ap2=_hint(e["hints"][1]), op=_hint(e["hints"][2]))
            flow.append(e["on"] == cur and pending_patterns[-1:] == [e["pattern"]])
            flow.append(e["other"] == {"return_positions_and_quats": False, "verbose": False})
        elif k == "replace":
            call("replace", atol=core.q(e["atol"]), ap1=_hint(e["hints"][0]), ap2=_hint(e["hints"][1]), op=_hint(e["hints"][2]),
                 fraction=core.q(e["fraction"]))
            flow.append(e["on"] == cur and pending_patterns[-2:] == [e["pattern"], e["repl"]])
            flow.append(e["other"] == {"return_num_matches": False, "replace_all": False, "verbose": False,
                                       "positions_check_max_delta": 0.1, "ignore_atoms_should_not_be_deleted_twice": False})
            cur = e.get("ret")
        elif k == "print":
            t = e["text"]
            if "only implemented for orthorhombic" in t:
                call("micSkippedNotOrtho")
            elif "Cannot perform a replace operation without a find" in t:
                call("warnReplaceWithoutFind")
        elif k == "save":
            call("save", path=unsub(e["path"], T))
            flow.append(e["on"] == cur)
        elif k == "to_ase":
            if nxt is not None and nxt["k"] == "ase_write":
                call("saveAse", path=unsub(nxt["path"], T))
                flow.append(e["on"] == cur)
                i += 1
            else:
                call("?to_ase")
        elif k == "ase_write":
            call("?ase_write", path=unsub(e["path"], T))
        elif k == "from_ase":
            call("?from_ase")
        else:
            call("?" + k)
        i += 1
    return out, all(flow)


# ====================================================================== the two oracles (independent of the model)

def spec_mic_dims(mic, cell):
    """the documented minimum-image factors, exactly: the least n >= 1 with n*a_i >= 2*mic (at least one copy in every
    direction; a cutoff of zero or below needs no replication).  Returns (dims, min distance of 2*mic/a_i from a
    non-attained integer) — the latter is the float-evaluation margin"""
    dims, margin = [], 1.0
    for i in range(3):
        x = 2 * Fraction(mic) / Fraction(cell[i][i])
        d = math.ceil(x)
        dims.append(max(1, d))
        if x != d:
            margin = min(margin, float(min(x - math.floor(x), d - x)))
    return dims, margin


def cell_is_diag(cell):
    return all(cell[i][j] == 0 for i in range(3) for j in range(3) if i != j)


def oracle_trace(o, calls, events, failed_early):
    """the property's own sentences, on the recorded calls.  Returns None or a description of what fails."""
    f = [c["f"] for c in calls]
    unknown = [x for x in f if x.startswith("?")]
    if unknown:
        return None  # not classifiable: a matter for the tie, not a demonstrated violation
    atol = o["atol"] if o["atol"] is not None else core.q(DEFAULT_ATOL)
    frac = o["fraction"] if o["fraction"] is not None else core.q(DEFAULT_FRACTION)
    hints = {"ap1": o["ap1"], "ap2": o["ap2"], "op": o["op"]}
    idx = lambda name: [i for i, x in enumerate(f) if x == name]
    if not calls or calls[0]["f"] not in ("load", "loadAse") or calls[0]["args"]["path"] != o["input"]:
        return "the first call is not the load of the input path"
    if not failed_early:
        if calls[-1]["f"] not in ("save", "saveAse") or calls[-1]["args"]["path"] != o["output"]:
            return "the last call is not the save to the output path"
    # --replicate
    r = idx("replicate")
    if o["replicate"]:
        if len(r) != 1 or calls[r[0]]["args"]["dims"] != list(o["replicate"]):
            return "--replicate %s does not reach Atoms.replicate (calls: %s)" % (o["replicate"], [calls[i]["args"] for i in r])
    elif r:
        return "replicate called without --replicate"
    # --mic
    m = idx("micReplicate")
    repl_events = [e for e in events if e["k"] == "replicate"]
    if o["mic"] is not None:
        mic_ev = repl_events[-1] if m else None
        if m:
            if len(m) != 1:
                return "more than one minimum-image replication"
            cell = mic_ev["cell"]
            if cell is None or not cell_is_diag(cell):
                return "minimum-image replication applied to a non-orthorhombic / missing cell"
            want, margin = spec_mic_dims(fl(o["mic"]), cell)
            if margin > 1e-7 and calls[m[0]]["args"]["dims"] != want:
                return "--mic %s on cell diagonal %s replicates by %s, documented max(1, ceil(2*mic/a)) = %s" % (
                    fl(o["mic"]), [cell[i][i] for i in range(3)], calls[m[0]]["args"]["dims"], want)
        elif "micSkippedNotOrtho" not in f and not failed_early:
            return "--mic given but neither a minimum-image replication nor the not-orthorhombic warning happened"
    elif m:
        return "minimum-image replication without --mic"
    # --pp
    p = idx("assignPair")
    if len(p) != (1 if o["pp"] else 0):
        if not (failed_early and o["pp"] and not p):
            return "--pp=%s but assign_pair_params_to_structure called %d times" % (o["pp"], len(p))
    # -q
    c = idx("setCharges")
    if o["chargefile"]:
        if len(c) != 1 or calls[c[0]]["args"]["file"] != o["chargefile"]:
            if not (failed_early and not c):
                return "the charge file's values are not what atoms.charges is set to"
    elif c:
        return "charges set without a charge file"
    # search
    fi, re_ = idx("find"), idx("replace")
    if o["find"] and o["replace"]:
        if fi:
            return "find-only search although a replace pattern was given"
        if len(re_) != 1:
            if not (failed_early and not re_):
                return "find+replace requested but replace_pattern_in_structure called %d times" % len(re_)
        else:
            a = calls[re_[0]]["args"]
            if a["atol"] != atol:
                return "--atol %s does not reach replace_pattern_in_structure (got %s)" % (float(Fraction(atol)), float(Fraction(a["atol"])))
            if {k: a[k] for k in hints} != hints:
                return "-ap1/-ap2/-op %s do not reach replace_pattern_in_structure (got %s)" % (hints, {k: a[k] for k in hints})
            if a["fraction"] != frac:
                return "--replace-fraction %s does not reach replace_pattern_in_structure (got %s)" % (
                    float(Fraction(frac)), float(Fraction(a["fraction"])))
    elif o["find"]:
        if re_:
            return "replace performed without a replace pattern"
        if len(fi) != 1:
            if not (failed_early and not fi):
                return "find requested but find_pattern_in_structure called %d times" % len(fi)
        else:
            a = calls[fi[0]]["args"]
            if a["atol"] != atol:
                return "--atol %s does not reach find_pattern_in_structure (got %s)" % (float(Fraction(atol)), float(Fraction(a["atol"])))
            if {k: a[k] for k in hints} != hints:
                return "-ap1/-ap2/-op %s do not reach find_pattern_in_structure in find-only mode (got %s)" % (
                    hints, {k: a[k] for k in hints})
    else:
        if fi or re_:
            return "a search was performed without a find pattern"
    # order, as far as the written file / the reported matches depend on it ("replicating first"):
    # --replicate before the minimum-image step; replications and pair parameters before the search
    order = [("replicate", r), ("micReplicate", m), ("assignPair", p if re_ else []), ("search", fi + re_)]
    present = [(name, ii[0]) for name, ii in order if ii]
    for (n1, i1), (n2, i2) in zip(present, present[1:]):
        if not i1 < i2:
            return "%s (call #%d) does not precede %s (call #%d)" % (n1, i1, n2, i2)
    return None


_UFF = {}


def uff_expect(el):
    """(key, epsilon, sigma) the documentation of --pp promises for element `el`, from the UFF4MOF table as the
    translator reads it from the source text (harness.gen_tables), NOT through mofun: the first table key that starts
    with the symbol padded with '_' to two characters; epsilon = D1, sigma = x1 * 2^(-1/6)."""
    from .. import gen_tables
    if not _UFF:
        _UFF["t"] = [(k, [Fraction(m, 10 ** e) if e >= 0 else Fraction(m * 10 ** (-e)) for (m, e) in v])
                     for k, v in gen_tables.read_tables()["uff"]]
    pref = el.ljust(2, "_")
    for k, v in _UFF["t"]:
        if k.startswith(pref):
            return k, float(v[3]), float(v[2]) * 2 ** (-1.0 / 6.0)
    return None


def oracle_pp(elements, labels, pairs, where):
    """every atom type that existed when --pp was applied carries the UFF pair potential and the UFF type label of
    its OWN element.  `pairs` are LAMMPS pair-coefficient strings "eps sigma # key".  Returns None or text."""
    if len(labels) < len(elements) or len(pairs) < len(elements):
        return "%s: %d atom types but %d labels / %d pair coefficients after --pp" % (where, len(elements), len(labels), len(pairs))
    bad = []
    for i, el in enumerate(elements):
        want = uff_expect(el)
        if want is None:
            continue
        key, eps, sig = want
        tok = pairs[i].split("#")[0].split()
        try:
            geps, gsig = float(tok[0]), float(tok[1])
        except Exception:
            bad.append("type %d (%s): unreadable pair coefficient %r" % (i + 1, el, pairs[i]))
            continue
        if labels[i] != key or abs(geps - eps) > 2e-6 or abs(gsig - sig) > 2e-6:
            bad.append("type %d (%s): got label %s eps=%.6f sigma=%.6f, UFF4MOF entry of %s is %s eps=%.6f sigma=%.6f"
                       % (i + 1, el, labels[i], geps, gsig, el, key, eps, sig))
    if bad:
        return "%s: --pp assigns pair potentials that are not those of the type's own element: %s" % (where, "; ".join(bad[:4]))
    return None


def assign_pair_api(structure):
    """the UFF pair-parameter assignment, through the library's own tables (not the CLI module's helper)"""
    from mofun.rough_uff import pair_coeffs
    from mofun.uff4mof import uff_key_starts_with
    keys = [uff_key_starts_with(el.ljust(2, "_"))[0] for el in structure.atom_type_elements]
    structure.pair_coeffs = ['%10.6f %10.6f # %s' % (*pair_coeffs(k), k) for k in keys]
    structure.atom_type_labels = keys


def api_pipeline(o, T, seed, out_path):
    """the API pipeline the property names: load the same files, overrides, charges, replicate, mic-replicate, pair
    parameters, find or replace with the same options and the same seed, save.  Returns the matches (find-only)."""
    import numpy as np
    import ase.io
    from mofun import Atoms, find_pattern_in_structure, replace_pattern_in_structure
    random.seed(seed)
    np.random.seed(seed)
    p = sub(o["input"], T)
    if suffix(p) in NATIVE_IN:
        atoms = Atoms.load(p)
    else:
        atoms = Atoms.from_ase_atoms(ase.io.read(p))
    if o["extract_uc"]:
        atoms.cell = Atoms.load(sub(o["extract_uc"], T)).cell
    if o["dump"]:
        d = ase.io.read(sub(o["dump"], T), format="lammps-dump-text")
        assert len(d.positions) == len(atoms.positions)
        atoms.positions = d.positions
    if o["chargefile"]:
        with open(sub(o["chargefile"], T)) as f:
            ch = np.array([float(l.strip()) for l in f if l.strip() != ""])
        assert len(ch) == len(atoms.positions)
        atoms.charges = ch
    if o["replicate"]:
        atoms = atoms.replicate(tuple(o["replicate"]))
    if o["mic"] is not None:
        if atoms.cell is None:
            raise NoCell("the minimum-image step needs a unit cell")
        cell = [[float(v) for v in row] for row in atoms.cell]
        if cell_is_diag(cell):
            dims, _ = spec_mic_dims(fl(o["mic"]), cell)
            atoms = atoms.replicate(tuple(dims))
    if o["pp"]:
        assign_pair_api(atoms)
    matches = None
    hints = dict(axisp1_idx=o["ap1"], axisp2_idx=o["ap2"], opoint_idx=o["op"])
    atol = fl(o["atol"]) if o["atol"] is not None else DEFAULT_ATOL
    if o["find"]:
        sp = Atoms.load(sub(o["find"], T))
        if o["replace"]:
            rp = Atoms.load(sub(o["replace"], T))
            frac = fl(o["fraction"]) if o["fraction"] is not None else DEFAULT_FRACTION
            atoms = replace_pattern_in_structure(atoms, sp, rp, atol=atol, replace_fraction=frac, **hints)
        else:
            matches = find_pattern_in_structure(atoms, sp, atol=atol, **hints)
    mem = core.canon_atoms(atoms)            # the structure the API route holds, before any writer touches it
    if suffix(out_path) in NATIVE_OUT:
        atoms.save(out_path)
    else:
        a = atoms.to_ase()
        a.set_pbc(True)
        a.write(out_path)
    return matches, mem


# ---------------------------------------------------------------------- independent readers of the written files

def _cif_tokens(text):
    toks, i, n = [], 0, len(text)
    lines = text.split("\n")
    out = []
    k = 0
    while k < len(lines):
        ln = lines[k]
        if ln.startswith(";"):                       # semicolon text field
            buf = [ln[1:]]
            k += 1
            while k < len(lines) and not lines[k].startswith(";"):
                buf.append(lines[k])
                k += 1
            out.append(("v", "\n".join(buf)))
            k += 1
            continue
        j = 0
        while j < len(ln):
            ch = ln[j]
            if ch.isspace():
                j += 1
            elif ch == "#":
                break
            elif ch in "'\"":
                e = j + 1
                while e < len(ln) and not (ln[e] == ch and (e + 1 == len(ln) or ln[e + 1].isspace())):
                    e += 1
                out.append(("v", ln[j + 1:e]))
                j = e + 1
            else:
                e = j
                while e < len(ln) and not ln[e].isspace():
                    e += 1
                w = ln[j:e]
                out.append(("t" if w.startswith("_") else "k" if w.lower() == "loop_" or w.lower().startswith("data_") else "v", w))
                j = e
        k += 1
    return out


def read_cif_plain(path):
    """a minimal CIF reader written for this check (no PyCifRW, no mofun): items and loops of the first data block"""
    toks = _cif_tokens(open(path).read())
    items, loops = {}, []
    i = 0
    while i < len(toks):
        kind, w = toks[i]
        if kind == "k" and w.lower() == "loop_":
            i += 1
            tags = []
            while i < len(toks) and toks[i][0] == "t":
                tags.append(toks[i][1].lower())
                i += 1
            vals = []
            while i < len(toks) and toks[i][0] == "v":
                vals.append(toks[i][1])
                i += 1
            if tags and len(vals) % len(tags) == 0:
                rows = [vals[r:r + len(tags)] for r in range(0, len(vals), len(tags))]
                loops.append({t: [row[c] for row in rows] for c, t in enumerate(tags)})
            else:
                raise ValueError("loop with %d tags and %d values" % (len(tags), len(vals)))
        elif kind == "t":
            if i + 1 < len(toks) and toks[i + 1][0] == "v":
                items[w.lower()] = toks[i + 1][1]
                i += 2
            else:
                i += 1
        else:
            i += 1
    return items, loops


def _num(s):
    return float(re.sub(r"\(\d+\)$", "", s))


def structure_from_cif(path):
    import numpy as np
    items, loops = read_cif_plain(path)
    site = next(l for l in loops if "_atom_site_label" in l)
    out = {"labels": site["_atom_site_label"], "elems": site.get("_atom_site_type_symbol"), "cell": None}
    if "_cell_length_a" in items:
        a, b, c = [_num(items["_cell_length_" + k]) for k in "abc"]
        al, be, ga = [np.radians(_num(items["_cell_angle_" + k])) for k in ("alpha", "beta", "gamma")]
        # standard orientation: a along x, b in the xy plane
        bx, by = b * np.cos(ga), b * np.sin(ga)
        cx = c * np.cos(be)
        cy = c * (np.cos(al) - np.cos(be) * np.cos(ga)) / np.sin(ga)
        cz = np.sqrt(max(c * c - cx * cx - cy * cy, 0.0))
        out["cell"] = np.array([[a, 0, 0], [bx, by, 0], [cx, cy, cz]])
    if "_atom_site_fract_x" in site:
        out["frac"] = np.array([[_num(v) for v in site["_atom_site_fract_" + k]] for k in "xyz"]).T
    else:
        out["cart"] = np.array([[_num(v) for v in site["_atom_site_cartn_" + k]] for k in "xyz"]).T
    out["charges"] = [_num(v) for v in site["_atom_site_charge"]] if "_atom_site_charge" in site else None
    out["terms"] = {}
    for kind, n in (("bond", 2), ("angle", 3), ("torsion", 4)):
        for l in loops:
            key = "_geom_%s_atom_site_label_1" % kind
            if key in l:
                out["terms"][kind] = list(zip(*[l["_geom_%s_atom_site_label_%d" % (kind, k + 1)] for k in range(n)]))
    return out


def structure_from_lmpdat(path):
    import numpy as np
    from ase.data import atomic_masses, chemical_symbols
    lines = [l.split("#")[0].strip() for l in open(path).read().split("\n")]
    box = {}
    sec, data = None, {"Masses": [], "Atoms": [], "Bonds": []}
    for ln in lines[1:]:
        if not ln:
            continue
        w = ln.split()
        if ln in ("Masses", "Atoms", "Bonds", "Angles", "Dihedrals", "Impropers", "Pair Coeffs", "Bond Coeffs", "Angle Coeffs",
                  "Dihedral Coeffs", "Improper Coeffs") or ln.startswith("Atoms"):
            sec = ln.split()[0] if ln.split()[0] in data else "other"
            continue
        if sec is None:
            if ln.endswith("xlo xhi"):
                box["x"] = (float(w[0]), float(w[1]))
            elif ln.endswith("ylo yhi"):
                box["y"] = (float(w[0]), float(w[1]))
            elif ln.endswith("zlo zhi"):
                box["z"] = (float(w[0]), float(w[1]))
            elif ln.endswith("xy xz yz"):
                box["tilt"] = (float(w[0]), float(w[1]), float(w[2]))
        elif sec in data:
            data[sec].append(w)
    masses = {int(w[0]): float(w[1]) for w in data["Masses"]}

    def elem(m):
        z = min(range(1, len(atomic_masses)), key=lambda k: abs(atomic_masses[k] - m))
        return chemical_symbols[z] if abs(atomic_masses[z] - m) < 0.1 else "?"
    rows = sorted(data["Atoms"], key=lambda w: int(w[0]))
    out = {"elems": [elem(masses[int(w[2])]) for w in rows], "charges": [float(w[3]) for w in rows],
           "cart": np.array([[float(w[4]), float(w[5]), float(w[6])] for w in rows]).reshape(-1, 3), "cell": None,
           "ids": [int(w[0]) for w in rows]}
    if "x" in box:
        xy, xz, yz = box.get("tilt", (0.0, 0.0, 0.0))
        out["cell"] = np.array([[box["x"][1] - box["x"][0], 0, 0], [xy, box["y"][1] - box["y"][0], 0],
                                [xz, yz, box["z"][1] - box["z"][0]]])
        out["origin"] = np.array([box["x"][0], box["y"][0], box["z"][0]])
    pos_of = {i: k for k, i in enumerate(out["ids"])}
    out["terms"] = {"bond": [(pos_of[int(w[2])], pos_of[int(w[3])]) for w in data["Bonds"]]}
    return out


def structure_from_mol(path):
    """RASPA .mol as written by save_raspa_mol: `index x y z element charge 0 0` lines, then the cell lengths and angles"""
    import numpy as np
    lines = open(path).read().split("\n")
    n = int(lines[3].split()[0])
    rows = [l.split() for l in lines[4:4 + n]]
    out = {"elems": [w[4] for w in rows], "charges": [float(w[5]) for w in rows],
           "cart": np.array([[float(w[1]), float(w[2]), float(w[3])] for w in rows]).reshape(-1, 3), "cell": None, "terms": {}}
    k = next((i for i, l in enumerate(lines) if "Fundcell_Info" in l), None)
    if k is not None:
        a, b, c = [float(v) for v in lines[k + 1].split()]
        al, be, ga = [np.radians(float(v)) for v in lines[k + 2].split()]
        bx, by = b * np.cos(ga), b * np.sin(ga)
        cx = c * np.cos(be)
        cy = c * (np.cos(al) - np.cos(be) * np.cos(ga)) / np.sin(ga)
        out["cell"] = np.array([[a, 0, 0], [bx, by, 0], [cx, cy, np.sqrt(max(c * c - cx * cx - cy * cy, 0.0))]])
    return out


def oracle_against_input(path, world, o):
    """"writes the structure unmodified": the file the command line wrote, read by the check's own reader, against the
    INPUT DATA of the generated world (not against any other run of the library).  Without a replacement every input
    atom (and every periodic image made by --replicate / --mic) stands in the output with its element, at its STORED
    coordinates (not merely at a lattice-equivalent place), and nothing else does; with a replacement this is required
    of the atoms that belong to no copy of the pattern.  None or text."""
    import itertools
    import numpy as np
    if world.get("kind") != "gen" or o["dump"] or o["framework_element"]:
        return None
    sfx = suffix(path)
    if sfx not in (".cif", ".lmpdat", ".mol"):
        return None
    fmt = world["in_fmt"]
    has_cell = fmt in ("lmpdat", "cif") or bool(o["extract_uc"])
    try:
        got = structure_from_cif(path) if sfx == ".cif" else structure_from_lmpdat(path) if sfx == ".lmpdat" \
            else structure_from_mol(path)
    except Exception as e:
        return "the written %s file cannot be read back by an independent reader: %r" % (sfx, e)
    cell = np.array([[fl(v) for v in row] for row in world["cell"]]) if has_cell else None
    dims = [1, 1, 1]
    if o["replicate"]:
        dims = [int(v) for v in o["replicate"]]
    if o["mic"] is not None and cell is not None and cell_is_diag(cell.tolist()):
        scaled = [[cell[i][j] * dims[i] for j in range(3)] for i in range(3)]
        md, margin = spec_mic_dims(fl(o["mic"]), scaled)
        if margin <= 1e-7:
            return None
        dims = [dims[i] * md[i] for i in range(3)]
    if cell is None and dims != [1, 1, 1]:
        return None
    replace = bool(o["find"] and o["replace"])
    rows = world["atoms"]
    first_bystander = world.get("nplanted") if replace else 0
    if first_bystander is None:
        return None
    if "cart" in got:
        out_pos = got["cart"] - got.get("origin", 0.0) if False else got["cart"]
    else:
        out_pos = got["frac"].dot(got["cell"])
        # the CIF cell is in the standard orientation; the worlds' cells are too (lower triangular)
    out_el = list(got["elems"])
    tol = 5e-3 if sfx == ".cif" else 2e-4 if sfx == ".mol" else 2e-5
    modulo = fmt == "cif"                    # load_p1_cif wraps on load: only then a lattice-equivalent place is right
    final_cell = None if cell is None else cell * np.array(dims).reshape(3, 1)
    finv = None if final_cell is None else np.linalg.inv(final_cell)
    used = np.zeros(len(out_el), dtype=bool)
    expected = 0
    for mult in itertools.product(range(dims[0]), range(dims[1]), range(dims[2])):
        off = np.zeros(3) if cell is None else np.array(mult, dtype=float).dot(cell)
        for k, r in enumerate(rows):
            if k < first_bystander:
                continue
            expected += 1
            x = np.array([fl(v) for v in r["pos"]]) + off
            d = out_pos - x
            if modulo and finv is not None:
                f = d.dot(finv)
                d = (f - np.round(f)).dot(final_cell)
            ok = (np.abs(d).max(axis=1) <= tol) & (~used) & np.array([e == r["el"] for e in out_el])
            idx = np.nonzero(ok)[0]
            if len(idx) == 0:
                near = np.abs(d).max(axis=1)
                same = [i for i, e in enumerate(out_el) if e == r["el"]]
                j = min(same, key=lambda i: near[i]) if same else None
                return ("input atom %d (%s) stored at %s%s is not in the output at its stored coordinates%s" % (
                    k, r["el"], [round(float(v), 5) for v in x], "" if mult == (0, 0, 0) else " (image %s)" % (mult,),
                    "" if j is None else "; the nearest %s of the output is at %s" % (r["el"], [round(float(v), 5) for v in out_pos[j]])))
            used[idx[0]] = True
    if not replace and len(out_el) != expected:
        return "the output holds %d atoms, the input (with its --replicate / --mic images) %d" % (len(out_el), expected)
    # the lattice of the written file is the lattice of the supercell the options name: vector i of the input cell times
    # factor i (the atoms above were found at their images under these very vectors: a file whose cell is another one
    # describes another periodic structure)
    if final_cell is not None:
        bad = lattice_mismatch(got.get("cell"), final_cell, sfx)
        if bad:
            return "%s (input cell rows %s, factors %s)" % (bad, [[round(float(v), 5) for v in r] for r in cell], dims)
    return None


def lattice_mismatch(got_cell, want_cell, sfx):
    """the lattice a written file states against the lattice it has to state, as lengths and angles (Gram matrix: both
    formats fix the orientation, so nothing is lost).  None or text."""
    import numpy as np
    if got_cell is None:
        return "the written file states no unit cell"
    want_cell = np.array(want_cell, dtype=float)
    G, Gf = want_cell.dot(want_cell.T), np.array(got_cell).dot(np.array(got_cell).T)
    if np.abs(G - Gf).max() <= 1e-3 * max(1.0, np.abs(G).max()) * (1e-2 if sfx == ".lmpdat" else 1.0):
        return None

    def ang(M):
        with np.errstate(all="ignore"):
            return [round(float(np.degrees(np.arccos(M[i][j] / np.sqrt(M[i][i] * M[j][j])))), 3) for i, j in ((1, 2), (0, 2), (0, 1))]
    return ("the lattice of the written file (lengths %s, alpha/beta/gamma %s) is not the lattice of the replicated input "
            "(lengths %s, angles %s)" % ([round(float(np.sqrt(Gf[i][i])), 5) for i in range(3)], ang(Gf),
                                        [round(float(np.sqrt(G[i][i])), 5) for i in range(3)], ang(G)))


def oracle_repo_supercell(path, o, T):
    """repository files (worlds that are not generated): the input file and the written file are both read by the check's
    own readers; without a replacement the written file states the lattice (n_i x vector i of the input's) and holds the
    atoms (every input atom shifted by i*a + j*b + k*c, same element, up to the order and to lattice vectors of the
    supercell) of the supercell named by --replicate / --mic.  With a replacement only the lattice is required.  None or text."""
    import itertools
    import numpy as np
    if o["dump"] or o["framework_element"]:
        return None
    sfx, isfx = suffix(path), suffix(o["input"])
    if sfx not in (".cif", ".lmpdat") or isfx not in (".cif", ".lmpdat"):
        return None
    read = lambda p: structure_from_cif(p) if suffix(p) == ".cif" else structure_from_lmpdat(p)
    try:
        src = read(sub(o["input"], T))
        if o["extract_uc"]:
            src["cell"] = read(sub(o["extract_uc"], T))["cell"]
    except Exception:
        return None                                  # the input is outside what the check's own readers understand
    if src.get("cell") is None or src.get("elems") is None:
        return None
    try:
        got = read(path)
    except Exception as e:
        return "the written %s file cannot be read back by an independent reader: %r" % (sfx, e)
    cell = np.array(src["cell"], dtype=float)
    cell[np.abs(cell) < 1e-9 * np.abs(cell).max()] = 0.0       # cos(90 degrees) of the CIF angles is 6e-17, not 0
    dims = [int(v) for v in o["replicate"]] if o["replicate"] else [1, 1, 1]
    if o["mic"] is not None and not cell_is_diag(cell.tolist()):
        if np.abs(cell - np.diag(np.diag(cell))).max() < 1e-3:
            return None                              # within rounding of orthorhombic: which branch --mic takes is not decided here
    if o["mic"] is not None and cell_is_diag(cell.tolist()):
        md, margin = spec_mic_dims(fl(o["mic"]), [[cell[i][j] * dims[i] for j in range(3)] for i in range(3)])
        if margin <= 1e-7:
            return None
        dims = [dims[i] * md[i] for i in range(3)]
    final_cell = cell * np.array(dims).reshape(3, 1)
    bad = lattice_mismatch(got.get("cell"), final_cell, sfx)
    if bad:
        return "%s (input cell rows %s, factors %s)" % (bad, [[round(float(v), 5) for v in r] for r in cell], dims)
    if o["find"] and o["replace"]:
        return None
    pos = src["cart"] if "cart" in src else src["frac"].dot(cell)
    want = np.array([p + np.array(m, dtype=float).dot(cell) for m in itertools.product(*[range(d) for d in dims]) for p in pos])
    want_el = list(src["elems"]) * (dims[0] * dims[1] * dims[2])
    if len(got["elems"]) != len(want_el):
        return "the output holds %d atoms, the input with its --replicate / --mic images %d" % (len(got["elems"]), len(want_el))
    if len(want) > 3000:
        return None
    have = got["cart"] if "cart" in got else got["frac"].dot(final_cell)
    finv = np.linalg.inv(final_cell)
    tol = 5e-3 if ".cif" in (sfx, isfx) else 5e-5
    used = np.zeros(len(have), dtype=bool)
    got_el = np.array(list(got["elems"]))
    for k in range(len(want)):
        f = (have - want[k]).dot(finv)
        d = np.abs((f - np.round(f)).dot(final_cell)).max(axis=1)
        idx = np.nonzero((d <= tol) & (~used) & (got_el == want_el[k]))[0]
        if len(idx) == 0:
            return "the image of input atom %d (%s) at %s is not in the output (modulo the supercell's lattice)" % (
                k % len(pos), want_el[k], [round(float(v), 4) for v in want[k]])
        used[idx[0]] = True
    return None


def oracle_written(path, mem):
    """the property itself: the file the command line wrote, read back by a reader that shares nothing with mofun's
    writers, describes the structure the API route holds in memory — elements, charges, lattice (lengths and angles:
    the formats fix the orientation), positions (fractional; modulo 1 for CIF), bonds by atom.  None or text."""
    import numpy as np
    sfx = suffix(path)
    if sfx not in (".cif", ".lmpdat", ".mol"):
        return None
    try:
        got = structure_from_cif(path) if sfx == ".cif" else structure_from_lmpdat(path) if sfx == ".lmpdat" \
            else structure_from_mol(path)
    except Exception as e:
        return "the written %s file cannot be read back by an independent reader: %r" % (sfx, e)
    els = [mem["types"]["elem"][r["ty"]] for r in mem["atoms"]]
    if got["elems"] is None or list(got["elems"]) != els:
        return "elements in the file %s differ from the structure's %s" % (list(got["elems"] or [])[:12], els[:12])
    pos = np.array([[fl(v) for v in r["pos"]] for r in mem["atoms"]]).reshape(-1, 3)
    ptol = 2e-4 if sfx == ".cif" else 2e-6 if sfx == ".lmpdat" else 1e-4 / 5
    if mem["cell"] is not None:
        c = np.array([[fl(v) for v in row] for row in mem["cell"]])
        if got["cell"] is None:
            return "the structure has a unit cell, the file has none"
        G, Gf = c.dot(c.T), got["cell"].dot(got["cell"].T)
        if np.abs(G - Gf).max() > 1e-3 * max(1.0, np.abs(G).max()) * (1e-2 if sfx == ".lmpdat" else 1.0):
            def ang(M):
                with np.errstate(all="ignore"):
                    return [float(np.degrees(np.arccos(M[i][j] / np.sqrt(M[i][i] * M[j][j])))) for i, j in ((1, 2), (0, 2), (0, 1))]
            return ("the lattice in the file (lengths %s, alpha/beta/gamma %s) is not the structure's (lengths %s, angles %s)"
                    % ([round(float(np.sqrt(Gf[i][i])), 5) for i in range(3)], [round(a, 3) for a in ang(Gf)],
                       [round(float(np.sqrt(G[i][i])), 5) for i in range(3)], [round(a, 3) for a in ang(G)]))
        fm = pos.dot(np.linalg.inv(c))
        if "frac" in got:
            ff = got["frac"]
        else:
            ff = (got["cart"] - got.get("origin", 0.0)).dot(np.linalg.inv(got["cell"]))
        d = fm - ff
        if sfx == ".cif":
            d = d - np.round(d)
        if len(d) and np.abs(d).max() > ptol:
            i = int(np.abs(d).max(axis=1).argmax())
            return "atom %d: fractional coordinates %s in the file, %s in the structure" % (i, list(np.round(ff[i], 5)), list(np.round(fm[i], 5)))
    elif "cart" in got:
        if len(pos) and np.abs(pos - got["cart"]).max() > max(ptol, 1e-4):
            return "Cartesian coordinates in the file differ from the structure's"
    if got.get("charges") is not None:
        q = [fl(r["q"]) for r in mem["atoms"]]
        if any(abs(a - b) > 1e-5 for a, b in zip(q, got["charges"])):
            return "charges in the file differ from the structure's"
    # bonds (and, for CIF, angles / torsions) by atom
    names = {"bond": "bond", "angle": "angle", "torsion": "dihedral"}
    if sfx == ".mol":
        return None                      # the format carries no bonds
    if sfx == ".cif":
        labels = list(got["labels"])
        dup = sorted({l for l in labels if labels.count(l) > 1})
        has_terms = any(mem["terms"][k] for k in ("bond", "angle", "dihedral", "improper"))
        if dup and has_terms:
            return "atom site labels %s are used for several atoms: the bond / angle loops of the file are ambiguous" % dup[:6]
        idx = {l: i for i, l in enumerate(labels)}
    canon_t = lambda t: tuple(t) if tuple(t) <= tuple(reversed(t)) else tuple(reversed(t))
    for kind, mk in names.items():
        want = sorted(canon_t(t["a"]) for t in mem["terms"][mk]) if kind != "torsion" else sorted(
            canon_t(t["a"]) for t in mem["terms"]["dihedral"] + mem["terms"]["improper"])
        if sfx == ".lmpdat" and kind != "bond":
            continue
        have = got["terms"].get(kind, [])
        try:
            have = sorted(canon_t([idx[l] for l in t]) if sfx == ".cif" else canon_t(t) for t in have)
        except KeyError as e:
            return "a %s of the file names an atom label %s that no atom carries" % (kind, e)
        if have != want:
            extra = [t for t in have if t not in want][:4]
            missing = [t for t in want if t not in have][:4]
            return "%ss by atom differ: in the file but not in the structure %s, in the structure but not in the file %s" % (
                kind, extra, missing)
    return None


def parsed(path):
    """a written file as a canonical structure dump"""
    import ase.io
    from mofun import Atoms
    if suffix(path) in (".lmpdat", ".cif"):
        with core.quiet():
            return core.canon_atoms(Atoms.load(path))
    if suffix(path) == ".mol":
        return {"text": open(path).read()}
    a = ase.io.read(path)
    return {"symbols": list(a.get_chemical_symbols()), "pos": [[core.q(v) for v in r] for r in a.positions],
            "cell": [[core.q(v) for v in r] for r in a.cell]}


def parse_matches(stdout):
    """the list printed by a find-only run → (announced count, list of tuples)"""
    m = re.search(r"Found (\d+) instances of the search_pattern in the structure\s*\n(\[.*?\])\s*(\n|$)", stdout, flags=re.S)
    if not m:
        return None, None
    text = re.sub(r"np\.\w+\((-?\d+)\)", r"\1", m.group(2))
    try:
        lst = ast.literal_eval(text)
    except Exception:
        return int(m.group(1)), None
    return int(m.group(1)), [tuple(int(v) for v in t) for t in lst]


class NoCell(Exception):
    pass


def err_kind(exc):
    msg = str(exc)
    if isinstance(exc, SystemExit):
        return "error:usage"
    if isinstance(exc, NoCell):
        return "error:nocell"
    if "Can't replicate if no unit cell" in msg or "Input must be 1- or 2-d" in msg or (
            isinstance(exc, AttributeError) and "'NoneType' object has no attribute 'T'" in msg):
        return "error:nocell"
    return "error:" + type(exc).__name__


# ====================================================================== execution tie (Model/CliRun.lean)

EXEC_MAX_ATOMS = 700


def pair_text_table(elements):
    """the text of one pair-coefficient line per UFF key, from the table (not through mofun)"""
    out = {}
    for el in elements:
        w = uff_expect(el)
        if w is not None:
            out[w[0]] = '%10.6f %10.6f # %s' % (w[1], w[2], w[0])
    return out


def exec_op(o, T, events, inner, chargevals):
    """the op for the Lean interpreter `runPlan` / `apiPipeline`: options + environment (what every file holds, what the
    search returned, which matches were sampled), all of it observed on the real run.  Returns (op, expected) or
    (None, reason)."""
    files, ase_files, dump, charges = {}, {}, {}, {}
    elements = set()
    pending_read = None
    for e in events:
        if e["k"] == "load" and "snapshot" in e:
            if "unsnappable" in e["snapshot"]:
                return None, "input not canonicalisable"
            files[unsub(e["path"], T)] = e["snapshot"]
            elements.update(e["snapshot"]["types"]["elem"])
        elif e["k"] == "ase_read":
            pending_read = e
            if e.get("format") == "lammps-dump-text" and e.get("ret_positions") is not None:
                dump[unsub(e["path"], T)] = [[core.q(float(v)) for v in r] for r in e["ret_positions"]]
        elif e["k"] == "from_ase" and "snapshot" in e and pending_read is not None:
            ase_files[unsub(pending_read["path"], T)] = e["snapshot"]
            elements.update(e["snapshot"]["types"]["elem"])
    if o["chargefile"] and chargevals is not None:
        charges[o["chargefile"]] = [core.q(v) for v in chargevals]
    search = []
    fe = [e for e in events if e["k"] == "find" and "result" in e]
    if fe:
        search = [{"idx": t, "pos": [], "quat": ["0", "0", "0", "1"]} for t in fe[0]["result"]]
    elif "found" in inner:
        search = inner["found"]
    op = {"op": "cli_run", "opts": model_opts(o), "files": files, "ase": ase_files, "dump": dump, "charges": charges,
          "search": search, "sample": inner.get("sample"), "pair_text": pair_text_table(sorted(elements))}
    # what the real run produced
    fin = [e for e in events if e["k"] in ("save", "to_ase") and "final" in e]
    expected = None
    if fin:
        e = fin[-1]
        if "unsnappable" in e["final"]:
            return None, "result not canonicalisable"
        if len(e["final"]["atoms"]) > EXEC_MAX_ATOMS:
            return None, "large"
        rep = fe[0]["result"] if fe else None
        if e["k"] == "save":
            expected = {"ok": {"written": {"kind": "native", "path": unsub(e["path"], T), "fmt": suffix(e["path"])[1:],
                                           "atoms": e["final"]}, "reported": rep}}
        else:
            a = e["final"]
            wpath = [x for x in events if x["k"] == "ase_write"]
            expected = {"ok": {"written": {"kind": "ase", "path": unsub(wpath[-1]["path"], T) if wpath else o["output"],
                                           "elems": [a["types"]["elem"][r["ty"]] for r in a["atoms"]],
                                           "pos": [r["pos"] for r in a["atoms"]], "cell": a["cell"]}, "reported": rep}}
    return op, expected


def exec_err_kind(exc):
    if isinstance(exc, AttributeError) and "atom_groups" in str(exc):
        return "reject:atom_groups"
    if isinstance(exc, AssertionError):
        return "reject:assert"
    if type(exc).__name__ == "AtomsShouldNotBeDeletedTwice":
        return "overlap"
    if isinstance(exc, ValueError) and "Sample larger than population or is negative" in str(exc):
        return "reject:sample"
    return err_kind(exc)


def compare_exec(impl, model):
    """None when equal; "ambiguous" when the only difference is a coordinate on a cell face wrapped the other way;
    otherwise a description of the first difference"""
    import numpy as np
    if "ok" not in impl or "ok" not in model:
        return core.same(impl, model)
    wi, wm = impl["ok"]["written"], model["ok"]["written"]
    if impl["ok"]["reported"] != model["ok"]["reported"]:
        return "reported matches: %s vs %s" % (impl["ok"]["reported"], model["ok"]["reported"])
    if wi["kind"] != wm["kind"] or wi["path"] != wm["path"]:
        return "written: %s %s vs %s %s" % (wi["kind"], wi["path"], wm["kind"], wm["path"])
    if wi["kind"] == "ase":
        ai = {"elems": wi["elems"], "cell": wi["cell"]}
        am = {"elems": wm["elems"], "cell": wm["cell"]}
        d = core.same(ai, am, tol=1e-7)
        if d:
            return d
        pi, pm, cell = wi["pos"], wm["pos"], wi["cell"]
    else:
        if wi["fmt"] != wm["fmt"]:
            return "format %s vs %s" % (wi["fmt"], wm["fmt"])

        def strip(j):
            k = dict(j)
            k["atoms"] = [{kk: vv for kk, vv in r.items() if kk != "pos"} for r in j["atoms"]]
            return k
        d = core.same(strip(wi["atoms"]), strip(wm["atoms"]), tol=1e-7)
        if d:
            return d
        pi = [r["pos"] for r in wi["atoms"]["atoms"]]
        pm = [r["pos"] for r in wm["atoms"]["atoms"]]
        cell = wi["atoms"]["cell"]
    if len(pi) != len(pm):
        return "number of atoms %d vs %d" % (len(pi), len(pm))
    amb = False
    c = None if cell is None else np.array([[fl(v) for v in row] for row in cell])
    cinv = None
    if c is not None and abs(np.linalg.det(c)) > 1e-12:
        cinv = np.linalg.inv(c)
    for i, (x, y) in enumerate(zip(pi, pm)):
        x = np.array([fl(v) for v in x])
        y = np.array([fl(v) for v in y])
        if np.abs(x - y).max() <= 1e-6:
            continue
        if cinv is not None:
            f = (x - y).dot(cinv)
            fx = x.dot(cinv)
            on_face = np.minimum(np.abs(fx - np.round(fx)), 1.0).min() <= 1e-6
            if np.abs((f - np.round(f)).dot(c)).max() <= 1e-6 and on_face:
                amb = True
                continue
        return "/atoms[%d]/pos: %s vs %s" % (i, list(x), list(y))
    return "ambiguous" if amb else None


# ====================================================================== argument-vector tie (Model/CliArgs.lean)

def click_parse(args):
    """what click makes of an argument vector for the parameters declared on the real command (nothing is run)"""
    import click
    import mofun.cli.mofun_cli as M
    try:
        with core.quiet():
            ctx = M.mofun_cli.make_context("mofun", list(args))
    except click.exceptions.Exit:
        return {"err": "help"}
    except click.exceptions.NoSuchOption:
        return {"err": "NoSuchOption"}
    except click.exceptions.BadOptionUsage:
        return {"err": "BadOptionUsage"}
    except click.exceptions.MissingParameter:
        return {"err": "MissingParameter"}
    except click.exceptions.BadParameter:
        return {"err": "BadParameter"}
    except click.exceptions.UsageError:
        return {"err": "UsageError"}
    try:
        p = ctx.params
        sp = lambda v: None if v is None else str(v)
        q = p.get("chargefile")
        out = {"input": str(p["inputpath"]), "output": str(p["outputpath"]), "find": sp(p.get("find_path")),
               "replace": sp(p.get("replace_path")), "fraction": core.q(p["replace_fraction"]), "atol": core.q(p["atol"]),
               "ap1": p.get("axisp1_idx"), "ap2": p.get("axisp2_idx"), "op": p.get("opoint_idx"),
               "dump": sp(p.get("dumppath")), "extract_uc": sp(p.get("extract_uc_path")),
               "chargefile": None if q is None else str(q.name),
               "replicate": None if p.get("replicate") is None else [int(v) for v in p["replicate"]],
               "mic": None if p.get("mic") is None else core.q(p["mic"]),
               "framework_element": p.get("framework_element"), "pp": bool(p.get("pp")),
               "input_native": suffix(str(p["inputpath"])) in NATIVE_IN,
               "output_native": suffix(str(p["outputpath"])) in NATIVE_OUT}
    finally:
        ctx.close()
    return {"ok": out}


def same_parse(impl, model):
    if ("ok" in impl) != ("ok" in model):
        return "outcome %s vs %s" % (impl.get("err", "ok"), model.get("err", "ok"))
    if "err" in impl:
        return None if impl["err"] == model["err"] else "error class %s vs %s" % (impl["err"], model["err"])
    a, b = impl["ok"], model["ok"]
    for k in a:
        if k in ("fraction", "atol", "mic"):
            if (a[k] is None) != (b[k] is None):
                return "%s: %s vs %s" % (k, a[k], b[k])
            if a[k] is not None and not core.close(a[k], b[k], 1e-14):
                return "%s: %s vs %s" % (k, a[k], b[k])
        elif a[k] != b.get(k):
            return "%s: %r vs %r" % (k, a[k], b.get(k))
    return None


LONG = {"find": ["-f", "--find"], "replace": ["-r", "--replace"], "fraction": ["-p", "--replace-fraction"], "atol": ["--atol"],
        "ap1": ["-ap1", "--axisp1-idx"], "ap2": ["-ap2", "--axisp2-idx"], "op": ["-op", "--opoint-idx"],
        "dump": ["--dumppath"], "extract_uc": ["--extract-uc"], "chargefile": ["-q", "--chargefile"],
        "mic": ["--mic"], "framework_element": ["--framework-element"]}


def num_text(rng, qv, integer=False):
    v = Fraction(qv)
    if integer:
        t = rng.choice([str(int(v)), "%+d" % int(v) if v >= 0 else str(int(v)), "0%d" % int(v) if v >= 0 else str(int(v))])
        if rng.random() < 0.15:
            t = rng.choice([" " + t, t + " ", "\t" + t + "\n"])
        if rng.random() < 0.1 and abs(int(v)) >= 10:
            t = t[:-1] + "_" + t[-1]
        return t
    x = float(v)
    forms = [repr(x), "%.6f" % x, "%e" % x, "%g" % x]
    if x == int(x):
        forms += [str(int(x)), "%d." % int(x)]
    if 0 < abs(x) < 1:
        forms.append(repr(x).replace("0.", ".", 1))
    t = rng.choice(forms)
    if rng.random() < 0.15:
        t = rng.choice([" " + t, t + " ", " " + t + "\n"])
    if rng.random() < 0.15:
        m = re.search(r"\d\d", t)
        if m:
            t = t[:m.start() + 1] + "_" + t[m.start() + 1:]        # python accepts `_` between two digits
    return t


def spell(rng, o, T):
    """one of the many ways of typing the option record `o` (paths resolved in T): short / long names, attached values,
    `=`, options before / between / after the two paths, in random order, some option given twice (the last one wins).
    Returns the list of token groups; a group tagged "pos" is a positional path."""
    units = []
    for k, names in LONG.items():
        if o[k] is None:
            continue
        val = sub(o[k], T) if k in ("find", "replace", "dump", "extract_uc", "chargefile") else (
            num_text(rng, o[k], integer=True) if k in ("ap1", "ap2", "op") else (
                o[k] if k == "framework_element" else num_text(rng, o[k])))
        occ = [val]
        if rng.random() < 0.25 and k != "chargefile":
            other = {"find": "/nonexistent/x.cml", "replace": "/nonexistent/y.cml", "dump": "zz.dump", "extract_uc": "zz.cif",
                     "framework_element": "Xx"}.get(k, "7" if k in ("ap1", "ap2", "op") else "0.375")
            occ = [other, val]                              # an earlier occurrence that the last one overrides
        unit = []
        for v in occ:
            name = rng.choice(names)
            style = rng.random()
            if len(name) == 2 and style < 0.35 and v != "":
                unit.append(("opt", [name + v]))             # -fVALUE
            elif len(name) > 2 and style < 0.35:
                unit.append(("opt", [name + "=" + v]))       # --name=VALUE, -ap1=VALUE
            else:
                unit.append(("opt", [name, v]))
        units.append(unit)
    if o["replicate"]:
        units.append([("opt", ["--replicate"] + [str(v) for v in o["replicate"]])])
    if o["pp"]:
        units.append([("opt", ["--pp"])] * (2 if rng.random() < 0.2 else 1))
    rng.shuffle(units)
    groups = [g for u in units for g in u]
    cut = sorted(rng.randint(0, len(groups)) for _ in range(2))
    return (groups[:cut[0]] + [("pos", [sub(o["input"], T)])] + groups[cut[0]:cut[1]] + [("pos", [sub(o["output"], T)])]
            + groups[cut[1]:])


def flat(groups):
    return [t for _, g in groups for t in g]


def broken(rng, groups):
    """a command line with exactly one defect (or a special form), and the name of the defect"""
    kind = rng.choice(["unknown-long", "unknown-short", "missing-value", "missing-3", "flag-value", "bad-float", "bad-int",
                       "missing-arg", "extra-arg", "help", "double-dash", "neg-replicate", "bad-replicate"])
    g = list(groups)
    at = rng.randint(0, len(g))
    if kind == "unknown-long":
        g.insert(at, ("opt", [rng.choice(["--nope", "--fin", "--replicat", "--pp2", "--atol2=3"])]))
    elif kind == "unknown-short":
        g.insert(at, ("opt", [rng.choice(["-x", "-z3", "-a", "-o", "-ap3", "-P"])]))
    elif kind == "missing-value":
        g.append(("opt", [rng.choice(["--atol", "-f", "--mic", "-p", "-ap1", "--framework-element", "--dumppath"])]))
    elif kind == "missing-3":
        g.append(("opt", ["--replicate"] + ["2"] * rng.randint(0, 2)))
    elif kind == "flag-value":
        g.insert(at, ("opt", ["--pp=" + rng.choice(["1", "true", ""])]))
    elif kind == "bad-float":
        g.insert(at, ("opt", [rng.choice(["--atol", "--mic", "-p"]), rng.choice(["abc", "1,5", "0.1.2", "e5", "--", "1e", "", "1__0", "_1", "1_", "1_.5", "1 0"])]))
    elif kind == "bad-int":
        g.insert(at, ("opt", [rng.choice(["-ap1", "-ap2", "-op"]), rng.choice(["1.5", "x", "1e2", "", "0x1", "1__0", "_1", "1_", "1 0"])]))
    elif kind == "missing-arg":
        pos = [i for i, x in enumerate(g) if x[0] == "pos"]
        for i in sorted(rng.sample(pos, min(len(pos), rng.randint(1, 2))), reverse=True):
            del g[i]
    elif kind == "extra-arg":
        g.insert(at, ("pos", ["surplus.cif"]))
    elif kind == "help":
        g.insert(at, ("opt", ["--help"]))
    elif kind == "double-dash":
        opts = [x for x in g if x[0] == "opt"]
        g = opts + [("opt", ["--"]), ("pos", ["-in.cif"]), ("pos", ["--out.lmpdat"])]
    elif kind == "neg-replicate":
        g.append(("opt", ["--replicate", "2", "-1", "1"]))
    elif kind == "bad-replicate":
        g.insert(at, ("opt", ["--replicate", "2", "1.5", "1"]))
    return flat(g), kind


# ====================================================================== one case

def cell_info(o, T):
    """cell of the structure as the CLI will see it before --replicate (input file, or the --extract-uc file)"""
    import ase.io
    from mofun import Atoms
    with core.quiet():
        if o["extract_uc"]:
            cell = Atoms.load(sub(o["extract_uc"], T)).cell
        elif suffix(sub(o["input"], T)) in NATIVE_IN:
            cell = Atoms.load(sub(o["input"], T)).cell
        else:
            cell = Atoms.from_ase_atoms(ase.io.read(sub(o["input"], T))).cell
    if cell is None:
        return None, False
    cell = [[float(v) for v in row] for row in cell]
    return [core.q(cell[i][i]) for i in range(3)], cell_is_diag(cell)


def model_opts(o):
    m = dict(o)
    if m["atol"] is None:
        m["atol"] = core.q(DEFAULT_ATOL)
    if m["fraction"] is None:
        m["fraction"] = core.q(DEFAULT_FRACTION)
    return m


def run_case(world, o, seed):
    """materialise, run CLI (recorded) and API pipeline, evaluate both oracles.
    Returns dict(inp, impl (for the tie) or None, lean_op, failures=[(what, observed, required, tags)], info)"""
    inp = {"op": "cli_case", "world": world, "opts": o, "seed": seed}
    T = tempfile.mkdtemp(prefix="c20_")
    failures = []
    info = {}
    try:
        materialise(world, T)
        diag, ortho = cell_info(o, T)
        chargevals = None
        if o["chargefile"]:
            with open(sub(o["chargefile"], T)) as f:
                chargevals = [float(l) for l in f if l.strip()]
        with core.quiet():
            res, events, inner = run_cli(o, T, seed)
        exc = res.exception
        calls, flow_ok = normalise(events, o, T, ortho, chargevals)
        fw = o["framework_element"] is not None
        lean_op = {"op": "cli_plan", "opts": model_opts(o), "cell_diag": diag, "ortho": ortho}
        # ambiguity of the minimum-image factors (2*mic/a within 1e-7 of an integer it does not attain)
        ambiguous = False
        if o["mic"] is not None and diag is not None and ortho:
            sc = o["replicate"] or [1, 1, 1]
            cell = [[float(Fraction(diag[i])) * sc[i] if i == j else 0.0 for j in range(3)] for i in range(3)]
            if all(cell[i][i] > 0 for i in range(3)):
                _, margin = spec_mic_dims(fl(o["mic"]), cell)
                ambiguous = margin <= 1e-7
        info.update(ambiguous=ambiguous, flow_ok=flow_ok, fw=fw, exc=None if exc is None else repr(exc))

        # ---- end-to-end + trace oracles
        out_cli = sub(o["output"], T)
        if exc is not None and fw and isinstance(exc, AttributeError):
            failures.append(("--framework-element: the run raises %r instead of writing the output" % (exc,),
                             {"exception": repr(exc), "calls": calls}, "output file written", ["framework-element"]))
            bad = oracle_trace(o, calls, events, failed_early=True)
            if bad:
                failures.append((bad, {"calls": calls}, "every option reaches the call it names, in the documented order", []))
            impl = {"calls": calls, "prefix": True}
        else:
            api_out = os.path.join(T, "api_out" + suffix(out_cli))
            api_exc, api_matches, api_mem = None, None, None
            try:
                with core.quiet():
                    api_matches, api_mem = api_pipeline(o, T, seed, api_out)
            except BaseException as e:  # noqa
                api_exc = e
            if exc is not None or api_exc is not None:
                info["both_raise"] = exc is not None and api_exc is not None
                if exc is not None and fx.must_succeed(world, o):
                    tb = "".join(traceback.format_exception(*res.exc_info))[-1200:] if res.exc_info else ""
                    failures.append(("the run fails although the copies of the pattern in this world are disjoint and every "
                                     "file is well-formed, by construction: %r" % (exc,),
                                     {"cli_exception": repr(exc), "api_exception": repr(api_exc), "cli_traceback": tb,
                                      "argv": [unsub(x, T) for x in argv(o, T)]}, "the output file is written", []))
                if (exc is None) != (api_exc is None) or err_kind(exc) != err_kind(api_exc):
                    tb = ""
                    if exc is not None and res.exc_info:
                        tb = "".join(traceback.format_exception(*res.exc_info))[-1200:]
                    failures.append(("the command line and the API pipeline do not agree on whether the run succeeds",
                                     {"cli_exception": repr(exc), "api_exception": repr(api_exc), "cli_traceback": tb,
                                      "calls": calls}, "same outcome", []))
                if exc is None:
                    impl = {"calls": calls}
                elif err_kind(exc) == "error:nocell":
                    impl = {"err": "error:nocell"}               # a rejection the plan itself knows about
                else:
                    # a library call failed on the content (e.g. overlapping matches): the calls up to and including
                    # the failing one are compared with the beginning of the plan
                    impl = {"calls": calls, "raised": True}
            else:
                impl = {"calls": calls}
                bad = oracle_trace(o, calls, events, failed_early=False)
                if bad:
                    failures.append((bad, {"calls": calls, "argv": [unsub(a, T) for a in argv(o, T)]},
                                     "every option reaches the call it names, in the documented order", []))
                if not os.path.exists(out_cli):
                    failures.append(("no output file written", {"calls": calls}, "output file", []))
                else:
                    try:
                        a, b = parsed(out_cli), parsed(api_out)
                        d = core.same(a, b, tol=1e-6)
                    except Exception as e:  # cannot be parsed back: compare the text
                        a = b = None
                        d = None if open(out_cli).read() == open(api_out).read() else "files differ (and cannot be parsed: %r)" % (e,)
                    if d:
                        failures.append(("the file written by the command line differs from the file written by the API "
                                         "pipeline (same files, options and seed): " + d,
                                         {"calls": calls, "argv": [unsub(x, T) for x in argv(o, T)],
                                          "cli_atoms": None if a is None else len(a.get("atoms", a.get("symbols", []))),
                                          "api_atoms": None if b is None else len(b.get("atoms", b.get("symbols", [])))},
                                         "identical structures (1e-6)", []))
                    info["natoms_out"] = None if a is None else len(a.get("atoms", a.get("symbols", [])))
                    # the written file, read back by an independent reader, against the structure the API route HOLDS
                    # (two files from the same writer agree on a writer's mistakes)
                    if api_mem is not None:
                        bad = oracle_written(out_cli, api_mem)
                        if bad:
                            failures.append(("the file written by the command line does not describe the structure of the API "
                                             "route (load, replicate, replace with the same options and seed): " + bad,
                                             {"argv": [unsub(x, T) for x in argv(o, T)], "file_head": open(out_cli).read()[:1500]},
                                             "same elements, charges, lattice, positions and bonds by atom", []))
                        info["written_checked"] = suffix(out_cli)
                    # "writes the structure unmodified" / bystanders untouched: against the INPUT DATA, own reader
                    bad = oracle_against_input(out_cli, world, o)
                    if bad:
                        failures.append(("the file written by the command line is not the input structure"
                                         + (" outside the replaced patterns" if (o["find"] and o["replace"]) else "")
                                         + ": " + bad, {"argv": [unsub(x, T) for x in argv(o, T)]},
                                         "every input atom that is not replaced keeps its element and its stored coordinates; "
                                         "the written lattice is factor i x vector i of the input's", []))
                    if world.get("kind") != "gen":
                        bad = oracle_repo_supercell(out_cli, o, T)
                        if bad:
                            failures.append(("the file written by the command line is not the supercell of the input file that "
                                             "--replicate / --mic name: " + bad, {"argv": [unsub(x, T) for x in argv(o, T)]},
                                             "lattice = factor i x vector i of the input's; without a replacement the atoms are "
                                             "the input's atoms and their images under these vectors", []))
                        info["repo_supercell_checked"] = True
                    # worlds whose result is known by construction (c20_effects): the tolerance by its effect, and
                    # the force-field terms after a re-parameterising replacement
                    if "tol" in world:
                        rep_m = None
                        if o["find"] and not o["replace"]:
                            _, rep_m = parse_matches(res.stdout if hasattr(res, "stdout") else res.output)
                        bad = fx.oracle_tolerance(world, o, out_cli, rep_m)
                        if bad:
                            failures.append(("the tolerance given on the command line is not the one the search applies: " + bad,
                                             {"argv": [unsub(x, T) for x in argv(o, T)]},
                                             "copies deformed by at most 0.8 x atol are matched / replaced, copies deformed by "
                                             "2.5 x atol or more are not, in every orientation", []))
                        info["tolerance_checked"] = True
                    if "ff" in world:
                        bad = fx.oracle_terms(world, o, out_cli)
                        if bad:
                            failures.append(("the file written by the command line does not describe the structure that load, "
                                             "replace, save gives for these files: " + bad,
                                             {"argv": [unsub(x, T) for x in argv(o, T)]},
                                             "the input's force-field terms, those re-defined by the replacement pattern (same "
                                             "atoms, same roles) overridden, the replacement's terms added", []))
                        info["terms_checked"] = True
                    # --pp, independent expectation on the WRITTEN file (LAMMPS data files carry labels and Pair Coeffs)
                    pev = [e for e in events if e["k"] == "assign_pair" and "elements" in e]
                    if o["pp"] and pev and a is not None and suffix(out_cli) == ".lmpdat" and "types" in a:
                        k = len(pev[0]["elements"])
                        bad = None
                        if a["types"]["elem"][:k] != pev[0]["elements"]:
                            bad = "output file: the first %d atom types %s are not the types of the structure %s" % (
                                k, a["types"]["elem"][:k], pev[0]["elements"])
                        else:
                            bad = oracle_pp(pev[0]["elements"], a["types"]["label"][:k], a["types"]["pair"][:k], "output file")
                        if bad:
                            failures.append((bad, {"argv": [unsub(x, T) for x in argv(o, T)], "labels": a["types"]["label"],
                                                   "pair": a["types"]["pair"]},
                                             "UFF4MOF pair coefficients (D1, x1*2^(-1/6)) and type key of each type's own element", []))
                        info["pp_types"] = k
                # --pp, independent expectation on the structure right after the assignment (every output format)
                for e in events:
                    if e["k"] == "assign_pair" and "elements" in e:
                        bad = oracle_pp(e["elements"], e["labels"], e["pair_coeffs"], "after assign_pair_params_to_structure")
                        if bad is None and e["elements"] != e["elements_before"]:
                            bad = "the pair-parameter assignment changed the element list of the atom types"
                        if bad:
                            failures.append((bad, {"argv": [unsub(x, T) for x in argv(o, T)], "labels": e["labels"],
                                                   "pair": e["pair_coeffs"]},
                                             "UFF4MOF pair coefficients (D1, x1*2^(-1/6)) and type key of each type's own element", []))
                if o["find"] and not o["replace"]:
                    cnt, got = parse_matches(res.stdout if hasattr(res, "stdout") else res.output)
                    want = sorted(tuple(sorted(int(v) for v in t)) for t in (api_matches or []))
                    if got is None or cnt != len(got):
                        failures.append(("find-only run does not print its matches", {"stdout": (res.output or "")[-600:]},
                                         "count and list of matches", []))
                    elif sorted(tuple(sorted(t)) for t in got) != want:
                        failures.append(("find-only run reports other matches than the API",
                                         {"cli": sorted(tuple(sorted(t)) for t in got), "api": want}, "same set of matches", []))
                    info["matches"] = None if got is None else len(got)
        # ---- execution tie: the plan executed over the models (runPlan / apiPipeline) vs what the real run held when
        #      it saved, with the environment observed on the real run
        exec_tie = None
        try:
            eop, expected = exec_op(o, T, events, inner, chargevals)
            if eop is None:
                info["exec_skipped"] = expected
            else:
                if exc is not None:
                    expected = {"err": exec_err_kind(exc)}
                if expected is not None:
                    exec_tie = (eop, expected)
                else:
                    info["exec_skipped"] = "nothing saved"
        except Exception as e:  # noqa
            info["exec_skipped"] = "harness: %r" % (e,)
        # ---- argument-vector tie: what click makes of the very command line that was run, and of one other spelling
        parse_ties = []
        try:
            rng = random.Random(seed)
            for av in (argv(o, T), flat(spell(rng, o, T))):
                got = click_parse(av)
                parse_ties.append(({"op": "cli_parse", "argv": [unsub(a, T) for a in av]},
                                   json.loads(unsub(json.dumps(got), T))))
        except Exception as e:  # noqa
            info["parse_skipped"] = "harness: %r" % (e,)
        return {"inp": inp, "impl": impl, "lean_op": lean_op, "failures": failures, "info": info, "calls": calls,
                "exec": exec_tie, "parse": parse_ties}
    finally:
        shutil.rmtree(T, ignore_errors=True)


# ====================================================================== streams of cases

DOCS = "$REPO/docs/examples/"


def docs_cases(rng, thorough):
    w = {"kind": "docs"}
    base = blank_opts()
    rows = []
    o = dict(base, input=DOCS + "uio66.cif", output="$T/uio66-oh.cif", find=DOCS + "uio66-linker.cml",
             replace=DOCS + "uio66-linker-oh.cml")
    rows.append(o)
    rows.append(dict(base, input=DOCS + "uio66.cif", output="$T/found.lmpdat", find=DOCS + "uio66-linker.cml", ap1=0))
    rows.append(dict(base, input=DOCS + "uio66.cif", output="$T/uio66-defective-50.cif", find=DOCS + "uio66-linker.cml",
                     replace=DOCS + "uio66-linker-defective.cml", fraction=core.q(0.5), replicate=[2, 1, 1]))
    rows.append(dict(base, input=DOCS + "uio66.cif", output="$T/uio66-param1.lmpdat", find=DOCS + "uio66-metal-center.cml",
                     replace=DOCS + "uio66-metal-center-parameterized.lmpdat", pp=True))
    if thorough:
        rows.append(dict(base, input=DOCS + "uio66.cif", output="$T/uio66-mic.lmpdat", find=DOCS + "uio66-metal-center.cml",
                         pp=True, mic=core.q(12.5)))
        rows.append(dict(base, input=DOCS + "uio66.cif", output="$T/uio66-zrhf1.cif", replicate=[2, 2, 2],
                         find=DOCS + "uio66-metal-center-simple.cml", replace=DOCS + "uio66-metal-center-hf1.cml",
                         fraction=core.q(0.4)))
        rows.append(dict(base, input=DOCS + "uio66.cif", output="$T/uio66-defective-10.cif", find=DOCS + "uio66-linker.cml",
                         replace=DOCS + "uio66-linker-defective.cml", fraction=core.q(0.1), replicate=[2, 2, 2]))
    return [(w, o, rng.randint(0, 10 ** 6), "docs") for o in rows]


def generated_cases(ctx, nworlds):
    rng = ctx.rng
    out = []
    for _ in range(nworlds):
        rows = pairwise_rows(rng, FACTORS)
        # one world per (in_fmt, pat_fmt, out_fmt) actually used, sharing geometry would hide nothing: draw afresh
        worlds = {}
        for row in rows:
            key = (row["in_fmt"], row["pat_fmt"], row["out_fmt"])
            if key not in worlds:
                worlds[key] = gen_world(rng, "ortho", *key)
                worlds[key]["with_bonds"] = key[0] in ("lmpdat", "cif") and rng.random() < 0.5
                if key[0] == "lmpdat" and rng.random() < 0.5:
                    move_outside(rng, worlds[key])          # an unwrapped LAMMPS frame: atoms stored outside the cell
            w = worlds[key]
            out.append((w, opts_of_row(row, w), rng.randint(0, 10 ** 6), "pairwise"))
    return out


def extra_cases(ctx):
    """small streams: triclinic (mic skipped), ASE in/out + dump, no-cell rejections, non-periodic conversion"""
    rng = ctx.rng
    out = []
    # triclinic: --mic only warns; find/replace still work
    for fmt in ("lmpdat", "cif"):
        w = gen_world(rng, "tri", fmt, "cml", "lmpdat")
        for mode in ("find", "replace"):
            row = {"atol": None, "p": None, "hints": rng.choice(["none", "012"]), "replicate": rng.choice([None, [2, 1, 1]]),
                   "mic": "small", "q": rng.random() < 0.5, "pp": rng.random() < 0.5, "mode": mode}
            out.append((w, opts_of_row(row, w), rng.randint(0, 10 ** 6), "triclinic"))
    # monoclinic / general triclinic cells, bonds in the input, CIF and LAMMPS output: what the writers must get right
    # (three different cell angles; after a replacement one element sits in two atom types; bond loops by label)
    for kind, fmt, outf in (("mono", "cif", "cif"), ("tri", "lmpdat", "cif"), ("mono", "lmpdat", "lmpdat"), ("tri", "cif", "cif")):
        w = gen_world(rng, kind, fmt, rng.choice(["cml", "lmpdat"]), outf)
        w["with_bonds"] = True
        for mode in ("replace", "none", "find"):
            row = {"atol": None, "p": rng.choice([None, "0.5"]), "hints": "none", "replicate": rng.choice([None, [2, 1, 1], [1, 1, 2]]),
                   "mic": None, "q": rng.random() < 0.5, "pp": False, "mode": mode}
            out.append((w, opts_of_row(row, w), rng.randint(0, 10 ** 6), "lattice+bonds"))
    # LAMMPS inputs with atoms stored up to two cells OUTSIDE the unit cell (load_lmpdat does not wrap): a find-only run
    # writes them where they are stored, a replacement leaves the bystanders where they are stored
    for kind, outf in (("ortho", "lmpdat"), ("ortho", "cif"), ("tri", "lmpdat")):
        w = move_outside(rng, gen_world(rng, kind, "lmpdat", rng.choice(["cml", "lmpdat"]), outf))
        for mode in ("find", "replace", "none"):
            row = {"atol": None, "p": None, "hints": rng.choice(["none", "012"]), "replicate": rng.choice([None, [2, 1, 1]]),
                   "mic": None, "q": rng.random() < 0.3, "pp": False, "mode": mode}
            out.append((w, opts_of_row(row, w), rng.randint(0, 10 ** 6), "outside-cell"))
    # a LAMMPS input that types one element in two ways, bonds present, written as CIF (and as LAMMPS data)
    for kind, outf in (("ortho", "cif"), ("tri", "cif"), ("ortho", "lmpdat")):
        w = gen_world(rng, kind, "lmpdat", "cml", outf)
        w["with_bonds"] = True
        w["split_types"] = True
        for mode in ("none", "replace"):
            row = {"atol": None, "p": None, "hints": "none", "replicate": rng.choice([None, [2, 1, 1]]), "mic": None,
                   "q": False, "pp": False, "mode": mode}
            out.append((w, opts_of_row(row, w), rng.randint(0, 10 ** 6), "typed-input"))
    # ASE on the way in (xyz + --extract-uc) and out (xyz), dump file override
    w = gen_world(rng, "ortho", "xyz", "cml", "lmpdat")
    w["dump"] = core.q(Fraction(1, 4))
    for k in range(3):
        row = {"atol": None, "p": None, "hints": "none", "replicate": [None, [2, 1, 1], None][k], "mic": None,
               "q": k == 1, "pp": False, "mode": ["find", "replace", "none"][k]}
        o = opts_of_row(row, w)
        if k != 1:
            o["dump"] = "$T/d.dump"
        if k != 0:
            o["output"] = "$T/out.xyz"
        out.append((w, o, rng.randint(0, 10 ** 6), "ase"))
    w2 = gen_world(rng, "ortho", "lmpdat", "lmpdat", "lmpdat")
    w2["dump"] = core.q(Fraction(-1, 8))
    o = opts_of_row({"atol": "0.1", "p": "0.5", "hints": "201", "replicate": None, "mic": "big", "q": True, "pp": True,
                     "mode": "replace"}, w2)
    o["dump"] = "$T/d.dump"
    o["output"] = "$T/out.mol"
    out.append((w2, o, rng.randint(0, 10 ** 6), "ase"))
    # no cell: cml input without --extract-uc
    w3 = gen_world(rng, "ortho", "cml", "cml", "lmpdat")
    for k, row in enumerate([
            {"mode": "none", "replicate": None, "mic": None},              # plain conversion: fine
            {"mode": "none", "replicate": [2, 1, 1], "mic": None},        # rejected
            {"mode": "none", "replicate": None, "mic": "small"},          # rejected
            {"mode": "find", "replicate": None, "mic": None}]):            # rejected
        row = dict({"atol": None, "p": None, "hints": "none", "q": k == 0, "pp": False}, **row)
        o = opts_of_row(row, w3)
        o["extract_uc"] = None
        out.append((w3, o, rng.randint(0, 10 ** 6), "nocell"))
        if k == 0:
            # the same conversion of a structure without a cell, written as CIF (Cartesian coordinates) and as .mol
            for ext in ("cif", "mol"):
                o2 = dict(o, output="$T/out." + ext)
                out.append((w3, o2, rng.randint(0, 10 ** 6), "nocell"))
    # RASPA .mol output (orthorhombic cells only), read back by the check's own reader; a fraction the sampler refuses
    w4 = gen_world(rng, "ortho", rng.choice(["lmpdat", "cif"]), "cml", "lmpdat")
    for k, mode in enumerate(("replace", "none", "replace")):
        row = {"atol": None, "p": [None, None, "-0.5"][k], "hints": "none", "replicate": rng.choice([None, [2, 1, 1]]), "mic": [None, "tiny", None][k],
               "q": k == 0, "pp": False, "mode": mode}
        o = opts_of_row(row, w4)
        o["output"] = "$T/out.mol"
        out.append((w4, o, rng.randint(0, 10 ** 6), "mol-output"))
    return out


def effect_cases(ctx, ntol, nff):
    """worlds whose result is known by construction (see c20_effects): the tolerance judged by its effect on copies
    deformed by a known amount in all orientations; re-parameterising replacements on rings that carry force-field terms"""
    rng = ctx.rng
    out = []
    for _ in range(ntol):
        small = rng.choice([None, "0.02"])
        big = rng.choice(["0.1", "0.2"])
        in_fmt = rng.choice(["lmpdat", "cif", "cml"])
        kind = "tri" if (in_fmt != "cml" and rng.random() < 0.25) else "ortho"
        w = fx.gen_tol_world(rng, kind, in_fmt, rng.choice(["cml", "lmpdat"]), rng.choice(["lmpdat", "cif"]),
                             [DEFAULT_ATOL if small is None else float(small), float(big)])
        n = len(w["pattern"])
        fixed, moved = w["tol"]["ends"]
        for mode, atol in (("find", small), ("replace", big), (rng.choice(["find", "replace"]), rng.choice([small, big]))):
            row = {"atol": atol, "p": rng.choice([None, "1"]), "hints": "none", "replicate": rng.choice([None, None, [2, 1, 1], [1, 1, 2]]),
                   "mic": None, "q": rng.random() < 0.3, "pp": rng.random() < 0.3, "mode": mode}
            o = opts_of_row(row, w)
            # axis hints: the two ends of the pattern's longest distance (any other axis makes the placement of a deformed
            # copy a matter of the alignment procedure, not of the tolerance), any third atom as orientation point
            h = rng.random()
            if h < 0.25:
                o["ap1"] = rng.choice([fixed, moved])
            elif h < 0.5:
                o["ap1"], o["ap2"] = rng.choice([(fixed, moved), (moved, fixed)])
                if n > 2 and rng.random() < 0.5:
                    o["op"] = rng.choice([i for i in range(n) if i not in (fixed, moved)])
            out.append((w, o, rng.randint(0, 10 ** 6), "tolerance-by-effect"))
    for _ in range(nff):
        w = fx.gen_ff_world(rng, "tri" if rng.random() < 0.3 else "ortho", rng.choice(["cml", "lmpdat"]))
        for mode, p in (("replace", None), ("replace", "0.5"), (rng.choice(["find", "none", "replace_only"]), None)):
            row = {"atol": rng.choice([None, "0.1"]), "p": p, "hints": rng.choice(["none", "012", "0--"]),
                   "replicate": rng.choice([None, None, [2, 1, 1]]), "mic": None, "q": rng.random() < 0.3, "pp": False, "mode": mode}
            o = opts_of_row(row, w)
            if o["replace"]:
                o["replace"] = "$T/r.lmpdat"
            out.append((w, o, rng.randint(0, 10 ** 6), "re-parameterisation"))
    return out


def draw_factors(rng, max_product=6):
    """replication factors (nx, ny, nz) from 1..3, at least two of them different in four draws out of five"""
    while True:
        f = [rng.randint(1, 3) for _ in range(3)]
        if f[0] * f[1] * f[2] > max_product or f == [1, 1, 1]:
            continue
        if len(set(f)) == 1 and rng.random() < 0.8:
            continue
        return f


TESTS = "$REPO/tests/uio66/"


def supercell_cases(ctx, nworlds):
    """--replicate nx ny nz with factors that differ from each other, on cells that are not orthorhombic (monoclinic, general
    triclinic; also orthorhombic), every input format that carries a cell x both output formats, conversion / find-only /
    replacement; and the repository's own triclinic UiO-66 files (LAMMPS data and CIF) and the documented cubic one"""
    rng = ctx.rng
    out = []
    combos = [(i, f) for i in ("lmpdat", "cif", "cml") for f in ("lmpdat", "cif")]
    rng.shuffle(combos)
    for k in range(nworlds):
        in_fmt, out_fmt = combos[k % len(combos)]
        kind = rng.choice(["tri", "tri", "mono", "ortho"])
        w = gen_world(rng, kind, in_fmt, rng.choice(["cml", "lmpdat"]), out_fmt)
        w["with_bonds"] = in_fmt in ("lmpdat", "cif") and rng.random() < 0.3
        if in_fmt == "lmpdat" and rng.random() < 0.3:
            move_outside(rng, w)
        for mode in ("none", rng.choice(["find", "replace"])):
            row = {"atol": None, "p": rng.choice([None, "0.5"]), "hints": rng.choice(["none", "none", "012"]),
                   "replicate": draw_factors(rng), "mic": None, "q": rng.random() < 0.3, "pp": rng.random() < 0.2, "mode": mode}
            out.append((w, opts_of_row(row, w), rng.randint(0, 10 ** 6), "supercell"))
    # repository files
    wd = {"kind": "docs"}
    base = blank_opts()
    for src in (TESTS + "uio66-triclinic.lmpdat", TESTS + "uio66-triclinic.cif", DOCS + "uio66.cif"):
        o = dict(base, input=src, output="$T/super." + rng.choice(["lmpdat", "cif"]), replicate=draw_factors(rng, 4))
        out.append((wd, o, rng.randint(0, 10 ** 6), "supercell-repo"))
    return out


def fw_cases(ctx):
    rng = ctx.rng
    w = gen_world(rng, "ortho", "lmpdat", "cml", "lmpdat")
    out = []
    for mode, outp in (("none", None), ("replace", None), ("find", "$T/out.xyz")):
        row = {"atol": None, "p": None, "hints": "none", "replicate": rng.choice([None, [2, 1, 1]]), "mic": None,
               "q": False, "pp": mode == "replace", "mode": mode}
        o = opts_of_row(row, w)
        o["framework_element"] = "C"
        if outp:
            o["output"] = outp
        out.append((w, o, rng.randint(0, 10 ** 6), "framework-element"))
    return out


def all_cases(ctx, scale=1):
    thorough = ctx.tier == "thorough"
    cs = generated_cases(ctx, ctx.n(2, 20) * scale)
    cs += extra_cases(ctx)
    cs += fw_cases(ctx)
    cs += docs_cases(ctx.rng, thorough)
    cs += effect_cases(ctx, ctx.n(4, 24) * scale, ctx.n(3, 18) * scale)
    cs += supercell_cases(ctx, ctx.n(6, 30) * scale)
    if thorough:
        # "all random seeds": the random rows again under further seeds (fraction < 1 and symmetric patterns draw)
        more = [(w, o, ctx.rng.randint(0, 10 ** 6), "reseed") for (w, o, s, st) in cs
                if st == "pairwise" and o["find"] and o["replace"]][:150]
        cs += more
    return cs


# ====================================================================== framework entry points

def _nontrivial(o):
    return bool(o["find"] or o["replace"] or o["replicate"] or o["mic"] is not None or o["chargefile"] or o["pp"]
                or o["dump"] or o["extract_uc"])


def _compare_exec(ctx, inp, eop, expected, model):
    """model = {"run": …, "api": …}: both interpretations against the real run"""
    ctx.compared += 1
    if model.get("run") != model.get("api"):
        # the theorems say they agree, or both fail; an accepted run where they differ contradicts run_accepted_eq_api
        if "ok" in model.get("run", {}) or "ok" in model.get("api", {}):
            ctx.disagree("cli_run", inp, model.get("run"), model.get("api"), "runPlan and apiPipeline differ in the driver")
            return
    for which in ("run", "api"):
        d = compare_exec(expected, model[which])
        if d == "ambiguous":
            ctx.ambiguous += 1
            return
        if d:
            ctx.disagree("cli_" + which, {"case": inp, "env": {k: v for k, v in eop.items() if k not in ("files", "ase")}},
                         _brief(expected), _brief(model[which]), d)
            return


def _brief(r):
    if "ok" in r and r["ok"]["written"]["kind"] == "native":
        a = r["ok"]["written"]["atoms"]
        return {"ok": {"natoms": len(a["atoms"]), "types": a["types"], "cell": a["cell"], "reported": r["ok"]["reported"]}}
    return r


def parse_stream(ctx, n):
    """generated command lines (many spellings, single defects) through click and through the model"""
    rng = ctx.rng
    T = tempfile.mkdtemp(prefix="c20p_")
    out = []
    try:
        with open(os.path.join(T, "q.txt"), "w") as f:
            f.write("0.5\n")
        for k in range(n):
            o = blank_opts()
            o["input"] = rng.choice(["$T/in.cif", "in.xyz", "a/b.c/d", "-", ".cif", "x.lmpdat.", "rel/in.cml"])
            o["output"] = rng.choice(["$T/out.lmpdat", "o.mol", "o.cml", "out", "o.cif"])
            if rng.random() < .6:
                o["find"] = "$T/p.cml"
            if rng.random() < .4:
                o["replace"] = "$T/r.cml"
            if rng.random() < .5:
                o["fraction"] = core.q(rng.choice([0.5, 0.25, 1.0, 0.0, 0.1, -0.5, 3.0]))
            if rng.random() < .5:
                o["atol"] = core.q(rng.choice([0.1, 0.05, 0.2, 1e-3, 1e-10, 123456.789]))
            for key in ("ap1", "ap2", "op"):
                if rng.random() < .4:
                    o[key] = rng.choice([0, 1, 2, -1, 10, -12])
            if rng.random() < .3:
                o["dump"] = "$T/d.dump"
            if rng.random() < .3:
                o["extract_uc"] = "$T/uc.lmpdat"
            if rng.random() < .4:
                o["chargefile"] = "$T/q.txt"
            if rng.random() < .4:
                o["replicate"] = rng.choice([[2, 1, 1], [1, 2, 2], [0, 1, 1], [10, 3, 1]])
            if rng.random() < .4:
                o["mic"] = core.q(rng.choice([12.5, 6.0, 3.75, -2.0]))
            if rng.random() < .2:
                o["framework_element"] = rng.choice(["C", "Zr", "-x", "", "--pp", "a=b"])
            o["pp"] = rng.random() < .4
            g = spell(rng, o, T)
            av, kind = flat(g), "well-formed"
            if k % 2:
                av, kind = broken(rng, g)
            got = click_parse(av)
            ctx.count("argv:" + kind)
            ctx.count("argv-outcome:" + got.get("err", "ok"))
            out.append(({"op": "cli_parse", "argv": [unsub(a, T) for a in av]}, json.loads(unsub(json.dumps(got), T))))
    finally:
        shutil.rmtree(T, ignore_errors=True)
    return out


def _evaluate(ctx, cases, with_model, nparse=0):
    batch = []          # (lean op, kind, input record, implementation result)
    for world, o, seed, stream in cases:
        r = run_case(world, o, seed)
        inp = r["inp"]
        ctx.case(inp, nontrivial=_nontrivial(o))
        ctx.count("stream:" + stream)
        ctx.count("in:" + suffix(o["input"]))
        ctx.count("out:" + suffix(o["output"]))
        mode = "replace" if (o["find"] and o["replace"]) else "find" if o["find"] else "replace-only" if o["replace"] else "none"
        ctx.count("mode:" + mode)
        for k in ("atol", "fraction", "replicate", "mic", "chargefile", "dump", "extract_uc", "framework_element"):
            if o[k] is not None:
                ctx.count("opt:" + k)
        if o["pp"]:
            ctx.count("opt:pp")
        if any(o[k] is not None for k in ("ap1", "ap2", "op")):
            ctx.count("opt:hints")
        if r["info"].get("both_raise"):
            ctx.count("outcome:rejected-by-both")
        elif r["info"].get("exc"):
            ctx.count("outcome:cli-raised")
        else:
            ctx.count("outcome:ok")
        for c in r["calls"]:
            ctx.count("call:" + c["f"])
        for what, observed, required, tags in r["failures"]:
            ctx.fail(what, inp, observed=observed, required=required, tags=tags)
        for pop, pimpl in r["parse"]:
            batch.append((pop, "parse", pop, pimpl))
        if r["exec"] is not None:
            batch.append((r["exec"][0], "exec", inp, r["exec"][1]))
            ctx.count("exec-tie:compared")
        else:
            ctx.count("exec-tie:skipped (%s)" % r["info"].get("exec_skipped", "?"))
        if r["info"]["ambiguous"]:
            ctx.ambiguous += 1
            continue
        if not r["info"]["flow_ok"]:
            ctx.disagree("cli_dataflow", inp, {"calls": r["calls"]}, None,
                         "a recorded call did not act on the structure / patterns produced by the previous calls")
        batch.append((r["lean_op"], "plan", inp, r["impl"]))
    if not with_model:
        return
    for pop, pimpl in (parse_stream(ctx, nparse) if nparse else []):
        batch.append((pop, "parse", pop, pimpl))
    if not batch:
        return
    models = ctx.lean.run([b[0] for b in batch])
    for (op, kind, inp, impl), model in zip(batch, models):
        if kind == "plan":
            if impl.get("raised"):
                mc = model.get("calls")
                ctx.compare("cli_plan_until_failure", inp, {"calls": impl["calls"]},
                            {"calls": mc[:len(impl["calls"])]} if mc is not None else model)
            elif impl.get("prefix"):
                # known finding: the run stops at the framework-element step; compare what happened before it
                mc = model.get("calls", [])
                cut = next((i for i, c in enumerate(mc) if c["f"] == "setFrameworkElement"), len(mc))
                ctx.compare("cli_plan_prefix", inp, {"calls": impl["calls"]}, {"calls": mc[:cut]} if "calls" in model else model)
            else:
                ctx.compare("cli_plan", inp, impl, model)
        elif kind == "exec":
            _compare_exec(ctx, inp, op, impl, model)
        else:
            ctx.compared += 1
            if model.get("err") == "out-of-model":
                ctx.ambiguous += 1          # negative --replicate factor: accepted by click, not an `Options` record
                continue
            d = same_parse(impl, model)
            if d:
                ctx.disagree("cli_parse", inp, impl, model, d)


def run(ctx):
    ctx.rule = RULE
    cases = all_cases(ctx)
    _evaluate(ctx, cases, with_model=True, nparse=ctx.n(200, 3000))
    # the pairwise array is complete by construction (checked here, not assumed)
    ctx.notes.append("pairwise covering array over %d factors (%s) verified complete for every generated world" %
                     (len(FACTORS), ", ".join("%s:%d" % (k, len(v)) for k, v in sorted(FACTORS.items()))))


def search(ctx):
    """oracle only, real code only, larger budget"""
    saved = ctx.tier
    ctx.tier = "quick"
    try:
        cases = supercell_cases(ctx, 12) + effect_cases(ctx, 8, 6) + generated_cases(ctx, 3) + extra_cases(ctx) + docs_cases(ctx.rng, False)
        _evaluate(ctx, cases, with_model=False)
    finally:
        ctx.tier = saved


def replay(ctx, rec):
    inp = rec["input"]
    r = run_case(inp["world"], inp["opts"], inp["seed"])
    return not r["failures"]
