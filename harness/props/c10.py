"""C10 — deleting atoms removes exactly them and the terms that touch them (del atoms[idx], pop)."""
import itertools

from .. import accessors, core, gen, gen_shared_c10 as gsh

RULE = ("structures: random consistent Atoms (≤6 atoms quick / ≤7 thorough, mixed term kinds, coefficient tables, extra "
        "columns); deletions: EVERY non-empty ordered subset for the small structures (a share of them also in numpy's "
        "negative spelling k - n), random subsets (in random listing order, 30% with negative spellings) for larger ones; every index list reaches the code as a list, a "
        "tuple, an integer ndarray, a list of numpy integers or a range, chosen by its content; pop() and pop(i) for every i in [-n, n). Non-trivial = distinct input whose deletion "
        "removes at least one term and keeps at least one term.")


def oracle_delete(a, idx, r):
    """the property, checked directly on canonical dumps: a = before, r = after `del a[idx]`. Returns None or text."""
    n = len(a["atoms"])
    dead = set(idx)
    keep = [i for i in range(n) if i not in dead]
    if "ok" not in r:
        if r.get("err") == "error:AccessorStale":
            return ("after the deletion an accessor of the object (elements / symbols / len / num_*_types / label_atoms / "
                    "to_ase) no longer agrees with its arrays: the remaining atoms did not keep their data as seen through it")
        return "deletion of valid distinct indices raised %s" % r.get("err")
    r = r["ok"]
    if r["atoms"] != [a["atoms"][i] for i in keep]:
        return "atoms after deletion are not the remaining atoms in order with their data"
    new = {old: k for k, old in enumerate(keep)}
    for k in gen.KINDS:
        want = [{"a": [new[x] for x in t["a"]], "ty": t["ty"], "x": t["x"]}
                for t in a["terms"][k] if not (set(t["a"]) & dead)]
        if r["terms"][k] != want:
            return "%s terms after deletion differ: got %s want %s" % (k, r["terms"][k], want)
    if r["types"] != a["types"] or r["xlabels"] != a["xlabels"] or r["cell"] != a["cell"]:
        return "type tables / labels / cell changed by deletion"
    return None


def _spell(idx):
    """the index list in one of its public spellings, chosen by its content (the model always sees the plain list):
    list, tuple, integer ndarray, list of numpy integers, range (where the list is one)"""
    import numpy as np
    idx = list(idx)
    how = (7 * len(idx) + sum(abs(int(i)) for i in idx)) % 5
    if how == 1:
        return tuple(idx)
    if how == 2:
        return np.array(idx, dtype=int)
    if how == 3:
        return [np.int64(i) for i in idx]
    if how == 4 and idx and all(i >= 0 for i in idx) and idx == list(range(idx[0], idx[0] + len(idx))):
        return range(idx[0], idx[0] + len(idx))
    return idx


def _accessors_after(a):
    """the derived accessors (elements, symbols, len, num_*_types, label_atoms, to_ase) of the object that was just
    shortened must agree with its arrays; a mismatch surfaces as the error kind `AccessorStale` of the operation"""
    bad = accessors.problem(a)
    if bad:
        raise accessors.AccessorStale(bad)


def _delete(aj, idx):
    def f():
        a = core.atoms_from_json(aj)
        accessors.touch(a)           # accessors read before …
        del a[_spell(idx)]
        _accessors_after(a)          # … and after the deletion, on the same object
        return core.canon_atoms(a)
    return core.result_of(f)


def _pop(aj, i):
    def f():
        a = core.atoms_from_json(aj)
        accessors.touch(a)
        if i is None:
            a.pop()
        else:
            a.pop(i)
        _accessors_after(a)
        return core.canon_atoms(a)
    return core.result_of(f)


def cases(ctx, oracle_only=False):
    rng = ctx.rng
    out = []
    small = ctx.n(12, 40)
    nmax_exh = ctx.n(5, 6)
    for s in range(small):
        n = rng.randint(2, nmax_exh)
        aj = gen.rand_atoms(rng, n=n, term_density=rng.randint(1, 3))
        for r in range(1, n + 1):
            for idx in itertools.permutations(range(n), r):
                out.append(("delete", aj, list(idx)))
                if rng.random() < 0.15:     # numpy's other spelling of the same positions (k - n)
                    out.append(("delete", aj, respell(rng, list(idx), n)))
        for i in [None] + list(range(-n, n)):
            out.append(("pop", aj, i))
    for s in range(ctx.n(400, 4000)):
        aj = gen.rand_atoms(rng, n=rng.randint(3, ctx.n(8, 14)))
        n = len(aj["atoms"])
        idx = rng.sample(range(n), rng.randint(1, n))
        if rng.random() < 0.3:
            idx = respell(rng, idx, n)
        out.append(("delete", aj, idx))
        if s % 5 == 0:
            out.append(("pop", aj, rng.choice([None, rng.randint(-n, n - 1)])))
    return out


def run(ctx, oracle_only=False):
    ctx.rule = RULE + WIDE_RULE + LARGE_RULE + SHARED_RULE + IMAGE_RULE
    cs = cases(ctx)
    ops, impls = [], []
    for kind, aj, arg in cs:
        if kind == "delete":
            n = len(aj["atoms"])
            if any(i < 0 for i in arg):
                inp = {"op": "delete_norm", "a": aj, "idx": arg}
            else:
                inp = {"op": "delete", "a": aj, "idx": arg}
            r = _delete(aj, arg)
            dead = {i % n for i in arg}
            bad = oracle_delete(aj, sorted(dead), r)
        else:
            n = len(aj["atoms"])
            inp = {"op": "pop", "a": aj, "i": -1 if arg is None else arg, "default": arg is None}
            r = _pop(aj, arg)
            target = (n - 1) if arg is None else arg % n
            bad = oracle_delete(aj, [target], r)
            dead = {target}
        touched = [bool(set(t["a"]) & dead) for k in gen.KINDS for t in aj["terms"][k]]
        ctx.case(inp, nontrivial=(any(touched) and not all(touched)))
        ctx.count(kind)
        ctx.count("size:" + gen.describe(aj).split("/")[0])
        if bad:
            ctx.fail(bad, inp, observed=r)
        ops.append(inp)
        impls.append(r)
    if oracle_only:
        run_wide(ctx, oracle_only=True)
        run_large(ctx, oracle_only=True)
        run_shared(ctx, oracle_only=True)
        run_image(ctx, oracle_only=True)
        return
    models = ctx.lean.run(ops)
    for inp, r, m in zip(ops, impls, models):
        ctx.compare(inp["op"], inp, r, m)
    run_wide(ctx)
    run_large(ctx)
    run_shared(ctx)
    run_image(ctx)


# =============================================================================================== widened index domain

WIDE_RULE = (" Widened domain (stream 'wide', model Atoms.deleteNorm of Model/TopoWide.lean): index lists with negative, "
             "repeated, unsorted integers in [-n, n) — the property's oracle applies to the normalised SET of positions —, "
             "out-of-range integers (IndexError, object unchanged), pop(pos) far outside [-n, n) and on an empty structure. "
             "Boolean masks, scalars and slices are outside the domain: outcome observed and counted only.")


def _norm_err(r):
    return {"err": "error"} if "err" in r else r


def _delete_any(aj, arg):
    """`del a[arg]` for any python object `arg`; -> (result, dump of the object AFTER the call even when it raised)"""
    box = {}

    def f():
        a = core.atoms_from_json(aj)
        box["a"] = a
        accessors.touch(a)
        del a[arg]
        _accessors_after(a)
        return core.canon_atoms(a)
    r = core.result_of(f)
    after = None
    try:
        after = core.canon_atoms(box["a"])
    except Exception:  # noqa
        pass
    return r, after


def respell(rng, idx, n, p=0.5):
    """the same positions in numpy's other spelling: k or k - n"""
    return [i - n if rng.random() < p else i for i in idx]


def wide_cases(ctx):
    """(category, op for the model or None, python argument)"""
    rng = ctx.rng
    out = []
    for s in range(ctx.n(150, 2000)):
        aj = gen.rand_atoms(rng, n=rng.randint(1, ctx.n(7, 10)), term_density=rng.randint(1, 3))
        n = len(aj["atoms"])
        c = rng.choice(["neg", "neg", "neg", "dup", "dup", "alias", "mixed", "mixed", "oob", "oob", "empty", "mask",
                        "scalar", "slice", "pop", "pop"])
        if c == "neg":      # distinct positions, at least one written as a negative integer, any order
            pos = rng.sample(range(n), rng.randint(1, n))
            idx = [p - n if (rng.random() < 0.6 or j == 0) else p for j, p in enumerate(pos)]
            rng.shuffle(idx)
        elif c == "dup":    # some position repeated
            pos = [rng.randrange(n) for _ in range(rng.randint(1, 3))]
            idx = respell(rng, pos + [rng.choice(pos)], n, 0.3)
            rng.shuffle(idx)
        elif c == "alias":  # the same atom once as k and once as k - n
            k = rng.randrange(n)
            idx = [k, k - n] + ([rng.randrange(n)] if rng.random() < 0.4 else [])
            rng.shuffle(idx)
        elif c == "mixed":
            idx = [rng.randint(-n, n - 1) for _ in range(rng.randint(1, 5))]
        elif c == "oob":
            idx = [rng.randint(-n, n - 1) for _ in range(rng.randint(0, 2))] + [rng.choice([n, n + 1, -n - 1, -n - 3])]
            rng.shuffle(idx)
        elif c == "empty":
            idx = []
        if c in ("neg", "dup", "alias", "mixed", "oob", "empty"):
            out.append((c, {"op": "delete_norm", "a": aj, "idx": idx}, idx))
        elif c == "mask":
            out.append((c, None, (aj, [rng.random() < 0.4 for _ in range(n)])))
        elif c == "scalar":
            out.append((c, None, (aj, rng.randint(-n, n - 1))))
        elif c == "slice":
            out.append((c, None, (aj, slice(0, rng.randint(1, n)))))
        else:
            pos = rng.choice([rng.randint(-4 * n, 4 * n), n, -n - 1, 2 * n, 10 ** 6 + 1, -(10 ** 6)])
            out.append((c, {"op": "pop", "a": aj, "i": pos}, pos))
    out.append(("pop-empty", {"op": "pop", "a": {"cell": None, "atoms": [], "terms": {}, "types": {}, "xlabels": {}}, "i": -1}, -1))
    return out


def run_wide(ctx, oracle_only=False):
    ops, impls = [], []
    for cat, op, arg in wide_cases(ctx):
        ctx.count("wide:" + cat)
        if op is None:
            # outside the domain: what happens is recorded, nothing is demanded
            aj, x = arg
            r, after = _delete_any(aj, x)
            n = len(aj["atoms"])
            if "err" in r:
                left = "unknown" if after is None else ("unchanged" if after == aj else "inconsistent-or-changed")
                ctx.count("wide:%s:raises/%s" % (cat, left))
            else:
                ctx.count("wide:%s:returns" % cat)
            ctx.evaluations += 1
            continue
        aj = op["a"]
        n = len(aj["atoms"])
        if op["op"] == "pop":
            if n == 0:
                def f():
                    from mofun import Atoms
                    a = Atoms()
                    a.pop(arg)
                    return core.canon_atoms(a)
                r = core.result_of(f)
                if "err" not in r:
                    ctx.fail("pop on an empty structure did not raise", op, observed=r)
            else:
                r = _pop(aj, arg)
                bad = oracle_delete(aj, [arg % n], r)
                if bad:
                    ctx.fail("pop(%d) on %d atoms: %s" % (arg, n, bad), dict(op, default=False), observed=r)
            ctx.case(op, nontrivial=n > 1)
        else:
            r, after = _delete_any(aj, arg)
            dead = {i % n for i in arg} if cat != "oob" else set()
            touched = [bool(set(t["a"]) & dead) for k in gen.KINDS for t in aj["terms"][k]]
            ctx.case(op, nontrivial=(any(touched) and not all(touched)))
            if cat == "oob":
                if "ok" in r:
                    ctx.fail("deletion with an index outside [-n, n) did not raise", op, observed=r)
                elif after is not None and after != aj:
                    ctx.fail("a rejected deletion (index outside [-n, n)) changed the object", op, observed=after)
            else:
                # valid integers: the property applies to the normalised set of positions
                bad = oracle_delete(aj, sorted(dead), r)
                if bad:
                    ctx.fail("del a[%s] on %d atoms: %s" % (arg, n, bad), op, observed=r)
        ops.append(op)
        impls.append(_norm_err(r))
    if oracle_only:
        return
    models = ctx.lean.run(ops)
    for op, r, m in zip(ops, impls, models):
        ctx.compare(op["op"], op, r, _norm_err(m))


# =============================================================================================== large structures

LARGE_RULE = (" Large structures (stream 'large'): 200-600 atoms, a few terms clustered on atoms that share terms, 15-40 "
              "deleted indices spread over the whole index range — none of them on a term (every term must survive, "
              "re-numbered), or a few of them on the cluster; same oracle, model compared as well.")


def large_cases(ctx):
    """structures whose size and index spread differ by orders of magnitude from the term arrays (library routines
    switch algorithms on such ratios): (structure, index list)"""
    rng = ctx.rng
    out = []
    for _ in range(ctx.n(14, 120)):
        n = rng.randint(200, 600)
        aj = gen.rand_atoms(rng, n=n, kinds=[], extras=False, cell=rng.choice(["ortho", False]), ntypes=rng.randint(1, 3))
        clusters = []
        for _c in range(rng.choice([1, 1, 2])):
            c0 = rng.randint(0, n - 8)
            clusters.append(list(range(c0, c0 + rng.randint(4, 7))))
        for k in gen.KINDS:
            ar = gen.ARITY[k]
            terms = []
            for cl in clusters:
                for i in range(len(cl) - ar + 1):
                    if k == "bond" or rng.random() < 0.7:
                        tup = cl[i:i + ar]
                        if rng.random() < 0.3:
                            tup = tup[::-1]
                        terms.append({"a": tup, "ty": rng.randrange(2), "x": []})
            aj["terms"][k] = terms
            aj["types"][k] = ["%s_c%d 1.0" % (k, i) for i in range(2)] if terms and rng.random() < 0.7 else []
            aj["xlabels"][k] = []
        used = {x for cl in clusters for x in cl}
        free = [i for i in range(n) if i not in used]
        m = rng.randint(15, 40)
        idx = rng.sample(free, m - 2) + [min(free), max(free)]        # spread over the whole index range
        u = rng.random()
        if u < 0.3:          # a few of the deleted atoms carry terms
            idx += rng.sample(sorted(used), rng.randint(1, 2))
        idx = list(dict.fromkeys(idx))
        rng.shuffle(idx)
        if rng.random() < 0.3:
            idx = respell(rng, idx, n, 0.4)
        out.append((aj, idx, "touching" if u < 0.3 else "free"))
    return out


def run_large(ctx, oracle_only=False):
    ops, impls = [], []
    for aj, idx, variant in large_cases(ctx):
        n = len(aj["atoms"])
        op = {"op": "delete_norm" if any(i < 0 for i in idx) else "delete", "a": aj, "idx": idx}
        r = _delete(aj, idx)
        dead = {i % n for i in idx}
        bad = oracle_delete(aj, sorted(dead), r)
        touched = [bool(set(t["a"]) & dead) for k in gen.KINDS for t in aj["terms"][k]]
        ctx.case(op, nontrivial=(not all(touched)))
        ctx.count("large:" + variant)
        ctx.count("large:n%d00" % (n // 100))
        if bad:
            ctx.fail("del a[%d indices] on %d atoms: %s" % (len(idx), n, bad), op, observed={k: r["ok"]["terms"][k] for k in gen.KINDS} if "ok" in r else r)
        ops.append(op)
        impls.append(_norm_err(r))
    if oracle_only:
        return
    models = ctx.lean.run(ops)
    for op, r, m in zip(ops, impls, models):
        ctx.compare(op["op"], op, r, _norm_err(m))


# =============================================================================================== handed-over tables

SHARED_RULE = (" Handed-over tables (stream 'tables', harness/gen_shared_c10.py): the structure is constructed from term "
               "tables given as python lists, tuples or integer ndarrays (int64 / int32, 15% read-only), unrelated or SHARING "
               "memory — one array used for dihedrals and impropers over the same quadruples, bonds / angles as column views "
               "of the angle / dihedral array, two row ranges of one master array — with terms on a random pool of the atoms "
               "(so that some atoms touch no term); 1-3 objects (built again from the same arguments, from the first "
               "object's attributes, copy(), deepcopy(), possibly after the source was already shortened) and 1-4 deletions "
               "(del / pop) spread over them: atoms no term touches, atoms no row of a shared table touches, random subsets, "
               "any order, 25% negative spellings. For small structures EVERY non-empty subset is deleted from a fresh "
               "object. Each object is judged after each of its deletions against the structure it was built from "
               "(brute-force ideal deletion); each step is also sent through the model.")


def shared_cases(ctx):
    rng = ctx.rng
    out = []
    # every non-empty subset, each on a fresh object, for a few small structures of every family
    for fam in sorted(set(gsh.FAMILIES)):
        for _ in range(ctx.n(2, 8)):
            n = rng.randint(5, 6)
            aj, lay = gsh.rand_structure(rng, n, fam)
            base = gsh.scenario(rng, aj, lay, [])
            for r in range(1, n + 1):
                for idx in itertools.combinations(range(n), r):
                    idx = list(idx)
                    rng.shuffle(idx)
                    out.append(("subsets", dict(base, steps=[["del", 0, idx]])))
    for _ in range(ctx.n(350, 4000)):
        fam = rng.choice(gsh.FAMILIES)
        aj, lay = gsh.rand_structure(rng, rng.randint(4, ctx.n(8, 12)), fam)
        out.append((fam, gsh.scenario(rng, aj, lay, gsh.rand_program(rng, aj, lay))))
    return out


def _judge_scenario(scn):
    """-> (list of (step number, expected-before, dead, result) for the deletions that ran, None | (step number, text))"""
    trace = gsh.play(scn, spell=_spell, before=accessors.touch, after=_accessors_after)
    ran = []
    for si, st, exp, dead, r in trace:
        if "skip" in r:
            break
        ran.append((si, st, exp, dead, r))
        bad = oracle_delete(exp, dead, r)
        if bad:
            what = "del objects[%d][%s]" % (st[1], st[2]) if st[0] == "del" else "objects[%d].pop(%s)" % (st[1], "" if st[2] is None else st[2])
            return ran, (si, "step %d, %s on %d atoms: %s" % (si, what, len(exp["atoms"]), bad))
    return ran, None


def run_shared(ctx, oracle_only=False):
    ops, impls = [], []
    for fam, scn in shared_cases(ctx):
        ctx.count("tables:" + fam)
        first = gsh.first_dump(scn)
        if first.get("ok") != scn["a"]:
            # the constructor does not give the structure the scenario describes: not this property's question
            ctx.count("tables:constructor-differs")
            ctx.evaluations += 1
            continue
        for k in gen.KINDS:
            ctx.count("tables:layout:" + scn["tables"][k].split(":")[0])
        ran, bad = _judge_scenario(scn)
        nontrivial = False
        for si, st, exp, dead, r in ran:
            touched = [bool(set(t["a"]) & set(dead)) for k in gen.KINDS for t in exp["terms"][k]]
            nontrivial = nontrivial or (any(touched) and not all(touched))
            if any(touched):
                ctx.count("tables:step:touching")
            elif touched:
                ctx.count("tables:step:free")
        ctx.case(scn, nontrivial=nontrivial)
        if bad:
            si, text = bad
            ctx.fail(text, dict(scn, steps=scn["steps"][:si + 1]), observed=ran[-1][4])
            continue
        for si, st, exp, dead, r in ran:
            ops.append({"op": "delete", "a": exp, "idx": list(dead)})
            impls.append(_norm_err(r))
    if oracle_only:
        return
    models = ctx.lean.run(ops)
    for op, r, m in zip(ops, impls, models):
        ctx.compare(op["op"], op, r, _norm_err(m))


# =============================================================================================== terms through the cell boundary

IMAGE_RULE = (" Terms through the cell boundary (stream 'image'): periodic structures of 1-6 atoms (thorough: up to 8) in which "
              "some bonds / angles / dihedrals / impropers name one atom more than once (an atom bonded to its own periodic "
              "image (i, i), an angle i - j - i', a dihedral / improper that comes back to an atom already on it; every pattern "
              "of coincidences, also in structures with fewer atoms than the term has slots) among ordinary terms, with types, "
              "coefficient tables and extra columns; EVERY non-empty subset (random listing order, 25% negative spellings) and "
              "every pop for the small ones, random subsets otherwise. Same oracle (a term survives iff none of its atoms was "
              "deleted, whatever the multiplicity of an atom in it); model compared as well. Counted: image:survivor = deletions "
              "that leave a term with a repeated atom untouched.")


def image_structure(rng, n):
    """a periodic structure where, for each term kind present, some terms repeat an atom (ground truth needs nothing
    special: a term is a tuple of atom positions, distinct or not)"""
    aj = gen.rand_atoms(rng, n=n, cell=True, term_density=rng.randint(1, 3))
    tag = 0
    chosen = [k for k in gen.KINDS if rng.random() < 0.6] or [rng.choice(gen.KINDS)]
    for k in chosen:
        ar = gen.ARITY[k]
        terms = aj["terms"][k]
        xl = aj["xlabels"][k]
        # type ids: inside the coefficient table when the kind has one, else the ids in use (or new ones)
        ntk = len(aj["types"][k]) or max([t["ty"] for t in terms], default=-1) + 1 or rng.randint(1, 2)
        fresh = []
        for _ in range(rng.randint(1, 3)):
            # a tuple over a pool of fewer distinct atoms than slots: at least one atom appears twice
            pool = rng.sample(range(n), rng.randint(1, min(n, ar - 1)))
            tup = pool + [rng.choice(pool) for _ in range(ar - len(pool))]
            rng.shuffle(tup)
            tag += 1
            fresh.append({"a": tup, "ty": rng.randrange(ntk), "x": ["%si%d%s" % (k[0], tag, l[-1]) for l in xl]})
        for t in fresh:      # anywhere among the ordinary terms
            terms.insert(rng.randint(0, len(terms)), t)
    return aj


def _repeats(t):
    return len(set(t["a"])) < len(t["a"])


def image_cases(ctx):
    rng = ctx.rng
    out = []
    for _ in range(ctx.n(14, 60)):
        n = rng.randint(1, ctx.n(5, 6))
        aj = image_structure(rng, n)
        for r in range(1, n + 1):
            for idx in itertools.combinations(range(n), r):
                idx = list(idx)
                rng.shuffle(idx)
                if rng.random() < 0.25:
                    idx = respell(rng, idx, n)
                out.append(("delete", aj, idx))
        for i in [None] + list(range(-n, n)):
            out.append(("pop", aj, i))
    for s in range(ctx.n(150, 2500)):
        aj = image_structure(rng, rng.randint(2, ctx.n(6, 8)))
        n = len(aj["atoms"])
        if s % 4 == 0:
            out.append(("pop", aj, rng.choice([None, rng.randint(-n, n - 1)])))
            continue
        idx = rng.sample(range(n), rng.randint(1, max(1, n - 1)))
        if rng.random() < 0.25:
            idx = respell(rng, idx, n)
        out.append(("delete", aj, idx))
    return out


def run_image(ctx, oracle_only=False):
    ops, impls = [], []
    for kind, aj, arg in image_cases(ctx):
        n = len(aj["atoms"])
        if kind == "delete":
            op = {"op": "delete_norm" if any(i < 0 for i in arg) else "delete", "a": aj, "idx": arg}
            r = _delete(aj, arg)
            dead = {i % n for i in arg}
        else:
            op = {"op": "pop", "a": aj, "i": -1 if arg is None else arg, "default": arg is None}
            r = _pop(aj, arg)
            dead = {(n - 1) if arg is None else arg % n}
        bad = oracle_delete(aj, sorted(dead), r)
        survivor = any(_repeats(t) and not (set(t["a"]) & dead) for k in gen.KINDS for t in aj["terms"][k])
        touched = [bool(set(t["a"]) & dead) for k in gen.KINDS for t in aj["terms"][k]]
        ctx.case(op, nontrivial=(any(touched) and not all(touched)))
        ctx.count("image:" + kind)
        if survivor:
            ctx.count("image:survivor")
        if bad:
            ctx.fail("%s on %d atoms, terms through the cell boundary: %s" % (kind, n, bad), op, observed=r)
        ops.append(op)
        impls.append(_norm_err(r))
    if oracle_only:
        return
    models = ctx.lean.run(ops)
    for op, r, m in zip(ops, impls, models):
        ctx.compare(op["op"], op, r, _norm_err(m))


def search(ctx):
    """focused search on the real code only (no model): more and larger cases through the oracle"""
    saved = ctx.tier
    ctx.tier = "thorough"
    try:
        run(ctx, oracle_only=True)
    finally:
        ctx.tier = saved


def replay(ctx, rec):
    inp = rec["input"]
    if inp["op"] == "delete_scn":
        return _judge_scenario(inp)[1] is None
    if inp["op"] == "delete_norm":
        n = len(inp["a"]["atoms"])
        r, after = _delete_any(inp["a"], inp["idx"])
        if any(not -n <= i < n for i in inp["idx"]):
            return "err" in r and (after is None or after == inp["a"])
        return oracle_delete(inp["a"], sorted({i % n for i in inp["idx"]}), r) is None
    if inp["op"] == "delete":
        return oracle_delete(inp["a"], inp["idx"], _delete(inp["a"], inp["idx"])) is None
    n = len(inp["a"]["atoms"])
    arg = None if inp.get("default") else inp["i"]
    target = (n - 1) if arg is None else arg % n
    return oracle_delete(inp["a"], [target], _pop(inp["a"], arg)) is None
