"""C10 — deleting atoms removes exactly them and the terms that touch them (del atoms[idx], pop)."""
import itertools

from .. import core, gen

RULE = ("structures: random consistent Atoms (≤6 atoms quick / ≤7 thorough, mixed term kinds, coefficient tables, extra "
        "columns); deletions: EVERY non-empty ordered subset for the small structures, random subsets (in random listing "
        "order) for larger ones; pop() and pop(i) for every i in [-n, n). Non-trivial = distinct input whose deletion "
        "removes at least one term and keeps at least one term.")


def oracle_delete(a, idx, r):
    """the property, checked directly on canonical dumps: a = before, r = after `del a[idx]`. Returns None or text."""
    n = len(a["atoms"])
    dead = set(idx)
    keep = [i for i in range(n) if i not in dead]
    if "ok" not in r:
        return "deletion of valid distinct indices raised %s" % r.get("err")
    r = r["ok"]
    if r["atoms"] != [a["atoms"][i] for i in keep]:
        return "atoms after deletion are not the remaining atoms in order with their data"
    new = {old: k for k, old in enumerate(keep)}
    for k in gen.KINDS:
        want = [{"a": [new[x] for x in t["a"]], "ty": t["ty"], "x": t["x"]}
                for t in a["terms"][k] if not (set(t["a"]) & dead)]
        if r["terms"][k] != want:
            return "%s terms after deletion differ: got %s want %s" % (k, r["terms"][k], want)
    if r["types"] != a["types"] or r["xlabels"] != a["xlabels"] or r["cell"] != a["cell"]:
        return "type tables / labels / cell changed by deletion"
    return None


def _delete(aj, idx):
    def f():
        a = core.atoms_from_json(aj)
        del a[list(idx)]
        return core.canon_atoms(a)
    return core.result_of(f)


def _pop(aj, i):
    def f():
        a = core.atoms_from_json(aj)
        if i is None:
            a.pop()
        else:
            a.pop(i)
        return core.canon_atoms(a)
    return core.result_of(f)


def cases(ctx, oracle_only=False):
    rng = ctx.rng
    out = []
    small = ctx.n(12, 40)
    nmax_exh = ctx.n(5, 6)
    for s in range(small):
        n = rng.randint(2, nmax_exh)
        aj = gen.rand_atoms(rng, n=n, term_density=rng.randint(1, 3))
        for r in range(1, n + 1):
            for idx in itertools.permutations(range(n), r):
                out.append(("delete", aj, list(idx)))
        for i in [None] + list(range(-n, n)):
            out.append(("pop", aj, i))
    for s in range(ctx.n(400, 4000)):
        aj = gen.rand_atoms(rng, n=rng.randint(3, ctx.n(8, 14)))
        n = len(aj["atoms"])
        idx = rng.sample(range(n), rng.randint(1, n))
        out.append(("delete", aj, idx))
        if s % 5 == 0:
            out.append(("pop", aj, rng.choice([None, rng.randint(-n, n - 1)])))
    return out


def run(ctx, oracle_only=False):
    ctx.rule = RULE
    cs = cases(ctx)
    ops, impls = [], []
    for kind, aj, arg in cs:
        if kind == "delete":
            inp = {"op": "delete", "a": aj, "idx": arg}
            r = _delete(aj, arg)
            bad = oracle_delete(aj, arg, r)
            dead = set(arg)
        else:
            n = len(aj["atoms"])
            inp = {"op": "pop", "a": aj, "i": -1 if arg is None else arg, "default": arg is None}
            r = _pop(aj, arg)
            target = (n - 1) if arg is None else arg % n
            bad = oracle_delete(aj, [target], r)
            dead = {target}
        touched = [bool(set(t["a"]) & dead) for k in gen.KINDS for t in aj["terms"][k]]
        ctx.case(inp, nontrivial=(any(touched) and not all(touched)))
        ctx.count(kind)
        ctx.count("size:" + gen.describe(aj).split("/")[0])
        if bad:
            ctx.fail(bad, inp, observed=r)
        ops.append(inp)
        impls.append(r)
    if oracle_only:
        return
    models = ctx.lean.run(ops)
    for inp, r, m in zip(ops, impls, models):
        ctx.compare(inp["op"], inp, r, m)


def search(ctx):
    """focused search on the real code only (no model): more and larger cases through the oracle"""
    saved = ctx.tier
    ctx.tier = "thorough"
    try:
        run(ctx, oracle_only=True)
    finally:
        ctx.tier = saved


def replay(ctx, rec):
    inp = rec["input"]
    if inp["op"] == "delete":
        return oracle_delete(inp["a"], inp["idx"], _delete(inp["a"], inp["idx"])) is None
    n = len(inp["a"]["atoms"])
    arg = None if inp.get("default") else inp["i"]
    target = (n - 1) if arg is None else arg % n
    return oracle_delete(inp["a"], [target], _pop(inp["a"], arg)) is None
