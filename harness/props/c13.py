"""C13 — LAMMPS data files round-trip and mean what the structure says
(Atoms.save_lmpdat / load_lmpdat / Atoms.save / Atoms.load, both atom styles)."""
import io
import os
import re
import shutil
import tempfile
from fractions import Fraction

from .. import core, gen

RULE = ("structures: random consistent Atoms (1–8 atoms quick / –12 thorough; a quarter of them with 10–25 atom types "
        "of distinct mass/label and 10–25 bond/angle/dihedral/improper types with distinct coefficient entries, 10–30 atoms; no cell, orthorhombic, or LAMMPS-oriented "
        "tilted cell with tilt factors of either sign; 1–4 atom types incl. unused ones; any subset of bond/angle/dihedral/"
        "improper terms and coefficient tables incl. unused entries and ids beyond the table; coefficient strings = random "
        "tokens separated by blanks/tabs with at most one trailing comment, possibly empty; about one entry in six is LONG "
        "(5–90 printed parameters as in class2 / hybrid styles, or a remark of 6–40 words: 40–800 characters, a sixth of all "
        "entries beyond 64 and a tenth beyond 128 characters, mixed with short entries in the same table); occasional type "
        "labels of 40–150 characters; any subset of the three tilt "
        "factors zero or rounding to zero; labels with inner blanks or "
        "empty; negative charges/coordinates/groups; numbers on the 10⁻⁶ grid, with more digits, exact printf ties (k/128) "
        "and tiny negatives; masses from the table or unknown), each in BOTH atom styles; plus a rejection stream (cells "
        "that are not lower-triangular) and a malformed-file stream for the reader's state machine. "
        "Histories: for half of the (structure, style) pairs the SAME object is written 3–5 times (save_lmpdat, Atoms.save to a "
        "file object or a path) with its labels / masses / coefficient tables / charges / one atom type / integer-typed arrays "
        "re-assigned or edited in place between the writes, on the object itself, on its copy(), on a re-read of the last "
        "file, on a subset a[idx] and on Atoms.from_ase_atoms of its ASE image; every write is judged by the same independent "
        "reader against the object's tables at that moment, and an edited copy must leave the original unchanged. "
        "Also: atom-less structures that keep their type tables; labels and coefficient comments with any number of '#'; "
        "non-ASCII letters; magnitudes up to 1e10 (tolerance = half a printed unit + the double's ulp); tilt factors beyond "
        "half a box length; constructor calls without charges/groups; pathlib.Path targets; for structures with >= 2 atom "
        "types the written file with its Masses lines PERMUTED must read as the same structure (ids bind, not positions); "
        "the repo's own CML / P1-CIF test files and element-string constructor calls written and read back. "
        "Non-trivial = distinct (structure, style) with at least one term or one coefficient/label comment; every history, "
        "every permuted file, every foreign object.")

PREC = Fraction(1, 2000000) + Fraction(1, 10 ** 9)       # half a unit of the printed precision (+ float slack)
STYLES = ["full", "atomic"]

# ------------------------------------------------------------------------------------------ generators

TOKENS = ["harmonic", "1.5", "-0.25", "cos/periodic", "1e-3", "k=3", "0", "12", "a_b", "Atoms", "xlo", "(x)", "0.000000",
          "-0.000000", "Coeffs", "3.50", "+1", "lj/cut", "xhi", "types", "Å", "µ=3", "θ0"]
SEPS = [" ", " ", "  ", "\t", "   ", " \t "]
WORDS = ["C", "H", "C_R", "stretch", "1", "x-y", "Zr1", "note", "Pair", "Masses", "#", "#2", "a#b", "Cα", "é"]


def rand_number(rng, lo, hi, mode=None):
    """a float in [lo, hi] as an exact rational string; mode: grid64 | micro | long | tie | tiny"""
    mode = mode or rng.choice(["grid64", "grid64", "micro", "long", "long", "tie", "tiny"])
    if mode == "grid64":
        x = rng.randint(int(lo * 64), int(hi * 64)) / 64.0
    elif mode == "micro":
        x = float("%.6f" % rng.uniform(lo, hi))
    elif mode == "long":
        x = float("%.11f" % rng.uniform(lo, hi))
    elif mode == "tie":                      # k/128 with k odd: the 7th decimal is an exact 5 (printf rounds to even)
        x = (2 * rng.randint(int(lo * 64), int(hi * 64) - 1) + 1) / 128.0
    elif mode == "big":                      # many orders of magnitude (the double's ulp reaches the printed precision)
        x = rng.choice([-1, 1]) * float("%.7f" % (rng.uniform(1, 10) * 10 ** rng.randint(2, 9)))
    else:                                    # rounds to (minus) zero
        x = rng.choice([-1, 1]) * rng.choice([1e-8, 4.9e-7, 3e-12])
    return core.q(x)


def rand_param(rng):
    """one numeric parameter the way force-field files print them (every digit is part of the entry's text)"""
    return rng.choice(["%.4f", "%.4f", "%.1f", "%.6f", "%d", "%.3e", "%.10f"]) % (
        rng.choice([0, rng.uniform(-200, 200), rng.uniform(-2, 2), rng.randint(-6, 360)]),)


def rand_coeff(rng):
    """an arbitrary coefficient string: blank-separated tokens and at most one trailing comment (which may itself
    contain further '#': the comment starts at the first one)"""
    u = rng.random()
    if u < 0.82:
        ntok, nword = rng.randint(0, 4), rng.randint(0, 3)
    elif u < 0.94:                           # many-parameter styles (class2 dihedrals, hybrid styles): a long line
        ntok, nword = rng.choice([rng.randint(5, 12), rng.randint(12, 30), rng.randint(30, 90)]), rng.randint(0, 6)
    else:                                    # few parameters and a long remark
        ntok, nword = rng.randint(0, 4), rng.randint(6, 40)
    toks = [rng.choice(TOKENS) if (ntok <= 4 or rng.random() < 0.4) else rand_param(rng) for _ in range(ntok)]
    s = rng.choice(["", "", " ", "\t"]) if toks else ""
    for i, t in enumerate(toks):
        s += t + (rng.choice(SEPS) if i + 1 < len(toks) else "")
    r = rng.random()
    if r < 0.5 or nword > 3:
        s += rng.choice(["", " ", "   "]) + "#" + rng.choice(["", " ", "  "]) + \
             rng.choice(SEPS).join(rng.choice(WORDS) for _ in range(nword)) + rng.choice(["", " ", "  "])
    elif r < 0.6:
        s += rng.choice([" ", "  "])
    return s


def rand_label(rng, el, i):
    if rng.random() < 0.04:                  # a long descriptive label
        return "%s_%d " % (el, i + 1) + " ".join(rng.choice(WORDS[:9]) for _ in range(rng.randint(10, 40)))
    return rng.choice([el, el, "%s_%d" % (el, i + 1), "%s %d" % (el, i + 1), "%s  (sp2)" % el, "t%d" % i, "", "Atoms",
                       "%s#%d" % (el, i + 1), "#%s" % el, "%s # sp2 #" % el, "%sα" % el])


def rand_lmp_atoms(rng, nmax=8, cell_kind=None):
    """gen.rand_atoms, extended for the file format: cells / numbers / strings / type tables as described in RULE"""
    ck = cell_kind or rng.choice(["none", "ortho", "ortho", "tri+", "tri-", "tri-"])
    many = rng.random() < 0.25               # two-digit type ids: 10–25 atom types and 10–25 types per term kind
    if many:
        nt0 = rng.randint(10, 25)
        j = gen.rand_atoms(rng, n=nt0 + rng.randint(0, 5), cell=False, ntypes=nt0,
                           extras=(rng.random() < 0.15), unique_tags=False)
        j["types"]["elem"] = rng.sample(sorted(gen.masses()), nt0)       # distinct elements: distinct masses
        for k in gen.KINDS:
            if rng.random() < 0.75:
                ntk = rng.randint(10, 25)
                ids = list(range(ntk)) + [rng.randrange(ntk) for _ in range(rng.randint(0, 4))]
                rng.shuffle(ids)
                ids = ids[:rng.randint(max(1, ntk - 3), len(ids))] + [ntk - 1]   # the top id is in use
                w = len(j["xlabels"][k])
                j["terms"][k] = [{"a": rng.sample(range(len(j["atoms"])), gen.ARITY[k]), "ty": ty,
                                  "x": ["%s%d_%d" % (k[0], i, c) for c in range(w)]} for i, ty in enumerate(ids)]
    else:
        j = gen.rand_atoms(rng, n=rng.randint(1, nmax), cell=False, ntypes=rng.randint(1, 4),
                           extras=(rng.random() < 0.15), unique_tags=False)
    if ck != "none":
        j["cell"], _ = gen.rand_cell(rng, ck)
        if ck in ("tri+", "tri-"):           # any subset of the three tilt factors may be zero, or round to zero
            for (r, c) in ((1, 0), (2, 0), (2, 1)):
                u = rng.random()
                if u < 0.35:
                    j["cell"][r][c] = "0"
                elif u < 0.42:
                    j["cell"][r][c] = core.q(rng.choice([3e-7, -3e-7, 4.9e-7]))
        if rng.random() < 0.3:               # lengths / tilts that are not on the printed grid
            for r in range(3):
                for c in range(r + 1):
                    if j["cell"][r][c] != "0":
                        j["cell"][r][c] = core.q(float(core.unq(j["cell"][r][c])) + rng.uniform(-0.3, 0.3))
        if ck in ("tri+", "tri-") and rng.random() < 0.15:   # a tilt factor beyond half the box length
            j["cell"][1][0] = core.q(float(core.unq(j["cell"][0][0])) * rng.choice([-1, 1]) * rng.choice([0.5, 0.75, 0.9375]))
    mode = rng.choice([None, None, None, "grid64", "micro", "long", "big"])
    omit = rng.random() < 0.08               # charges and groups not passed to the constructor at all
    for r in j["atoms"]:
        r["pos"] = [rand_number(rng, -3, 14, mode) for _ in range(3)]
        r["q"] = "0" if omit else rand_number(rng, -2, 2, None if mode == "big" else mode)
        r["g"] = 0 if omit else rng.choice([0, 0, 1, 2, 5, -1, -3])
    if omit:
        j["build"] = {"omit_charges_groups": True}
    if rng.random() < 0.06 and cell_kind is None:        # an atom-less structure that keeps its type tables
        j["atoms"] = []
        j["terms"] = {k: [] for k in gen.KINDS}
        j["xlabels"] = {k: [] for k in ["atom"] + gen.KINDS}
    nt = len(j["types"]["elem"])
    M = gen.masses()
    els = j["types"]["elem"]
    j["types"]["label"] = [rand_label(rng, e, i) for i, e in enumerate(els)]
    if many:                                 # every type recognisable: distinct labels (and distinct coefficients below)
        j["types"]["label"] = [rng.choice(["%s_%d", "%s %d", "%s%d"]) % (e, i + 1) for i, e in enumerate(els)]
    ms = [M[e] for e in els]
    r = rng.random()
    if r < 0.15:                             # a mass no element has: elements fall back to the type numbers
        ms[rng.randrange(nt)] = rng.choice([500.5, 0.3, 13.0, 2.5])
    elif r < 0.3:                            # slightly off, still recognised
        k = rng.randrange(nt)
        ms[k] = ms[k] + rng.choice([-0.004, 0.003, 0.0000004])
    j["types"]["mass"] = [core.q(m) for m in ms]
    j["types"]["pair"] = [rand_coeff(rng) for _ in range(rng.choice([0, nt, nt, rng.randint(1, nt + 1)]))]
    for k in gen.KINDS:
        terms = j["terms"][k]
        top = max([t["ty"] for t in terms], default=-1) + 1
        r = rng.random()
        if r < 0.35:
            n = 0
        elif r < 0.8:
            n = top + rng.randint(0, 2)
        else:
            n = rng.randint(0, max(top, 1))  # possibly fewer entries than ids in use
        j["types"][k] = [rand_coeff(rng) for _ in range(n)]
    if many:
        def tag(tbl, pre):                   # a token that identifies the entry, first or last among the tokens
            out = []
            for i, c in enumerate(tbl):
                head, sep_, tail = c.partition("#")
                head = ("%s%d %s" % (pre, i, head)) if rng.random() < 0.5 else ("%s %s%d " % (head, pre, i))
                out.append(head + sep_ + tail)
            return out
        for k in gen.KINDS:
            if j["terms"][k] and rng.random() < 0.8:     # a full table (plus unused entries) for most kinds with terms
                top = max(t["ty"] for t in j["terms"][k]) + 1
                j["types"][k] = [rand_coeff(rng) for _ in range(top + rng.randint(0, 2))]
            j["types"][k] = tag(j["types"][k], k[0])
        if rng.random() < 0.8:
            j["types"]["pair"] = [rand_coeff(rng) for _ in range(nt)]
        j["types"]["pair"] = tag(j["types"]["pair"], "p")
    return j, ck


def build(aj):
    """a real Atoms from canonical JSON: core.atoms_from_json, extended to atom-less structures WITH their type tables
    and to constructor calls that omit charges / groups"""
    import numpy as np
    from mofun import Atoms
    if aj["atoms"] and not aj.get("build"):
        return core.atoms_from_json(aj)
    ty = aj["types"]
    kw = dict(atom_type_elements=list(ty["elem"]), atom_type_labels=list(ty["label"]),
              atom_type_masses=[float(core.unq(m)) for m in ty["mass"]], pair_coeffs=list(ty["pair"]))
    for k, tups, types, xf, xlab, coeffs in core.KINDS:
        kw[coeffs] = list(ty[k])
        kw[tups] = [t["a"] for t in aj["terms"][k]]
        kw[types] = [t["ty"] for t in aj["terms"][k]]
    if aj["atoms"]:
        kw["atom_types"] = [r["ty"] for r in aj["atoms"]]
        kw["positions"] = [[float(core.unq(v)) for v in r["pos"]] for r in aj["atoms"]]
    if aj.get("cell") is not None:
        kw["cell"] = np.array([[float(core.unq(v)) for v in row] for row in aj["cell"]])
    with core.quiet():
        return Atoms(**kw)


def signature(j, ck):
    return "n%d/%s/%s" % (len(j["atoms"]), "".join(k[0] for k in gen.KINDS if j["terms"].get(k)) or "-", ck)


# ------------------------------------------------------------------------------------------ real code

def exc_name(e):
    if isinstance(e, IndexError):
        return "error:index"
    if isinstance(e, ValueError):
        return "reject:value"
    if type(e) is Exception and "triclinic" in str(e):
        return "reject:triclinic"
    if type(e) is Exception and "filetype" in str(e).lower():
        return "reject:filetype"
    return "error:" + type(e).__name__


def attempt(fn):
    try:
        with core.quiet():
            return {"ok": fn()}
    except Exception as e:  # noqa
        return {"err": exc_name(e)}


def real_save(aj, style):
    def f():
        s = io.StringIO()
        build(aj).save_lmpdat(s, atom_format=style)
        return s.getvalue()
    return attempt(f)


def real_load(text, style):
    from mofun import Atoms
    return attempt(lambda: core.canon_atoms(Atoms.load_lmpdat(io.StringIO(text), atom_format=style)))


def real_load_obj(text, style):
    from mofun import Atoms
    with core.quiet():
        return Atoms.load_lmpdat(io.StringIO(text), atom_format=style)


def save_obj(a, style):
    s = io.StringIO()
    with core.quiet():
        a.save_lmpdat(s, atom_format=style)
    return s.getvalue()


def observed_guess(masses):
    """what guess_elements_from_masses answers for the masses read from the file (None = it raised)"""
    from mofun.helpers import guess_elements_from_masses
    try:
        return [str(e) for e in guess_elements_from_masses([float(core.unq(m)) for m in masses])]
    except Exception:  # noqa
        return None


def tokenize(text):
    """the real text as the model's Line records: what split('#') / strip() / split() see of each line"""
    out = []
    lines = text.split("\n")
    if lines and lines[-1] == "":
        lines.pop()
    for ln in lines:
        i = ln.find("#")
        if i < 0:
            out.append({"t": ln.split(), "c": None})
        else:
            out.append({"t": ln[:i].split(), "c": ln[i + 1:].strip()})
    return out


def canon_lines(lines):
    """-0.000000 and 0.000000 are the same fixed-point number"""
    return [{"t": ["0.000000" if t == "-0.000000" else t for t in l["t"]], "c": l["c"]} for l in lines]


# ------------------------------------------------------------------------------------------ independent reader

SECTION_NAMES = ["Masses", "Pair Coeffs", "Bond Coeffs", "Angle Coeffs", "Dihedral Coeffs", "Improper Coeffs",
                 "Atoms", "Bonds", "Angles", "Dihedrals", "Impropers"]
_NUM = r"[-+]?(?:\d+\.?\d*|\.\d+)(?:[eE][-+]?\d+)?"
_HEADER = [(re.compile(r"^(\d+)\s+(atoms|bonds|angles|dihedrals|impropers)$"), "count"),
           (re.compile(r"^(\d+)\s+(atom|bond|angle|dihedral|improper)\s+types$"), "types"),
           (re.compile(r"^(%s)\s+(%s)\s+([xyz])lo\s+[xyz]hi$" % (_NUM, _NUM)), "box"),
           (re.compile(r"^(%s)\s+(%s)\s+(%s)\s+xy\s+xz\s+yz$" % (_NUM, _NUM, _NUM)), "tilt")]


class BadFile(Exception):
    pass


def read_data(text):
    """A reader of LAMMPS data files written from the format description of `read_data` (docs.lammps.org):
    title line; header lines `N keyword` / `lo hi xlo xhi` / `xy xz yz` tilt, blank lines ignored, text after `#`
    ignored; then sections: keyword line, ONE blank line, the rows, ended by a blank line or the end of the file.
    Shares nothing with mofun.  Returns counts, type counts, box, tilt, and per section the rows as
    (tokens before '#', comment text)."""
    def cut(s):
        i = s.find("#")
        return (s, None) if i < 0 else (s[:i], " ".join(s[i + 1:].split()))
    lines = text.split("\n")
    d = {"count": {}, "types": {}, "box": {}, "tilt": None, "sec": {}}
    i = 1
    while i < len(lines) and cut(lines[i])[0].strip() not in SECTION_NAMES:
        body = cut(lines[i])[0].strip()
        i += 1
        if not body:
            continue
        for rx, what in _HEADER:
            m = rx.match(body)
            if m:
                break
        else:
            raise BadFile("unknown header line %r" % body)
        if what in ("count", "types"):
            if m.group(2) in d[what]:
                raise BadFile("header keyword %s twice" % m.group(2))
            d[what][m.group(2)] = int(m.group(1))
        elif what == "box":
            d["box"][m.group(3)] = (Fraction(m.group(1)), Fraction(m.group(2)))
        else:
            d["tilt"] = tuple(Fraction(m.group(k)) for k in (1, 2, 3))
    while i < len(lines):
        name = cut(lines[i])[0].strip()
        if name == "" and all(not l.strip() for l in lines[i:]):
            break
        if name not in SECTION_NAMES or name in d["sec"]:
            raise BadFile("expected a new section name, found %r" % lines[i])
        if i + 1 < len(lines) and lines[i + 1].strip() != "":
            raise BadFile("no blank line after section name %s" % name)
        i += 2
        rows = []
        while i < len(lines) and lines[i].strip() != "":
            body, com = cut(lines[i])
            rows.append((body.split(), com))
            i += 1
        d["sec"][name] = rows
        i += 1 if i < len(lines) else 0
    return d


def words(s):
    """coefficient string -> (tokens before the first '#', comment words or None)"""
    i = s.find("#")
    return (s.split(), None) if i < 0 else (s[:i].split(), " ".join(s[i + 1:].split()))


def near(a, b):
    """equal to the printed precision (half a unit of the sixth decimal; for large magnitudes plus the double's ulp)"""
    b = Fraction(b)
    return abs(Fraction(a) - b) <= PREC + abs(b) / 2 ** 51


def lammps_oriented(cell):
    return all(core.unq(cell[r][c]) == 0 for r, c in ((0, 1), (0, 2), (1, 2)))


def expected_types(aj, k):
    used = [t["ty"] for t in aj["terms"][k]]
    return max([len(aj["types"][k])] + [u + 1 for u in used])


def oracle_written(aj, style, text):
    """the written text, re-interpreted by the independent reader, states exactly the structure.  None or text."""
    try:
        d = read_data(text)
    except BadFile as e:
        return "not a LAMMPS data file: %s" % e
    except Exception as e:  # noqa
        return "independent reader failed: %r" % (e,)
    n = len(aj["atoms"])
    plural = {"bond": "bonds", "angle": "angles", "dihedral": "dihedrals", "improper": "impropers"}
    want = {"atoms": n}
    want.update({plural[k]: len(aj["terms"][k]) for k in gen.KINDS})
    if d["count"] != want:
        return "header counts %s, structure has %s" % (d["count"], want)
    wt = {"atom": len(aj["types"]["elem"])}
    wt.update({k: expected_types(aj, k) for k in gen.KINDS})
    wt = {k: v for k, v in wt.items() if v > 0}
    if d["types"] != wt:
        return "declared type counts %s, structure has %s" % (d["types"], wt)
    cell = aj.get("cell")
    if cell is None:
        if d["box"] or d["tilt"]:
            return "box lines written for a structure without cell"
    else:
        for ax, r in (("x", 0), ("y", 1), ("z", 2)):
            if ax not in d["box"] or d["box"][ax][0] != 0 or not near(d["box"][ax][1], core.unq(cell[r][r])):
                return "%slo %shi = %s, cell length %s" % (ax, ax, d["box"].get(ax), cell[r][r])
        tilt = d["tilt"] or (0, 0, 0)
        for v, (r, c), nm in zip(tilt, ((1, 0), (2, 0), (2, 1)), ("xy", "xz", "yz")):
            if not near(v, core.unq(cell[r][c])):
                return "tilt factor %s = %s, cell[%d][%d] = %s" % (nm, v, r, c, cell[r][c])
        if not lammps_oriented(cell):
            return "a file was written for a cell with upper-triangle entries, which the format cannot express"

    def ids_ok(rows):
        return [r[0][0] for r in rows] == [str(i + 1) for i in range(len(rows))]

    sec = d["sec"]
    for name, rows in sec.items():
        if not ids_ok(rows):
            return "%s: ids are not 1..N in order: %s" % (name, [r[0][:1] for r in rows])
    masses = sec.get("Masses")
    if masses is None or len(masses) != len(aj["types"]["mass"]):
        return "Masses section has %s rows, structure has %d atom types" % (None if masses is None else len(masses), len(aj["types"]["mass"]))
    for (t, c), m, lab in zip(masses, aj["types"]["mass"], aj["types"]["label"]):
        if len(t) != 2 or not near(t[1], core.unq(m)):
            return "mass row %s, structure mass %s" % (t, m)
        if c != " ".join(lab.split()):
            return "mass row comment %r, type label %r" % (c, lab)
    for name, key in (("Pair Coeffs", "pair"), ("Bond Coeffs", "bond"), ("Angle Coeffs", "angle"),
                      ("Dihedral Coeffs", "dihedral"), ("Improper Coeffs", "improper")):
        tbl = aj["types"][key]
        if (name in sec) != (len(tbl) > 0):
            return "%s section %s although the table has %d entries" % (name, "present" if name in sec else "absent", len(tbl))
        for (t, c), s in zip(sec.get(name, []), tbl):
            if (t[1:], c) != words(s):
                return "%s row %s # %s, structure entry %r" % (name, t, c, s)
        if len(sec.get(name, [])) != len(tbl):
            return "%s has %d rows, table has %d" % (name, len(sec.get(name, [])), len(tbl))
    rows = sec.get("Atoms")
    if rows is None or len(rows) != n:
        return "Atoms section has %s rows for %d atoms" % (None if rows is None else len(rows), n)
    for (t, _), r in zip(rows, aj["atoms"]):
        if style == "atomic":
            ok = len(t) == 5 and t[1] == str(r["ty"] + 1) and all(near(a, core.unq(b)) for a, b in zip(t[2:5], r["pos"]))
        else:
            ok = (len(t) == 7 and t[1] == str(r["g"] + 1) and t[2] == str(r["ty"] + 1) and near(t[3], core.unq(r["q"]))
                  and all(near(a, core.unq(b)) for a, b in zip(t[4:7], r["pos"])))
        if not ok:
            return "Atoms row %s does not state atom %s (%s style)" % (t, r, style)
        if not 1 <= int(t[1 if style == "atomic" else 2]) <= d["types"].get("atom", 0):
            return "Atoms row %s: type outside the declared atom types" % (t,)
    for k, name in (("bond", "Bonds"), ("angle", "Angles"), ("dihedral", "Dihedrals"), ("improper", "Impropers")):
        ts = aj["terms"][k]
        if (name in sec) != (len(ts) > 0):
            return "%s section %s although the structure has %d" % (name, "present" if name in sec else "absent", len(ts))
        got = [[int(x) for x in t[1:]] for t, _ in sec.get(name, [])]
        if got != [[t["ty"] + 1] + [x + 1 for x in t["a"]] for t in ts]:
            return "%s rows %s, structure terms %s" % (name, got, ts)
    return None


def oracle_loaded(aj, style, b):
    """the structure read back (canonical dump b) reproduces the original to the printed precision"""
    if len(b["atoms"]) != len(aj["atoms"]):
        return "read back %d atoms of %d" % (len(b["atoms"]), len(aj["atoms"]))
    for i, (r, o) in enumerate(zip(b["atoms"], aj["atoms"])):
        if r["ty"] != o["ty"]:
            return "atom %d: type %d, was %d" % (i, r["ty"], o["ty"])
        if not all(near(core.unq(x), core.unq(y)) for x, y in zip(r["pos"], o["pos"])):
            return "atom %d: position %s, was %s" % (i, r["pos"], o["pos"])
        if style == "full" and (r["g"] != o["g"] or not near(core.unq(r["q"]), core.unq(o["q"]))):
            return "atom %d: group/charge %s %s, was %s %s" % (i, r["g"], r["q"], o["g"], o["q"])
        if style == "atomic" and (r["g"] != 0 or core.unq(r["q"]) != 0):
            return "atom %d: atomic style must give zero group/charge" % i
    if (b["cell"] is None) != (aj["cell"] is None):
        return "cell %s, was %s" % (b["cell"], aj["cell"])
    if b["cell"] is not None and not all(near(core.unq(x), core.unq(y)) for rb, ro in zip(b["cell"], aj["cell"]) for x, y in zip(rb, ro)):
        return "cell %s, was %s" % (b["cell"], aj["cell"])
    if len(b["types"]["mass"]) != len(aj["types"]["mass"]) or \
            not all(near(core.unq(x), core.unq(y)) for x, y in zip(b["types"]["mass"], aj["types"]["mass"])):
        return "masses %s, were %s" % (b["types"]["mass"], aj["types"]["mass"])
    if b["types"]["label"] != aj["types"]["label"]:
        return "type labels %s, were %s" % (b["types"]["label"], aj["types"]["label"])
    for k in gen.KINDS:
        got = [(t["a"], t["ty"]) for t in b["terms"][k]]
        was = [(t["a"], t["ty"]) for t in aj["terms"][k]]
        if got != was:
            return "%s terms %s, were %s" % (k, got, was)
    for k in gen.KINDS + ["pair"]:
        if [words(s) for s in b["types"][k]] != [words(s) for s in aj["types"][k]]:
            return "%s coefficients %s, were %s (token for token)" % (k, b["types"][k], aj["types"][k])
    return None


def oracle_case(aj, style, tmpdir=None):
    """the whole property on one (structure, style), real code only.  Returns (None | what, details)"""
    det = {}
    cell = aj.get("cell")
    s1 = real_save(aj, style)
    det["save"] = s1
    if cell is not None and not lammps_oriented(cell):
        # outside the property's domain: the only acceptable behaviours are a rejection (or a file that states the cell)
        if "ok" in s1:
            return oracle_written(aj, style, s1["ok"]), det
        return None, det
    if "ok" not in s1:
        return "writing raised %s" % s1["err"], det
    t1 = s1["ok"]
    bad = oracle_written(aj, style, t1)
    if bad:
        return bad, det
    l1 = real_load(t1, style)
    det["load"] = l1
    if "ok" not in l1:
        return "reading the written file raised %s" % l1["err"], det
    bad = oracle_loaded(aj, style, l1["ok"])
    if bad:
        return bad, det
    # write – read – write: byte-identical after at most one normalising pass
    try:
        a1 = real_load_obj(t1, style)
        t2 = save_obj(a1, style)
        a2 = real_load_obj(t2, style)
        t3 = save_obj(a2, style)
    except Exception as e:  # noqa
        return "write-read-write raised %r" % (e,), det
    det["t2"] = t2
    if t2 != t3:
        return "second and third outputs differ", det
    if core.same(core.canon_atoms(a1), core.canon_atoms(a2)) is not None:
        return "second read differs from first read: %s" % core.same(core.canon_atoms(a1), core.canon_atoms(a2)), det
    # path / open file dispatch
    if tmpdir is not None:
        from mofun import Atoms
        p = os.path.join(tmpdir, "s.lmpdat")
        if len(aj["atoms"]) % 2:
            import pathlib
            p = pathlib.Path(p)
        try:
            with core.quiet():
                build(aj).save(p, atom_format=style)
                tp = open(p).read()
                s = io.StringIO()
                build(aj).save(s, filetype="lmpdat", atom_format=style)
                bp = core.canon_atoms(Atoms.load(p, atom_format=style))
                with open(p) as fh:
                    bf = core.canon_atoms(Atoms.load(fh, filetype="lmpdat", atom_format=style))
        except Exception as e:  # noqa
            return "Atoms.save/Atoms.load raised %r" % (e,), det
        if tp != t1 or s.getvalue() != t1:
            return "Atoms.save(path) / Atoms.save(file) text differs from save_lmpdat", det
        if core.same(bp, l1["ok"]) is not None or core.same(bf, l1["ok"]) is not None:
            return "Atoms.load(path) / Atoms.load(file) differ from load_lmpdat", det
    return None, det


# ------------------------------------------------------------------------------------------ histories on one object

ATTR = {"pair": "pair_coeffs", "bond": "bond_type_coeffs", "angle": "angle_type_coeffs",
        "dihedral": "dihedral_type_coeffs", "improper": "improper_type_coeffs"}


def rand_history(rng, aj):
    """2–4 further writes of ONE object (or of its copy() / a re-read of it / a subset of it / its ASE round trip), with
    the type tables edited between the writes the way rough_uff and the CLI do (attribute assignment), in place, or not
    at all.  Every step is data, so a history can be replayed."""
    nt = len(aj["types"]["label"])
    n = len(aj["atoms"])
    M = gen.masses()
    steps = []
    for k in range(rng.randint(2, 4)):
        e = {}
        kinds_of_edit = ["label", "label", "mass", "coeffs", "pair", "charge", "ints", "none"] + (["retype"] if n and nt else [])
        for what in rng.sample(kinds_of_edit, rng.randint(1, 3)):
            if what == "label":
                e["label"] = ["%s%s%d" % (rng.choice(["L", "n_", "Q "]), chr(97 + k), i) for i in range(nt)]
                e["label_how"] = rng.choice(["assign", "assign", "inplace", "one"])
            elif what == "mass":
                e["mass"] = [core.q(M[x]) for x in rng.sample(sorted(M), nt)]
            elif what == "coeffs":
                kind = rng.choice(gen.KINDS)
                e.setdefault("coeffs", {})[kind] = ["%s%d_%d %s" % (kind[0], k, i, rand_coeff(rng)) for i in range(len(aj["types"][kind]))]
            elif what == "pair":
                e.setdefault("coeffs", {})["pair"] = ["p%d_%d %s" % (k, i, rand_coeff(rng)) for i in range(rng.choice([0, nt]))]
            elif what == "charge":
                e["charge"] = [rand_number(rng, -2, 2) for _ in range(n)]
            elif what == "retype":
                e["retype"] = [rng.randrange(n), rng.randrange(nt)]
            elif what == "ints":                     # integer-typed arrays
                e["ints"] = {"pos": [[rng.randint(-3, 14) for _ in range(3)] for _ in range(n)],
                             "mass": [rng.randint(1, 200) for _ in range(nt)]}
        steps.append({"target": rng.choice(["self", "self", "self", "copy", "copy", "reload"] + (["subset", "ase"] if n else [])),
                      "via": rng.choice(["direct", "direct", "file", "path"]),
                      "idx": rng.sample(range(n), rng.randint(1, n)) if n else [], "edit": e})
    return steps


def apply_edit(o, e):
    import numpy as np
    if "label" in e and len(e["label"]) == len(o.atom_type_labels):
        how = e.get("label_how", "assign")
        if how == "assign":
            o.atom_type_labels = list(e["label"])
        elif how == "inplace" and isinstance(o.atom_type_labels, list) and o.atom_type_labels is not o.atom_type_elements:
            o.atom_type_labels[:] = e["label"]
        elif how == "one" and isinstance(o.atom_type_labels, list) and o.atom_type_labels is not o.atom_type_elements:
            o.atom_type_labels[-1] = e["label"][-1]
        else:
            o.atom_type_labels = list(e["label"])
    if "mass" in e and len(e["mass"]) == len(o.atom_type_masses):
        o.atom_type_masses = [float(core.unq(m)) for m in e["mass"]]
    for k, tbl in e.get("coeffs", {}).items():
        if k == "pair" or len(tbl) == len(getattr(o, ATTR[k])):
            setattr(o, ATTR[k], list(tbl))
    if "charge" in e and len(e["charge"]) == len(o.charges):
        o.charges = np.array([float(core.unq(c)) for c in e["charge"]])
    if "retype" in e and e["retype"][0] < len(o.atom_types) and e["retype"][1] < len(o.atom_type_labels):
        o.atom_types[e["retype"][0]] = e["retype"][1]
    if "ints" in e and len(e["ints"]["pos"]) == len(o.positions) and len(e["ints"]["mass"]) == len(o.atom_type_masses):
        o.positions = np.array(e["ints"]["pos"], dtype=int)
        o.atom_type_masses = np.array(e["ints"]["mass"], dtype=int)
        if o.cell is not None:
            o.cell = np.array(np.round(o.cell), dtype=int)


def write_via(o, style, via, tmpdir):
    if via == "direct" or tmpdir is None:
        return save_obj(o, style)
    with core.quiet():
        if via == "file":
            s = io.StringIO()
            o.save(s, filetype="lmpdat", atom_format=style)
            return s.getvalue()
        p = os.path.join(tmpdir, "h.lmpdat")
        o.save(p, atom_format=style)
        return open(p).read()


def judge_write(o, style, via, tmpdir, who):
    """one write of the object `o`, judged by the round-trip oracle against o's CURRENT tables"""
    from mofun import Atoms
    for acc in ("elements", "symbols", "num_atom_types", "num_bond_types", "num_improper_types"):
        getattr(o, acc)                              # accessors read before the write must not matter
    if len(o.atom_type_labels):
        o.label_atoms(0)
    cur = core.canon_atoms(o)
    text = write_via(o, style, via, tmpdir)
    d = core.same(cur, core.canon_atoms(o))
    if d:
        return "%s: writing changed the object: %s" % (who, d), cur, text
    bad = oracle_written(cur, style, text)
    if bad:
        return "%s: %s" % (who, bad), cur, text
    with core.quiet():
        if via == "path" and tmpdir is not None:
            back = Atoms.load(os.path.join(tmpdir, "h.lmpdat"), atom_format=style)
        elif via == "file":
            back = Atoms.load(io.StringIO(text), filetype="lmpdat", atom_format=style)
        else:
            back = Atoms.load_lmpdat(io.StringIO(text), atom_format=style)
    bad = oracle_loaded(cur, style, core.canon_atoms(back))
    if bad:
        return "%s (read back): %s" % (who, bad), cur, text
    return None, cur, text


def ase_expectation(aj):
    """what Atoms.from_ase_atoms of the structure's ASE image must be, stated from the ASE data alone"""
    els = [aj["types"]["elem"][r["ty"]] for r in aj["atoms"]]
    uniq = list(dict.fromkeys(els))
    M = gen.masses()
    return {"cell": aj["cell"], "atoms": [{"ty": uniq.index(e), "pos": r["pos"], "q": "0", "g": 0, "x": []}
                                           for e, r in zip(els, aj["atoms"])],
            "terms": {k: [] for k in gen.KINDS},
            "types": {"elem": uniq, "label": uniq, "mass": [core.q(M[e]) for e in uniq], "pair": [],
                      "bond": [], "angle": [], "dihedral": [], "improper": []},
            "xlabels": {"atom": [], "bond": [], "angle": [], "dihedral": [], "improper": []}}


def oracle_history(aj, style, steps, tmpdir=None):
    """write the same object again and again (and objects derived from it), editing its tables in between; every file
    must state the tables the object has AT THAT MOMENT.  Returns (None | what, writes) with writes = [(dump, text)]."""
    from mofun import Atoms
    writes = []
    try:
        a = build(aj)
        bad, cur, text = judge_write(a, style, "direct", tmpdir, "write 1")
        writes.append((cur, text))
        if bad:
            return bad, writes
        for i, st in enumerate(steps):
            who = "write %d (%s, %s)" % (i + 2, st["target"], ",".join(sorted(st["edit"])) or "no edit")
            tgt = st["target"]
            if tgt == "self":
                o = a
            elif tgt == "copy":
                o = a.copy()
            elif tgt == "reload":
                with core.quiet():
                    o = Atoms.load_lmpdat(io.StringIO(writes[-1][1]), atom_format=style)
            elif tgt == "subset":
                with core.quiet():
                    o = a[[k for k in st["idx"] if k < len(a.atom_types)]]
            else:
                M = gen.masses()
                els = [aj["types"]["elem"][r["ty"]] for r in aj["atoms"]]
                if not all(e in M for e in els):
                    continue
                import ase
                try:
                    img = ase.Atoms(els, positions=[[float(core.unq(v)) for v in r["pos"]] for r in aj["atoms"]],
                                    **({} if aj["cell"] is None else {"cell": [[float(core.unq(v)) for v in row] for row in aj["cell"]], "pbc": True}))
                except Exception:  # noqa  (a symbol ASE does not know: ASE's vocabulary is not this property)
                    continue
                with core.quiet():
                    o = Atoms.from_ase_atoms(img)
                d = core.same(ase_expectation(aj), core.canon_atoms(o))
                if d:
                    return "%s: from_ase_atoms does not give the ASE object's content: %s" % (who, d), writes
            before = core.canon_atoms(a)
            if tgt != "ase":
                apply_edit(o, st["edit"])
            bad, cur, text = judge_write(o, style, st["via"], tmpdir, who)
            writes.append((cur, text))
            if bad:
                return bad, writes
            if o is not a:                           # an edited copy / re-read must not leak into the original
                d = core.same(before, core.canon_atoms(a))   # (a[idx] shares its type tables with the original by design)
                if d and tgt != "subset":
                    return "%s: editing the derived object changed the original: %s" % (who, d), writes
                bad, cur, text = judge_write(a, style, "direct", tmpdir, who + " then the original again")
                writes.append((cur, text))
                if bad:
                    return bad, writes
    except Exception as e:  # noqa
        return "a write in the history raised %r" % (e,), writes
    return None, writes


# ------------------------------------------------------------------------------------------ Masses lines in any order

def shuffle_masses(text, perm):
    """the same file with its Masses rows in the order `perm` (every row keeps its type id)"""
    lines = text.split("\n")
    at = lines.index("Masses") + 2
    end = at
    while end < len(lines) and lines[end].strip():
        end += 1
    rows = lines[at:end]
    if sorted(perm) != list(range(len(rows))):
        return None
    return "\n".join(lines[:at] + [rows[k] for k in perm] + lines[end:])


def oracle_shuffled(aj, style, perm):
    """a Masses line binds its mass and label to ITS type id (LAMMPS read_data): the order of the lines means nothing.
    Returns (None | what, shuffled text, real result on it)"""
    sv = real_save(aj, style)
    if "ok" not in sv:
        return None, None, None
    text = shuffle_masses(sv["ok"], perm)
    if text is None:
        return None, None, None
    r0, r1 = real_load(sv["ok"], style), real_load(text, style)
    if "ok" not in r1:
        return "the file with its Masses lines in the order %s could not be read: %s" % ([k + 1 for k in perm], r1["err"]), text, r1
    d = core.same(r0, r1)
    if d:
        return "Masses lines in the order %s give another structure than in ascending order: %s" % ([k + 1 for k in perm], d), text, r1
    return None, text, r1


# ------------------------------------------------------------------------------------------ structures from other readers

def foreign_objects():
    """structures that reach the writer through other public constructors: the repo's own CML / P1-CIF test files and
    element-string / element-list constructor calls"""
    import glob
    out = []
    root = os.path.join(core.REPO, "tests")
    for f in sorted(glob.glob(os.path.join(root, "**", "*.cml"), recursive=True) + glob.glob(os.path.join(root, "**", "*.cif"), recursive=True)):
        if os.path.getsize(f) < 60000:
            out.append(("file", os.path.relpath(f, core.REPO)))
    out += [("elements", "CHHHH"), ("elements", ["O", "H", "H", "Zr"]), ("elements", "C")]
    return out


def make_foreign(kind, arg):
    import numpy as np
    from mofun import Atoms
    with core.quiet():
        if kind == "file":
            return Atoms.load(os.path.join(core.REPO, arg))
        n = len(arg)
        return Atoms(elements=arg, positions=[[i * 1.25, -0.5 * i, 0.125 * i * i] for i in range(n)],
                     cell=np.array([[12.5, 0, 0], [-1.25, 11, 0], [0.5, 2.25, 9.75]]) if n > 1 else None)


def oracle_foreign(kind, arg, style, tmpdir):
    try:
        o = make_foreign(kind, arg)
    except Exception:  # noqa  (a file this reader does not accept, e.g. a non-P1 CIF: not this property)
        return None
    if o.cell is not None and not lammps_oriented(core.canon_atoms(o)["cell"]):
        return None
    try:
        bad, _, _ = judge_write(o, style, "direct", tmpdir, "%s %s" % (kind, arg))
        if not bad:
            bad, _, _ = judge_write(o, style, "path", tmpdir, "%s %s via Atoms.save(path)" % (kind, arg))
    except Exception as e:  # noqa
        return "writing / re-reading %s %s raised %r" % (kind, arg, e)
    return bad


# ------------------------------------------------------------------------------------------ malformed files

def malform(rng, text):
    """edits of a written file that exercise the reader's state machine (tie only; no property oracle)"""
    lines = text.split("\n")
    kind = rng.choice(["two-hash", "no-mass", "bad-number", "no-blank-after-name", "blank-in-section", "comment-line",
                       "name-with-comment", "keyword-in-section", "keyword-extra", "drop-atoms", "extra-column",
                       "short-row", "zero-id", "trailing-blanks", "keyword-no-number", "ragged",
                       "no-mass-comments", "one-mass-comment-missing", "flat-box", "late-box"])
    idx = {l.strip(): i for i, l in enumerate(lines)}
    atoms_at = idx.get("Atoms")
    masses_at = idx.get("Masses")
    if kind == "two-hash":
        c = [i for i, l in enumerate(lines) if "#" in l]
        if c:
            i = rng.choice(c)
            lines[i] += " # again"
    elif kind == "no-mass" and masses_at is not None and masses_at + 2 < len(lines):
        lines[masses_at + 2] = " 1"
    elif kind == "bad-number":
        i = atoms_at + 2
        t = lines[i].split()
        t[rng.randrange(min(len(t), 5))] = rng.choice(["abc", "1.5x", "--1", "1.0.0", ""])
        lines[i] = " ".join(t)
    elif kind == "no-blank-after-name":
        del lines[atoms_at + 1]
    elif kind == "blank-in-section":
        lines.insert(atoms_at + 3, "")
    elif kind == "comment-line":
        lines.insert(atoms_at + 3, "   # only a comment")
    elif kind == "name-with-comment":
        lines[atoms_at] = "Atoms   # full"
    elif kind == "keyword-in-section":
        lines.insert(atoms_at + 3, " 0.0 5.0 xlo xhi")
    elif kind == "keyword-extra":
        lines.insert(2, rng.choice([" 0.000000 9.500000 xlo xhi extra", "1 2.5 3 ylo yhi", " 1.0 2.0 3.0 4.0 xy xz yz",
                                    "x 0 1 zlo zhi", "0 1 xlo", "5 xlo xhi yhi"]))
    elif kind == "drop-atoms":
        j = atoms_at + 2
        while j < len(lines) and lines[j].strip():
            del lines[j]
    elif kind == "extra-column":
        j = atoms_at + 2
        while j < len(lines) and lines[j].strip():
            lines[j] = lines[j].replace("   #", " 0 0 0   #")
            j += 1
    elif kind == "short-row":
        t = lines[atoms_at + 2].split("#")[0].split()
        lines[atoms_at + 2] = " ".join(t[:rng.randint(1, len(t) - 1)])
        for j in range(atoms_at + 3, len(lines)):       # keep the table rectangular: drop the other atoms
            if not lines[j].strip():
                break
            lines[j] = None
        lines = [l for l in lines if l is not None]
    elif kind == "zero-id":
        j = idx.get("Bonds")
        if j is not None:
            t = lines[j + 2].split("#")[0].split()
            t[rng.randrange(1, len(t))] = "0"
            lines[j + 2] = " ".join(t)
        else:
            t = lines[atoms_at + 2].split("#")[0].split()
            t[1] = "0"
            lines[atoms_at + 2] = " ".join(t)
    elif kind == "trailing-blanks":
        lines += ["", "", "  "]
    elif kind == "keyword-no-number":
        lines.insert(2, rng.choice(["xlo xhi", "a xy xz yz", "xy xz yz", "1 xy xz yz"]))
    elif kind in ("no-mass-comments", "one-mass-comment-missing") and masses_at is not None:
        j = masses_at + 2
        first = True
        while j < len(lines) and lines[j].strip():
            if kind == "no-mass-comments" or first:
                lines[j] = lines[j].split("#")[0].rstrip()
            first = False
            j += 1
    elif kind == "flat-box":                 # a box with a zero / negative length: no cell
        for j, l in enumerate(lines):
            if l.endswith("ylo yhi"):
                lines[j] = rng.choice([" 0.000000 0.000000 ylo yhi", " 2.000000 1.000000 ylo yhi"])
    elif kind == "late-box":                 # box keywords after the sections ended: still header lines
        lines += ["", " 0.000000 3.500000 xlo xhi", " -1.000000 4.250000 ylo yhi", " 0.5 2 zlo zhi",
                  rng.choice([" 0 0 0.25 xy xz yz", " 0 -1.5 0 xy xz yz", " 0.0 0.0 0.0 xy xz yz"])]
    elif kind == "ragged":
        j = atoms_at + 2
        if j + 1 < len(lines) and lines[j + 1].strip():
            lines[j + 1] = lines[j + 1].replace("   #", " 7   #")
    return kind, "\n".join(lines)


# ------------------------------------------------------------------------------------------ dispatch

def real_dispatch(ext, filetype, tmpdir):
    """which reader / writer Atoms.load / Atoms.save reach (observed on a subclass; /repo untouched)"""
    from mofun import Atoms

    class Probe(Atoms):
        @classmethod
        def load_lmpdat(cls, f, **kw):
            return "lmpdat"

        @classmethod
        def load_cml(cls, f, **kw):
            return "other"

        @classmethod
        def load_p1_cif(cls, f, **kw):
            return "other"

        def save_lmpdat(self, f, **kw):
            return "lmpdat"

        def save_raspa_mol(self, f, **kw):
            return "other"

        def save_p1_cif(self, f, **kw):
            return "other"

    out = {}
    for what in ("load", "save"):
        try:
            with core.quiet():
                if ext is None:
                    target = io.StringIO("")
                else:
                    target = os.path.join(tmpdir, "d" + ("." + ext if ext else ""))
                    open(target, "a").close()
                r = Probe.load(target, filetype=filetype) if what == "load" else Probe().save(target, filetype=filetype)
            out[what] = {"ok": r == "lmpdat"}
        except Exception as e:  # noqa
            out[what] = {"err": exc_name(e) if "filetype" in str(e).lower() else "error:" + type(e).__name__}
    return out


# ------------------------------------------------------------------------------------------ the check

def run(ctx, oracle_only=False):
    ctx.rule = RULE
    rng = ctx.rng
    tmpdir = tempfile.mkdtemp(prefix="c13_")
    ops, impls, tols = [], [], []
    try:
        nstruct = ctx.n(300, 5000) if not oracle_only else 1500
        for s in range(nstruct):
            rejected = (s % 25 == 24)
            aj, ck = rand_lmp_atoms(rng, nmax=ctx.n(8, 12), cell_kind="rot" if rejected else None)
            for style in STYLES:
                inp = {"op": "lmp_roundtrip", "a": aj, "style": style}
                has_comment = any("#" in c for k in gen.KINDS + ["pair"] for c in aj["types"][k])
                ctx.case(inp, nontrivial=(any(aj["terms"][k] for k in gen.KINDS) or has_comment) and not rejected)
                ctx.count("style:" + style)
                ctx.count("cell:" + ck)
                ctx.count("atomtypes>=10" if len(aj["types"]["elem"]) >= 10 else "atomtypes<10")
                ctx.count("termtypes>=10" if any(len(aj["types"][k]) >= 10 for k in gen.KINDS) else "termtypes<10")
                ctx.count("size:" + signature(aj, ck).split("/")[0])
                bad, det = oracle_case(aj, style, tmpdir if (s % 10 == 0 or oracle_only) else None)
                if bad:
                    ctx.fail(bad, inp, observed={k: v for k, v in det.items() if k in ("save", "load")})
                # --- histories: the same object written again after its tables were edited
                if not rejected and "ok" in det["save"] and (s % 2 == (0 if style == "full" else 1)):
                    steps = rand_history(rng, aj)
                    hin = {"op": "lmp_history", "a": aj, "style": style, "steps": steps}
                    ctx.case(hin, nontrivial=True)
                    for st in steps:
                        ctx.count("history:" + st["target"])
                    hbad, writes = oracle_history(aj, style, steps, tmpdir)
                    if hbad:
                        ctx.fail(hbad, hin, observed={"last_text": writes[-1][1] if writes else None})
                    elif not oracle_only:
                        for cur, text in writes[1:]:
                            ops.append({"op": "lmp_save", "a": cur, "style": style, "history": True})
                            impls.append({"lines": canon_lines(tokenize(text))})
                            tols.append("lines")
                if oracle_only:
                    continue
                # --- tie: writer
                sv = det["save"]
                ops.append({"op": "lmp_save", "a": aj, "style": style})
                impls.append({"lines": canon_lines(tokenize(sv["ok"]))} if "ok" in sv else sv)
                tols.append("lines")
                if "ok" not in sv:
                    continue
                # --- tie: reader on the real text, with the element guess observed on the real side
                ld = det.get("load") or real_load(sv["ok"], style)
                el = observed_guess(ld["ok"]["types"]["mass"]) if "ok" in ld else None
                ops.append({"op": "lmp_load", "lines": tokenize(sv["ok"]), "style": style, "elements": el})
                impls.append(ld)
                tols.append(None)
                # --- tie: norm = what comes back
                ops.append({"op": "lmp_norm", "a": aj, "style": style, "elements": el})
                impls.append(ld)
                tols.append(None)
                # --- Masses lines in any order: oracle (same structure) and tie
                nt_ = len(aj["types"]["mass"])
                if nt_ >= 2 and (s % 3 == 0 or nt_ >= 10):
                    perm = list(range(nt_))
                    while perm == list(range(nt_)):
                        rng.shuffle(perm)
                    sin = {"op": "lmp_shuffled", "a": aj, "style": style, "perm": perm}
                    ctx.case(sin, nontrivial=True)
                    ctx.count("shuffled-masses")
                    sbad, stext, sres = oracle_shuffled(aj, style, perm)
                    if sbad:
                        ctx.fail(sbad, sin, observed=sres)
                    elif stext is not None:
                        ops.append({"op": "lmp_load", "lines": tokenize(stext), "style": style, "shuffled": True,
                                    "elements": observed_guess(sres["ok"]["types"]["mass"])})
                        impls.append(sres)
                        tols.append(None)
                # --- tie: reader on a malformed variant of the file (the edits need at least one Atoms row)
                if s % 2 == 0 and aj["atoms"]:
                    kind, text = malform(rng, sv["ok"])
                    ctx.count("malformed:" + kind)
                    r = real_load(text, style)
                    el2 = observed_guess(r["ok"]["types"]["mass"]) if "ok" in r else el
                    ops.append({"op": "lmp_load", "lines": tokenize(text), "style": style, "elements": el2, "malformed": kind})
                    impls.append(r)
                    tols.append("malformed")
        # structures from the other readers / constructors
        for kind, arg in foreign_objects():
            for style in STYLES:
                fin = {"op": "lmp_foreign", "kind": kind, "arg": arg, "style": style}
                ctx.case(fin, nontrivial=True)
                ctx.count("foreign:" + kind)
                fbad = oracle_foreign(kind, arg, style, tmpdir)
                if fbad:
                    ctx.fail(fbad, fin)
        if oracle_only:
            return
        # dispatch table (finite: exhaustive)
        for ext in [None, "lmpdat", "cif", "cml", "mol", "xyz", ""]:
            for ft in [None, "lmpdat", "cif", "cml", "mol", "txt"]:
                ops.append({"op": "lmp_dispatch", "ext": ext, "filetype": ft})
                impls.append(real_dispatch(ext, ft, tmpdir))
                tols.append(None)
                ctx.count("dispatch")
    finally:
        shutil.rmtree(tmpdir, ignore_errors=True)
    models = ctx.lean.run(ops)
    for inp, r, m, how in zip(ops, impls, models, tols):
        if how == "lines" and "lines" in m:
            m = {"lines": canon_lines(m["lines"])}
        if how == "malformed":
            if m.get("err") == "domain" or _unfaithful(inp):
                ctx.ambiguous += 1          # outside the modelled domain (float syntaxes, negative ids, odd widths)
                continue
        ctx.compare(inp["op"], inp, r, m)


def _unfaithful(inp):
    """malformed inputs on which the token abstraction is knowingly coarser than the text (none generated today)"""
    return False


def search(ctx):
    """focused search on the real code only (no model): more cases through the independent reader"""
    run(ctx, oracle_only=True)


def replay(ctx, rec):
    inp = rec["input"]
    tmpdir = tempfile.mkdtemp(prefix="c13_")
    try:
        if inp.get("op") == "lmp_history":
            bad, _ = oracle_history(inp["a"], inp["style"], inp["steps"], tmpdir)
        elif inp.get("op") == "lmp_shuffled":
            bad = oracle_shuffled(inp["a"], inp["style"], inp["perm"])[0]
        elif inp.get("op") == "lmp_foreign":
            bad = oracle_foreign(inp["kind"], inp["arg"], inp["style"], tmpdir)
        else:
            bad, _ = oracle_case(inp["a"], inp["style"], tmpdir)
    finally:
        shutil.rmtree(tmpdir, ignore_errors=True)
    return bad is None
