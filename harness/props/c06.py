"""C06 — force-field terms and coefficients of the replacement arrive intact (replace_pattern_in_structure)."""
import copy
import io
import json
import os
import random
from fractions import Fraction

import numpy as np

from .. import core, findlib
from .. import gen_replace_c06 as g

KINDS = g.KINDS
KNOWN_TAG = "pair-coeffs-structure-without-table"
ORPHAN_TAG = "orphan-coefficient-table"
OVERLAP_TAG = "retained-atom-removed-by-another-match"
KNOWN_TAGS = (KNOWN_TAG, ORPHAN_TAG, OVERLAP_TAG)
DOCS = os.path.join(core.REPO, "docs", "examples")
CORPUS = os.path.join(core.VERIF, "corpus", "C06")

RULE = ("cases: (a) synthetic — a periodic structure with 1–4 planted copies of a geometric pattern (+ decoys and bystander "
        "atoms), typed on top: 1–2 atom types per element with own labels, unique charges, groups, optional pair table, "
        "optional extra columns, terms of all four kinds INSIDE / OUTSIDE / ACROSS the copies and on exactly the atoms of "
        "pattern terms forwards and REVERSED; a replacement pattern in the search pattern's frame (retained / changed / "
        "moved / new atoms) with its own types, terms and tables — in ~40 % of the cases a RETAINED atom's pattern type "
        "has the same label and element as the structure's type of that atom but another mass and pair coefficient "
        "(both pair tables present); in ~30 % a same-element pattern atom NUDGED by 1e-4…0.09 Å from a non-kept search "
        "atom (not shared by the documented rule: matched atom removed, pattern atom inserted) carrying pattern terms, with "
        "original terms attached to the matched atom; per term kind one of the 11 compatible table "
        "combinations (all of them for every kind in the thorough tier); replace_all, replace_fraction in {0, .1, .25, .34, .5, .75, .9, 1, 1.5}, ignore flag on/off; (b) chains — a "
        "second and, in about a third of the chains, a third replacement (search = geometry of the previous replacement pattern) applied "
        "to the very Atoms OBJECT the previous replacement returned (re-tagged in place, never rebuilt from its dump), the "
        "LAMMPS file written from that object; "
        "(c) tagged streams for the three known findings: orphan coefficient table, zero replaced matches (fraction 0 / "
        "pattern absent: the type tables are extended all the same), chains and stars of one element whose neighbouring "
        "occurrences overlap so that one match retains an atom another removes, or retain it in different roles; chains / stars whose selected "
        "matches share some but not all REMOVED atoms, ignore flag on; "
        "(d) the documented workflow on docs/examples (uio66.cif, atom types but no pair table, metal centre then linker on "
        "the object the first step returned, parameterised patterns). Oracle on the in-memory result, on the LAMMPS file written by save_lmpdat and read by "
        "an independent reader, and on that file re-loaded by load_lmpdat. Non-trivial = distinct input with >= 1 "
        "replaced match, a pattern term checked, an original term surviving and an original term removed or overridden.")

REQUIRED = ("every pattern term exactly once per replaced match between the corresponding atoms with the pattern's "
            "coefficient text; pattern atoms carry the pattern's label/element/mass/pair coefficient (inserted ones its "
            "charge and group); original terms touching no removed atom survive with their text unless overridden; "
            "no other terms")


def norm(s):
    return None if s is None else " ".join(str(s).split())


# ------------------------------------------------------------------ views: the result as the oracle sees it

class View:
    """atoms: [dict(q=Fraction, ty=int, g=int, pos=[float,float,float])]; terms: {kind: [(tuple, ty)]};
    tables: {kind: {id: text}} + label / elem / mass / pair as {id: value}"""

    def __init__(self, source):
        self.source = source
        self.atoms = []
        self.terms = {k: [] for k in KINDS}
        self.tables = {k: {} for k in KINDS}
        self.label, self.elem, self.mass, self.pair = {}, {}, {}, {}

    def coeff(self, kind, ty):
        return norm(self.tables[kind].get(ty))


def view_from_canon(j, source="memory"):
    v = View(source)
    for a in j["atoms"]:
        v.atoms.append({"q": Fraction(core.unq(a["q"])), "ty": a["ty"], "g": a["g"],
                        "pos": [float(core.unq(x)) for x in a["pos"]]})
    for k in KINDS:
        v.terms[k] = [(tuple(t["a"]), t["ty"]) for t in j["terms"][k]]
        v.tables[k] = {i: s for i, s in enumerate(j["types"][k])}
    v.label = {i: s for i, s in enumerate(j["types"]["label"])}
    v.elem = {i: s for i, s in enumerate(j["types"]["elem"])}
    v.mass = {i: float(core.unq(s)) for i, s in enumerate(j["types"]["mass"])}
    v.pair = {i: s for i, s in enumerate(j["types"]["pair"])}
    return v


SECTIONS = {"Masses": "mass", "Pair Coeffs": "pair", "Bond Coeffs": "bond", "Angle Coeffs": "angle",
            "Dihedral Coeffs": "dihedral", "Improper Coeffs": "improper", "Atoms": "atoms", "Bonds": "bond_rows",
            "Angles": "angle_rows", "Dihedrals": "dihedral_rows", "Impropers": "improper_rows"}


def read_lammps_data(text):
    """INDEPENDENT mini-reader of the LAMMPS data format (full atom style): ids are taken from the FILE (1-based),
    nothing is inferred from order. Returns a View (0-based ids) or raises ValueError."""
    v = View("file")
    section = None
    atoms = {}
    rows = {k: {} for k in KINDS}
    for raw in text.split("\n")[1:]:
        body, _, comment = raw.partition("#")
        body = body.strip()
        if body in SECTIONS:
            section = SECTIONS[body]
            continue
        if not body:
            continue
        tok = body.split()
        if section is None:
            continue                   # header counts / box
        if not tok[0].lstrip("-").isdigit():
            raise ValueError("unexpected line in section %s: %r" % (section, raw))
        i = int(tok[0]) - 1
        if section == "mass":
            if i in v.mass:
                raise ValueError("duplicate mass id")
            v.mass[i] = float(tok[1])
            v.label[i] = comment.strip() if comment else None
        elif section == "pair":
            v.pair[i] = raw.strip().split(None, 1)[1] if len(tok) > 1 else ""
        elif section in KINDS:
            v.tables[section][i] = raw.strip().split(None, 1)[1] if len(tok) > 1 else ""
        elif section == "atoms":
            atoms[i] = {"g": int(tok[1]) - 1, "ty": int(tok[2]) - 1, "q": float(tok[3]),
                        "pos": [float(tok[4]), float(tok[5]), float(tok[6])]}
        elif section.endswith("_rows"):
            k = section[:-5]
            rows[k][i] = (tuple(int(x) - 1 for x in tok[2:]), int(tok[1]) - 1)
    if sorted(atoms) != list(range(len(atoms))):
        raise ValueError("atom ids are not 1..n")
    for i in range(len(atoms)):
        a = atoms[i]
        qq = Fraction(round(a["q"] * 64), 64)
        if abs(float(qq) - a["q"]) > 2e-6:
            raise ValueError("charge %r is not a tag" % a["q"])
        v.atoms.append({"q": qq, "ty": a["ty"], "g": a["g"], "pos": a["pos"]})
    for k in KINDS:
        v.terms[k] = [rows[k][i] for i in sorted(rows[k])]
    return v


# ------------------------------------------------------------------ the oracle (from the property text)

def quat_matrix(q):
    x, y, z, w = [float(core.unq(v)) for v in q]
    n = x * x + y * y + z * z + w * w
    return np.array([[w * w + x * x - y * y - z * z, 2 * (x * y - z * w), 2 * (x * z + y * w)],
                     [2 * (x * y + z * w), w * w - x * x + y * y - z * z, 2 * (y * z - x * w)],
                     [2 * (x * z - y * w), 2 * (y * z + x * w), w * w - x * x - y * y + z * z]]) / n


def elements_of(j):
    return [j["types"]["elem"][a["ty"]] for a in j["atoms"]]


def fpos(j):
    return [np.array([float(core.unq(v)) for v in a["pos"]]) for a in j["atoms"]]


def unchanged_pairs(pj, rj):
    """replacement-pattern atom -> search-pattern atom it is identified with (same element, same place)"""
    pe, re_ = elements_of(pj), elements_of(rj)
    pp, rp = fpos(pj), fpos(rj)
    out = {}
    for i in range(len(rp)):
        for j in range(len(pp)):
            if re_[i] == pe[j] and np.linalg.norm(pp[j] - rp[i]) < 1e-5:
                out[i] = j
                break
    return out


def text_of(j, kind, ty):
    t = j["types"][kind]
    return norm(t[ty]) if ty < len(t) else None


def canon_key(tup):
    tup = tuple(tup)
    return min(tup, tuple(reversed(tup)))


def pair_clause(sj, rj):
    """'check' | 'known' (structure has atom types but NO pair table, pattern has one) | 'skip' (structure's pair
    table does not cover its types: not internally consistent for this clause)"""
    ns, nps = len(sj["types"]["elem"]), len(sj["types"]["pair"])
    if nps == 0:
        return "known" if (rj["types"]["pair"] and ns > 0) else "check"
    return "check" if nps == ns else "skip"


def orphan_clause(sj, rj, kind):
    """the input class of the known finding C06-orphan-coefficient-table: the structure has terms of the kind but no
    coefficient table, the pattern has a coefficient table of the kind but no terms of it"""
    return bool(sj["terms"][kind]) and not sj["types"][kind] and bool(rj["types"][kind]) and not rj["terms"][kind]


def oracle(case, used, view):
    """the property, evaluated on one view of the result. Returns (failures, stats); a failure is
    (what, observed, tags)."""
    sj, pj, rj, opts = case["s"], case["p"], case["r"], case["opts"]
    fails, stats = [], {"pattern_terms": 0, "old_kept": 0, "old_gone": 0, "old_overridden": 0, "inserted": 0,
                        "retained": 0, "matches": len(used)}
    src = view.source

    def fail(what, observed=None, tags=()):
        fails.append(("[%s] %s" % (src, what), observed, list(tags)))

    s_q = [Fraction(core.unq(a["q"])) for a in sj["atoms"]]
    r_q = [Fraction(core.unq(a["q"])) for a in rj["atoms"]]
    s_of_q = {c: i for i, c in enumerate(s_q)}
    r_of_q = {c: i for i, c in enumerate(r_q)}
    pairs = {} if opts.get("replace_all") else unchanged_pairs(pj, rj)
    nr = len(rj["atoms"])
    removed = set()
    ident_s = []          # per match: {pattern atom: structure atom} for retained atoms
    for m in used:
        keep = {i: m["idx"][j] for i, j in pairs.items()} if nr else {}
        ident_s.append(keep)
        removed |= set(m["idx"]) - set(keep.values())
    # --- who is who in the result
    by_q = {}
    for x, a in enumerate(view.atoms):
        by_q.setdefault(a["q"], []).append(x)
    ident = {}            # result index -> ("s", i) | ("r", k, i)
    where_s = {}
    for c, xs in by_q.items():
        if c in s_of_q:
            i = s_of_q[c]
            if i in removed:
                fail("an atom removed by the replacement is still present", {"structure_atom": i})
            if len(xs) != 1:
                fail("a structure atom appears %d times in the result" % len(xs), {"structure_atom": i})
            ident[xs[0]] = ("s", i)
            where_s[i] = xs[0]
        elif c not in r_of_q:
            fail("an atom of the result carries neither a structure charge nor a pattern charge (inserted atoms must "
                 "carry the pattern's charge)", {"charge": str(c), "result_atoms": xs[:4]})
    for i in range(len(s_q)):
        if i not in removed and i not in where_s:
            fail("an atom that no match removes is missing from the result", {"structure_atom": i})
    cell = np.array([[float(core.unq(v)) for v in row] for row in sj["cell"]]) if sj.get("cell") else None
    cinv = np.linalg.inv(cell) if cell is not None else None
    p0 = fpos(pj)[0] if pj["atoms"] else np.zeros(3)
    rpos = fpos(rj)
    where_r = {}
    for i in range(nr):
        if i in pairs:
            continue
        cands = list(by_q.get(r_q[i], []))
        if len(cands) != len(used):
            fail("pattern atom %d is inserted %d times for %d replaced matches" % (i, len(cands), len(used)),
                 {"pattern_atom": i})
        for k, m in enumerate(used):
            if not cands:
                break
            R = quat_matrix(m["quat"])
            want = R.dot(rpos[i] - p0) + np.array([float(core.unq(v)) for v in m["pos"][0]])

            def dist(x):
                d = np.array(view.atoms[x]["pos"]) - want
                if cinv is not None:
                    f = d.dot(cinv)
                    d = (f - np.round(f)).dot(cell)
                return float(np.linalg.norm(d))
            best = min(cands, key=dist)
            cands.remove(best)
            ident[best] = ("r", k, i)
            where_r[(k, i)] = best
            stats["inserted"] += 1

    def where(k, i):
        if i in ident_s[k]:
            return where_s.get(ident_s[k][i])
        return where_r.get((k, i))

    # --- atoms taken over from the pattern
    pclause = pair_clause(sj, rj)
    # known finding C06-retained-atom-removed-by-another-match (the overlap test of the code looks at removals only):
    #  * STOLEN: an atom that match k retains is removed by another selected match -> it is gone, its payload and every
    #    pattern term of match k through it are missing;
    #  * CONTESTED: overlapping matches retain the same atom in roles with different pattern types (or put different
    #    terms on the same retained atoms) -> the last writer wins, the clause fails for the other match.
    # Exactly these failures carry OVERLAP_TAG; everything else stays untagged.
    claims = {}
    for k in range(len(used)):
        for i, v in ident_s[k].items():
            claims.setdefault(v, set()).add(rj["atoms"][i]["ty"])
    contested = set(v for v, tys in claims.items() if len(tys) > 1)
    if contested:
        stats["contested"] = len(contested)

    def stolen(k, i):
        """pattern atom i of match k is identified with a structure atom that another selected match removes (and
        that is indeed absent from the result)"""
        v = ident_s[k].get(i)
        return v is not None and v in removed and v not in where_s
    for k, m in enumerate(used):
        for i in range(nr):
            x = where(k, i)
            if x is None:
                if stolen(k, i):
                    stats["stolen"] = stats.get("stolen", 0) + 1
                    fail("retained pattern atom is missing (payload missing): the atom its match retains is removed by "
                         "another selected match", {"match": k, "pattern_atom": i, "structure_atom": ident_s[k][i]},
                         tags=[OVERLAP_TAG])
                continue
            others = set()
            if ident_s[k].get(i) in contested:
                others = claims[ident_s[k][i]] - {rj["atoms"][i]["ty"]}

            def otag(field, got):
                """the value found is the one another overlapping match's role gives this atom"""
                for t in others:
                    tab = rj["types"][field]
                    alt = tab[t] if t < len(tab) else None
                    if field == "mass":
                        if got is not None and alt is not None and abs(got - float(core.unq(alt))) <= 1e-5 * max(1.0, abs(got)):
                            return [OVERLAP_TAG]
                    elif norm(alt) == norm(got):
                        return [OVERLAP_TAG]
                return []
            a, ra = view.atoms[x], rj["atoms"][i]
            rt = ra["ty"]
            retained = i in ident_s[k]
            stats["retained"] += 1 if retained else 0
            what = "retained" if retained else "inserted"
            if view.label.get(a["ty"]) != rj["types"]["label"][rt]:
                fail("%s pattern atom does not carry the pattern's type label" % what,
                     {"match": k, "pattern_atom": i, "got": view.label.get(a["ty"]), "want": rj["types"]["label"][rt]},
                     tags=otag("label", view.label.get(a["ty"])))
            if view.elem and view.elem.get(a["ty"]) != rj["types"]["elem"][rt]:
                fail("%s pattern atom does not carry the pattern's element" % what,
                     {"match": k, "pattern_atom": i, "got": view.elem.get(a["ty"]), "want": rj["types"]["elem"][rt]},
                     tags=otag("elem", view.elem.get(a["ty"])))
            wm = float(core.unq(rj["types"]["mass"][rt]))
            gm = view.mass.get(a["ty"])
            if gm is None or abs(gm - wm) > 1e-5 * max(1.0, abs(wm)):
                fail("%s pattern atom does not carry the pattern's mass" % what,
                     {"match": k, "pattern_atom": i, "got": gm, "want": wm}, tags=otag("mass", gm))
            if pclause != "skip":
                wp = norm(rj["types"]["pair"][rt]) if rt < len(rj["types"]["pair"]) else None
                gp = norm(view.pair.get(a["ty"]))
                if gp != wp:
                    fail("%s pattern atom does not resolve to the pattern's pair coefficient" % what,
                         {"match": k, "pattern_atom": i, "type_id": a["ty"], "got": gp, "want": wp},
                         tags=[KNOWN_TAG] if pclause == "known" else otag("pair", view.pair.get(a["ty"])))
            if not retained:
                if a["g"] != ra["g"]:
                    fail("inserted atom does not carry the pattern's group",
                         {"match": k, "pattern_atom": i, "got": a["g"], "want": ra["g"]})
    if pclause == "known":
        # identification of the known pair-coefficient finding also when NO atom is taken over (zero replaced matches:
        # extend_types runs before the loop): an original atom, which had no pair coefficient, now resolves to one
        taken = set(v for keep in ident_s for v in keep.values())
        for i, x in sorted(where_s.items()):
            if i not in taken and norm(view.pair.get(view.atoms[x]["ty"])) is not None:
                fail("original atom of a structure WITHOUT pair table now resolves to a pair coefficient of the pattern",
                     {"structure_atom": i, "type_id": view.atoms[x]["ty"], "got": norm(view.pair.get(view.atoms[x]["ty"]))},
                     tags=[KNOWN_TAG])
                break
    # --- terms: what must be there
    for kind in KINDS:
        want_pat = {}          # key -> [(text, match)] — several entries when overlapping matches sit on the same atoms
        for k, m in enumerate(used):
            for u in rj["terms"][kind]:
                xs = [where(k, i) for i in u["a"]]
                if any(x is None for x in xs):
                    missing = [i for i, x in zip(u["a"], xs) if x is None]
                    if all(stolen(k, i) for i in missing):
                        stats["pattern_terms"] += 1
                        fail("%s of the pattern is missing: one of its atoms is retained by its match and removed by "
                             "another selected match" % kind, {"match": k, "pattern_atoms": u["a"]}, tags=[OVERLAP_TAG])
                    continue      # otherwise its atoms were already reported missing
                key = canon_key(xs)
                want_pat.setdefault(key, []).append((text_of(rj, kind, u["ty"]), k))
                stats["pattern_terms"] += 1
        want_old = {}
        for t in sj["terms"][kind]:
            if set(t["a"]) & removed:
                stats["old_gone"] += 1
                continue
            xs = [where_s.get(i) for i in t["a"]]
            if any(x is None for x in xs):
                continue
            key = canon_key(xs)
            if key in want_pat:
                stats["old_overridden"] += 1
                continue
            want_old.setdefault(key, []).append(text_of(sj, kind, t["ty"]))
            stats["old_kept"] += 1
        got = {}
        for tup, ty in view.terms[kind]:
            got.setdefault(canon_key(tup), []).append(view.coeff(kind, ty))

        def describe(key):
            return [list(ident.get(x, ("?", x))) for x in key]
        for key, claims_t in want_pat.items():
            have = got.get(key, [])
            texts = set(t for t, _ in claims_t)
            if len(have) != 1:
                fail("%s of the pattern appears %d times (must be exactly once) between the corresponding atoms"
                     % (kind, len(have)), {"match": claims_t[0][1], "atoms": describe(key), "texts": have})
            elif have[0] not in texts:
                fail("%s of the pattern does not resolve to the pattern's coefficient text" % kind,
                     {"match": claims_t[0][1], "atoms": describe(key), "got": have[0], "want": sorted(map(str, texts))})
            elif len(texts) > 1:
                # overlapping matches define DIFFERENT terms on the same (retained) atoms: one writer wins
                stats["contested_terms"] = stats.get("contested_terms", 0) + 1
                for txt, k in claims_t:
                    if txt != have[0]:
                        fail("%s of the pattern does not resolve to the pattern's coefficient text: an overlapping "
                             "selected match puts a different term on the same atoms" % kind,
                             {"match": k, "atoms": describe(key), "got": have[0], "want": txt}, tags=[OVERLAP_TAG])
        for key, txts in want_old.items():
            have = got.get(key, [])
            if sorted(map(str, have)) != sorted(map(str, txts)):
                if len(have) < len(txts):
                    fail("original %s touching no removed atom (and not overridden) is missing" % kind,
                         {"atoms": describe(key), "got": have, "want": txts})
                elif len(have) > len(txts):
                    fail("original %s appears more often than before" % kind,
                         {"atoms": describe(key), "got": have, "want": txts})
                else:
                    # known finding: the structure's ids had NO text; an unused entry of the pattern's table now sits
                    # at such an id.  Only exactly this is attributed to it.
                    unused = set(norm(t) for t in rj["types"][kind])
                    orphan = (orphan_clause(sj, rj, kind) and all(t is None for t in txts)
                              and all(h is None or h in unused for h in have))
                    fail("original %s no longer resolves to its original coefficient text" % kind,
                         {"atoms": describe(key), "got": have, "want": txts}, tags=[ORPHAN_TAG] if orphan else [])
        for key, have in got.items():
            if key not in want_pat and key not in want_old:
                fail("a %s exists that is neither a pattern term of a replaced match nor a surviving original term"
                     % kind, {"atoms": describe(key), "texts": have})
    return fails, stats


# ------------------------------------------------------------------ running one case on the real code

def lower_triangular(cellj):
    if cellj is None:
        return False
    c = [[float(core.unq(v)) for v in row] for row in cellj]
    return c[0][1] == 0 and c[0][2] == 0 and c[1][2] == 0 and c[0][0] > 0 and c[1][1] > 0 and c[2][2] > 0


def write_lammps(resj, obj=None):
    """the real save_lmpdat on the result; returns text or None when the cell cannot be written in this format.
    `obj`: the Atoms object the replacement returned, when the caller kept it — the file is then written from a deep
    copy of THAT object (not from one rebuilt from its dump; the copy keeps the kept object untouched for the next
    step of a chain)"""
    if not resj["atoms"] or not lower_triangular(resj.get("cell")):
        return None
    a = copy.deepcopy(obj) if obj is not None else core.atoms_from_json(resj)
    f = io.StringIO()
    with core.quiet():
        a.save_lmpdat(f)
    return f.getvalue()


def reload_lammps(text):
    from mofun import Atoms
    try:
        with core.quiet():
            a = Atoms.load_lmpdat(io.StringIO(text))
        return core.canon_atoms(a)
    except Exception:
        return None


def run_real(case, live=None, keep=False):
    """the real replace_pattern_in_structure on one case. `live`: the LIVE Atoms object to use as the structure (the
    object a previous replacement returned — see run_chain) instead of a fresh one built from case["s"]; `keep`: return
    the resulting Atoms object as out["obj"]"""
    o = case["opts"]
    if live is None and not keep:
        return findlib.run_replace(case["s"], case["p"], case["r"], atol=o.get("atol", 0.05), fraction=o.get("fraction", 1.0),
                                   replace_all=o.get("replace_all", False), ignore=o.get("ignore", False), seed=o.get("seed", 0))
    return run_replace_live(live, case["s"], case["p"], case["r"], atol=o.get("atol", 0.05), fraction=o.get("fraction", 1.0),
                            replace_all=o.get("replace_all", False), ignore=o.get("ignore", False), seed=o.get("seed", 0))


def run_replace_live(s, sj, pj, rj, atol=0.05, fraction=1.0, replace_all=False, ignore=False, seed=0):
    """findlib.run_replace with the structure given as a live object: same recording of the matches used, same result
    record, plus out["obj"] = the Atoms object the call returned. `sj` must be the canonical dump of `s` (`s` None:
    a fresh object is built from `sj`)"""
    import mofun.mofun as mm
    if s is None:
        s = core.atoms_from_json(sj)
    p, r = core.atoms_from_json(pj), core.atoms_from_json(rj)
    rec = {}
    real_find = mm.find_pattern_in_structure
    real_sample = random.sample

    def find_wrap(*a, **k):
        out = real_find(*a, **k)
        rec["found"] = ([[int(i) for i in t] for t in out[0]], np.array(out[1], dtype=float).tolist(),
                        [[float(x) for x in qq.as_quat()] for qq in out[2]])
        return out

    def sample_wrap(pop, k):
        out = real_sample(pop, k)
        rec["sample"] = list(out)
        return out

    mm.find_pattern_in_structure = find_wrap
    random.sample = sample_wrap
    random.seed(seed)
    np.random.seed(seed % (2 ** 32))
    try:
        res = core.result_of(lambda: mm.replace_pattern_in_structure(
            s, p, r, replace_fraction=fraction, atol=atol, return_num_matches=True, replace_all=replace_all,
            ignore_atoms_should_not_be_deleted_twice=ignore))
    finally:
        mm.find_pattern_in_structure = real_find
        random.sample = real_sample
    out = {"found": rec.get("found"), "sample": rec.get("sample")}
    if "ok" in res:
        new, n = res["ok"]
        out["ok"] = core.canon_atoms(new)
        out["n"] = int(n)
        out["obj"] = new
    else:
        out["err"] = res["err"]
    out["inputs_unchanged"] = (core.same(core.canon_atoms(s), sj) is None and core.same(core.canon_atoms(p), pj) is None
                               and core.same(core.canon_atoms(r), rj) is None)
    if out["found"] is not None:
        idx, pos, quats = out["found"]
        order = out["sample"] if out["sample"] is not None else list(range(len(idx)))
        out["used"] = [{"idx": idx[i], "pos": [[core.q(x) for x in pp] for pp in pos[i]], "quat": [core.q(x) for x in quats[i]]}
                       for i in order]
    return out


# ------------------------------------------------------------------ chains on the LIVE object

def retag_live(a):
    """fresh unique positive charge tags k/64 on a live Atoms object, in place (what g.retag does on the dump): makes
    the object a previous replacement RETURNED usable as the tagged structure of the next one. Assigning charges is
    ordinary use of the public per-atom array; nothing else of the object is touched."""
    a.charges[:] = [float(Fraction(i + 1, 64)) for i in range(len(a.charges))]
    return a


def chain_input(s0, steps, meta=None):
    """the input of a chain: the first structure and, per step, search pattern / replacement pattern / options. Step
    k+1 is applied to the OBJECT step k returned (re-tagged with retag_live), never to a copy rebuilt from a dump."""
    return {"op": "replace_c06_chain", "s": s0,
            "steps": [{"p": c["p"], "r": c["r"], "opts": c["opts"], "meta": c.get("meta", {})} for c in steps],
            "meta": dict(meta or (steps[-1].get("meta", {}) if steps else {}), chain_steps=len(steps))}


def run_chain(inp):
    """re-runs a whole chain on live objects. Returns [(case, out)] per step reached (case["s"] = dump of the live
    structure the step was applied to)."""
    live, sj, done = None, inp["s"], []
    for n, st in enumerate(inp["steps"]):
        case = {"s": sj, "p": st["p"], "r": st["r"], "opts": st.get("opts", {}), "meta": st.get("meta", {})}
        out = run_real(case, live=live, keep=True)
        done.append((case, out))
        if "ok" not in out:
            break
        live = retag_live(out["obj"])
        sj = core.canon_atoms(live)
    return done


def evaluate(case, out, files=True):
    """all oracles on one real result. Returns (failures, stats, views_used)"""
    if "ok" not in out or out.get("used") is None:
        return [], None, 0
    res = out["ok"]
    used = out["used"]
    fails, stats = oracle(case, used, view_from_canon(res))
    nviews = 1
    if out.get("inputs_unchanged") is False:
        fails.append(("the replacement modified one of its inputs", None, []))
    if files and not any(not set(t) & set(KNOWN_TAGS) for _, _, t in fails):
        try:
            text = write_lammps(res, obj=out.get("obj"))
        except Exception as e:  # noqa
            text = None
            fails.append(("save_lmpdat raised %s on the result" % type(e).__name__, None, []))
        if text is not None:
            try:
                fv = read_lammps_data(text)
                # the element table is not in the file
                f2, _ = oracle(case, used, fv)
                fails += f2
                nviews += 1
            except ValueError as e:
                fails.append(("[file] the written LAMMPS file is not readable: %s" % e, None, []))
            lj = reload_lammps(text)
            if lj is not None and len(lj["atoms"]) == len(res["atoms"]):
                try:
                    lv = view_from_canon(lj, source="load_lmpdat")
                    for a in lv.atoms:
                        a["q"] = Fraction(round(float(a["q"]) * 64), 64)
                    lv.elem = {}
                    f3, _ = oracle(case, used, lv)
                    fails += f3
                    nviews += 1
                except Exception:
                    pass
    return fails, stats, nviews


def lattice_close(pa, pb, cellf, tol):
    d = np.array(pa) - np.array(pb)
    f = d.dot(np.linalg.inv(np.array(cellf)))
    r = np.round(f)
    return bool(np.max(np.abs((f - r).dot(np.array(cellf)))) < tol), bool(np.any(r != 0))


def snap(impl, model, cell, ctx, tol=1e-7):
    """an inserted atom that lands on a cell face may be wrapped to either side by the float code: compare such a
    position modulo a lattice vector (counted)"""
    if "ok" not in impl or "ok" not in model or cell is None:
        return impl
    ia, ma = impl["ok"]["atoms"], model["ok"]["atoms"]
    if len(ia) != len(ma):
        return impl
    cellf = [[float(core.unq(v)) for v in row] for row in cell]
    out = dict(impl["ok"])
    out["atoms"] = []
    for a, b in zip(ia, ma):
        pa = [float(core.unq(v)) for v in a["pos"]]
        pb = [float(core.unq(v)) for v in b["pos"]]
        if max(abs(x - y) for x, y in zip(pa, pb)) > tol:
            ok, shifted = lattice_close(pa, pb, cellf, 1e-6)
            if ok and shifted:
                ctx.count("tie:face-wrap-modulo-lattice")
                a = dict(a, pos=b["pos"])
        out["atoms"].append(a)
    return {"ok": out}


def case_input(case):
    return {"op": "replace_c06", "s": case["s"], "p": case["p"], "r": case["r"], "opts": case["opts"],
            "meta": case.get("meta", {})}


class Batch:
    def __init__(self, ctx, oracle_only):
        self.ctx, self.oracle_only = ctx, oracle_only
        self.ops, self.impls, self.inps, self.cells = [], [], [], []

    def do(self, case, files=True, live=None, keep=False, inp=None):
        """run the real code on `case`, evaluate the oracles, queue the model op. Returns the real outcome.
        `live` / `keep`: see run_real; `inp`: the input to record for this case when it is a step of a chain (the whole
        chain from its first structure: chain_input), default the case itself."""
        ctx = self.ctx
        out = run_real(case, live=live, keep=keep)
        inp = inp or case_input(case)
        fails, stats, nviews = evaluate(case, out, files=files)
        meta = case.get("meta", {})
        nontrivial = bool(stats and stats["matches"] and stats["pattern_terms"] and stats["old_kept"]
                          and (stats["old_gone"] or stats["old_overridden"]))
        ctx.case(inp if len(case["s"]["atoms"]) < 60 else {"op": "replace_c06", "meta": meta, "sha": core.sha(inp)},
                 nontrivial=nontrivial)
        ctx.count("cell:%s" % meta.get("cell"))
        ctx.count("pattern:%s" % meta.get("pattern"))
        for k in KINDS:
            if meta.get("combo"):
                ctx.count("combo:%s:%s" % (k, meta["combo"][k]))
        if "ok" not in out:
            ctx.count("raised:%s" % out.get("err"))
        if meta.get("same_label_types") and not case["opts"].get("replace_all"):
            ctx.count("same-label-reparameterised-retained-types", meta["same_label_types"])
            ctx.count("cases-with-same-label-retained-type")
        if meta.get("nudged_atoms") and not case["opts"].get("replace_all"):
            ctx.count("cases-with-nudged-same-element-atom")
            ctx.count("original-terms-on-nudged-partner", meta.get("terms_on_nudged_partner", 0))
        if stats:
            ctx.count("matches", stats["matches"])
            ctx.count("pattern-terms-checked", stats["pattern_terms"])
            ctx.count("old-terms-kept", stats["old_kept"])
            ctx.count("old-terms-touching-removed", stats["old_gone"])
            ctx.count("old-terms-overridden", stats["old_overridden"])
            ctx.count("atoms-inserted", stats["inserted"])
            ctx.count("atoms-retained", stats["retained"])
            ctx.count("views", nviews)
            for c in ("stolen", "contested", "contested_terms"):
                if stats.get(c):
                    ctx.count("overlap:%s" % c, stats[c])
            if case["opts"].get("replace_all"):
                ctx.count("replace_all")
            ctx.count("pair:%s" % pair_clause(case["s"], case["r"]))
            for k in KINDS:
                if orphan_clause(case["s"], case["r"], k):
                    ctx.count("orphan-table-input:%s" % k)
        seen = set()
        for what, observed, tags in fails:
            key = tuple(sorted(set(tags) & set(KNOWN_TAGS)))
            if key in seen:
                continue           # one record per class (known finding / anything else) and case
            seen.add(key)
            ctx.fail(what, inp, observed=observed, required=REQUIRED, tags=tags)
        if not self.oracle_only and out.get("used") is not None:
            self.ops.append(findlib.replace_op(case["s"], case["p"], case["r"], out["used"],
                                               case["opts"].get("replace_all", False), case["opts"].get("ignore", False)))
            self.impls.append({"ok": out["ok"]} if "ok" in out else {"err": out.get("err")})
            self.inps.append(inp)
            self.cells.append(case["s"].get("cell"))
        return out

    def flush(self):
        if self.oracle_only or not self.ops:
            return
        models = self.ctx.lean.run(self.ops)
        for op, impl, inp, cell, m in zip(self.ops, self.impls, self.inps, self.cells, models):
            self.ctx.compare("replace", inp, snap(impl, m, cell, self.ctx), m)
        self.ops, self.impls, self.inps, self.cells = [], [], [], []


# ------------------------------------------------------------------ the documented workflow (docs/examples)

def tagged_from_file(name, sign=1):
    """a docs/examples file as canonical JSON with unique charge tags (the files' own charges repeat)"""
    from mofun import Atoms
    with core.quiet():
        a = Atoms.load(os.path.join(DOCS, name))
    j = core.canon_atoms(a)
    for i, row in enumerate(j["atoms"]):
        row["q"] = core.q(Fraction(sign * (i + 1), 64))
    return j


def cif_steps():
    """docs Example 3: structure from CIF (atom types, NO pair table), metal centre then linker"""
    return [("uio66-metal-center.cml", "uio66-metal-center-parameterized.lmpdat"),
            ("uio66-linker-Zr.cml", "uio66-linker-Zr-parameterized.lmpdat")]


def cif_case(sj, search, repl, step):
    return {"s": sj, "p": tagged_from_file(search, sign=-1), "r": tagged_from_file(repl, sign=-1),
            "opts": {"atol": 0.05, "fraction": 1.0, "replace_all": False, "ignore": False, "seed": 0},
            "meta": {"pattern": "docs:" + repl, "cell": "cif", "workflow": "cif", "step": step}}


def cif_workflow(batch, steps=None):
    """every step is applied to the OBJECT the previous step returned (as a user's script does)"""
    sj = tagged_from_file("uio66.cif")
    s0, live, cases = sj, None, []
    for n, (search, repl) in enumerate(steps or cif_steps()):
        case = cif_case(sj, search, repl, n + 1)
        cases.append(case)
        out = batch.do(case, files=True, live=live, keep=True, inp=chain_input(s0, cases) if n else None)
        batch.ctx.count("cif-workflow-step")
        if "ok" not in out:
            break
        live = retag_live(out["obj"])
        sj = core.canon_atoms(live)


# ------------------------------------------------------------------ streams

def corpus_cases():
    out = []
    if os.path.isdir(CORPUS):
        for f in sorted(os.listdir(CORPUS)):
            if f.endswith(".json"):
                out.append(json.load(open(os.path.join(CORPUS, f))))
    return out


def case_of_record(rec):
    inp = rec["input"] if "input" in rec else rec
    if inp.get("kind") == "cif":
        sj = tagged_from_file(inp["structure"])
        return cif_case(sj, inp["search"], inp["replace"], 1)
    return {"s": inp["s"], "p": inp["p"], "r": inp["r"], "opts": inp.get("opts", {}), "meta": inp.get("meta", {})}


def run(ctx, oracle_only=False):
    ctx.rule = RULE
    rng = ctx.rng
    ctx.notes.append("the input class 'structure has terms of a kind but no coefficient table + pattern has a coefficient "
                     "table of that kind but no terms' (inside the compatibility clause) is generated only by its own "
                     "stream and by corpus/C06/orphan-coefficient-table.json; failures of exactly the clause 'surviving "
                     "original term still resolves to none' there carry the tag orphan-coefficient-table (known finding "
                     "C06-orphan-coefficient-table; Lean: orphan_table_corner, guard OldResolvable)")
    batch = Batch(ctx, oracle_only)
    # corpus first
    for rec in corpus_cases():
        batch.do(case_of_record(rec))
        ctx.count("corpus")
    # the documented workflow: reproduces the known finding on every run
    cif_workflow(batch)
    if ctx.tier == "thorough" or oracle_only:
        # variant with INSERTED atoms on the real files: the bare linker is searched, the linker with its four Zr
        # neighbours is put in (the Zr atoms of the pattern are new atoms)
        cif_workflow(batch, steps=[("uio66-linker.cml", "uio66-linker-Zr-parameterized.lmpdat")])
    batch.flush()
    # the known finding C06-orphan-coefficient-table: its input class, every kind over time
    north = ctx.n(3, 20)
    start = (ctx.seed + rng.randrange(4)) % 4
    for i in range(north):
        batch.do(g.orphan_case(rng, KINDS[(start + i) % 4]))
        ctx.count("orphan-stream")
        if i % 3 == 2 or i == north - 1:
            # the same two table findings with ZERO replaced matches
            batch.do(g.zero_match_case(rng, KINDS[(start + i) % 4]))
            ctx.count("zero-match-stream")
    # the known finding C06-retained-atom-removed-by-another-match: overlapping neighbouring occurrences
    for i in range(ctx.n(6, 40)):
        batch.do(g.overlap_case(rng))
        ctx.count("overlap-stream")
    # selected matches whose REMOVAL sets overlap partially, ignore flag (mostly) on: every atom removed by any selected
    # match is gone exactly once, the terms touching it are gone, each match's pattern terms are there
    for i in range(ctx.n(8, 60)):
        out = batch.do(g.partial_overlap_case(rng))
        ctx.count("partial-overlap-stream")
        if "ok" in out and out.get("n", 0) >= 2:
            ctx.count("partial-overlap-stream:replaced>=2-matches")
    batch.flush()
    # every compatible combination for every kind (thorough: all; quick: a rotating sample)
    combos = []
    if ctx.tier == "thorough" or oracle_only:
        for name in g.COMBO_NAMES:
            for k in KINDS:
                for rep in range(2):
                    c = {kk: rng.choice(g.COMBO_NAMES) for kk in KINDS}
                    c[k] = name
                    combos.append(c)
    else:
        for name in g.COMBO_NAMES:
            c = {kk: rng.choice(g.COMBO_NAMES) for kk in KINDS}
            c[rng.choice(KINDS)] = name
            combos.append(c)
    nrand = ctx.n(450, 4000)
    nchain = ctx.n(60, 500)
    todo = [("combo", c) for c in combos] + [("rand", None)] * nrand
    firsts, nfirst = [], 0
    for i, (kind, c) in enumerate(todo):
        case = g.synthetic_case(rng, combos=c, big=(ctx.tier == "thorough"))
        want = nfirst < nchain
        out = batch.do(case, keep=want)
        if want and "ok" in out and out.get("n", 0) > 0 and len(case["r"]["atoms"]) > 0:
            firsts.append((case, out))
            nfirst += 1
        if len(firsts) >= 20:
            live_chains(batch, firsts)
            firsts = []
            if oracle_only and unknown_failure(ctx):
                return
        if len(batch.ops) >= 400:
            batch.flush()
    live_chains(batch, firsts)
    batch.flush()


def unknown_failure(ctx):
    return any(not set(f.get("tags", [])) & set(KNOWN_TAGS) for f in ctx.failures)


def live_chains(batch, firsts):
    """chains: a second (and in about a third of the chains a third) replacement applied to the OBJECT the previous
    replacement returned — re-tagged in place, not rebuilt from its dump —, as in the documented 'metal centre, then
    linker' workflow. Each step is judged by the single-step oracle against the dump of the live object it was given."""
    ctx, rng = batch.ctx, batch.ctx.rng
    for case, out in firsts:
        s0, cases, sides = case["s"], [case], ["t", "u"]
        for depth in range(2 if rng.random() < 0.65 else 3)[1:]:
            live = retag_live(out["obj"])
            sj = core.canon_atoms(live)
            nxt = g.chained_second(rng, cases[-1], sj, side=sides[depth - 1], step=depth + 1)
            if nxt is None:
                break
            cases.append(nxt)
            out = batch.do(nxt, live=live, keep=True, inp=chain_input(s0, cases))
            ctx.count("chain-step-%d-on-live-object" % (depth + 1))
            if not ("ok" in out and out.get("n", 0) > 0 and len(nxt["r"]["atoms"]) > 0):
                break


def search(ctx):
    """focused search on the real code only (no model): the thorough stream through the oracles"""
    saved = ctx.tier
    ctx.tier = "thorough"
    try:
        run(ctx, oracle_only=True)
    finally:
        ctx.tier = saved


def replay(ctx, rec):
    inp = rec["input"] if "input" in rec else rec
    if inp.get("op") == "replace_c06_chain":
        # a chain passes through steps that may show a KNOWN finding on the way (e.g. the CIF workflow's pair table):
        # unless the record itself is about a known finding, only failures not attributed to one count
        about_known = bool(set(rec.get("tags") or []) & set(KNOWN_TAGS))
        for case, out in run_chain(inp):
            fails, _, _ = evaluate(case, out)
            if any(about_known or not set(t) & set(KNOWN_TAGS) for _, _, t in fails):
                return False
        return True
    case = case_of_record(rec)
    out = run_real(case)
    fails, _, _ = evaluate(case, out)
    return not fails
