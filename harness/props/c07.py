"""C07 — overlapping replacements are refused, never silently corrupted
(mofun.replace_pattern_in_structure, AtomsShouldNotBeDeletedTwice, ignore_atoms_should_not_be_deleted_twice).

Structures are built so that pattern occurrences SHARE atoms: chains A-B-A-B-A (consecutive matches share an end atom
that plays a different role in each), homonuclear chains (consecutive matches share two atoms), stars (all matches
share the centre in the same role), two triangles on a common edge, a 4-ring (two matches share both end atoms),
disjoint copies as control.  The replacement decides, per search-pattern atom, whether it is retained (copied verbatim:
same element, same coordinates), dropped, or replaced by another element at the same place; so a shared structure atom
is retained by both matches, removed by one, or removed by both.

Oracle (real code only, from the property text; independent of the model): from the recorded selected matches and the
atoms the two patterns share, D_m = atoms of match m that occur only in the search pattern.  The dedicated error must be
raised  <=>  ignore is off, the replacement is non-empty and two selected matches have D_i & D_j != {};  when it is
raised no structure comes back; otherwise a structure comes back in which every atom of some D_m is gone, every other
atom of the input is present exactly once (atoms carry unique charges) and the atom count is N - |U D_m| + M x (atoms only
in the replacement); the reported count is the number of selected matches.
With a fraction < 1 the selected matches are the ones the call drew (random.sample observed); when a call ends without
having drawn a selection, the property is evaluated over EVERY selection of an admissible size (fraction x found, rounded
to a nearest integer) by brute force: the overlap error is wrong if no such selection contains two matches removing the
same atom, a returned structure is wrong if every such selection does; anything in between is counted as ambiguous.
Thin-cell cases carry the occurrences of the search pattern BY CONSTRUCTION (sets of distinct atoms, confirmed by an own
brute-force enumeration when the case is generated).  When the matches the call worked on are not these, the property is
evaluated on the true occurrences (`by_construction`): no overlap error when no two occurrences have an atom in common
(or ignored / empty replacement), every input atom at most once and every atom outside the occurrences exactly once in a
returned structure, atom counts N + k x (|replacement| - |search|) for an admissible k.
Tie: the same call through the Lean model `replaceCore` on the matches the code used: same outcome (structure / overlap
error) and, on success, the same canonical structure (positions within 1e-7)."""
import itertools
import multiprocessing
import os
from fractions import Fraction

import numpy as np

from .. import core, findlib as fl, gen_replace_c04 as g
from . import c04

RULE = ("pattern copies sharing atoms: hetero chains A-B-A-B-.. with unequal / equal spacings (2-4 copies), homonuclear chains "
        "(2-4 copies, neighbours share two atoms), stars of 2-4 two- or three-atom arms on a common centre, two triangles "
        "on a common edge, a 4-ring, a chain that closes on itself THROUGH the periodic boundary (cell edge = chain period; 2-4 copies), disjoint copies; THIN cells - one lattice vector as long (exactly or to within 1/64 A) as the distance between two same-element atoms of the search pattern, so that an atom and its own periodic image are a pattern distance apart: pattern A-A (1-3 occurrences as a chain sharing atoms or as pairs apart) or a right-angled A,A,B (one, two apart, or a fan of two on a common corner), planted in the plane perpendicular to the thin vector, orthorhombic (any axis) / LAMMPS-triclinic, occurrences known by construction and confirmed by brute force over distinct atoms at 0.25 A; random rigid pose and origin (also across cell faces) in "
        "orthorhombic / triclinic / rotated cells, bystander atoms; replacement: every subset of search atoms retained, "
        "the others dropped, swapped for another element, or kept as the same element NUDGED by 1e-4..0.03 A (not shared by the "
        "documented 1e-5 A rule although within the search tolerance), optional extra atom, EMPTY replacement (plain Atoms(); the search pattern with every atom deleted; zero atoms + type tables; "
        "+ pair / bond coefficient tables); replace_all on/off; "
        "ignore flag on/off; fraction 1 or < 1 (round values, any 64th, k/n and k/n +- 1/(4n) for k = 0..n-1 of the n copies: none, one, "
        "some, all but one of the found matches selected; a dedicated stream of such cases on the overlapping templates, and every "
        "run each carrier with exactly k of n selected); atol in {.05, .02, .1}; return_num_matches on/off. A second stream drives "
        "the same cases (LAMMPS-oriented cells, all matches or -p fraction < 1, no flags) through the command line entry point mofun_cli in-process "
        "(input .lmpdat + .cml patterns written by the harness; exit status, propagated exception and the presence / content of the "
        "output file judged). Thorough: every template x every retained subset x drop/swap x extra x both "
        "flags. Non-trivial = distinct input with >= 2 selected matches that share at least one atom.")

REQUIRED = ("AtomsShouldNotBeDeletedTwice raised (and no structure returned)  <=>  not ignored, replacement non-empty and two "
            "selected matches would remove the same atom; otherwise a structure with every atom removed at most once")

DIRS = [(1, 0, 0), (-1, 0, 0), (0, 1, 0), (0, -1, 0), (0, 0, 1), (0, 0, -1)]
F = Fraction


def _d(rng, lo=9, hi=14):
    return F(rng.randint(lo, hi), 8)          # 1.125 .. 1.75 A


def template(rng, kind, ncopies):
    """(elems, points, (pattern elems, pattern points)); exact rationals"""
    A, B, C = rng.sample(["C", "N", "O", "S", "P"], 3)
    if kind in ("chain", "chain_sym"):
        d1 = _d(rng)
        d2 = d1 if kind == "chain_sym" else d1 + F(rng.randint(2, 4), 8)
        xs, els = [F(0)], [A]
        for _ in range(ncopies):
            xs.append(xs[-1] + d1)
            els.append(B)
            xs.append(xs[-1] + d2)
            els.append(A)
        return els, [(x, F(0), F(0)) for x in xs], ([A, B, A], [(F(0), F(0), F(0)), (d1, F(0), F(0)), (d1 + d2, F(0), F(0))])
    if kind == "ring_pbc":
        # a chain A-B-A-B-... that closes on itself THROUGH the periodic boundary: the cell edge along the chain is
        # exactly ncopies x (d1 + d2), so the last copy ends on the first atom's image; neighbours share an end atom,
        # and with two copies the two matches share BOTH end atoms
        d1 = _d(rng)
        d2 = d1 if rng.random() < 0.4 else d1 + F(rng.randint(2, 4), 8)
        els, xs = [], []
        for i in range(ncopies):
            els += [A, B]
            xs += [(d1 + d2) * i, (d1 + d2) * i + d1]
        return els, [(x, F(0), F(0)) for x in xs], ([A, B, A], [(F(0), F(0), F(0)), (d1, F(0), F(0)), (d1 + d2, F(0), F(0))])
    if kind == "homo":
        d = _d(rng)
        n = ncopies + 2
        return [A] * n, [(d * i, F(0), F(0)) for i in range(n)], ([A, A, A], [(d * i, F(0), F(0)) for i in range(3)])
    if kind in ("star2", "star3"):
        d1, d2 = _d(rng), _d(rng)
        dirs = rng.sample(DIRS, ncopies)
        els, pts = [A], [(F(0), F(0), F(0))]
        for u in dirs:
            els.append(B)
            pts.append(tuple(d1 * c for c in u))
            if kind == "star3":
                els.append(C)
                pts.append(tuple((d1 + d2) * c for c in u))
        if kind == "star2":
            return els, pts, ([A, B], [(F(0), F(0), F(0)), (d1, F(0), F(0))])
        return els, pts, ([A, B, C], [(F(0), F(0), F(0)), (d1, F(0), F(0)), (d1 + d2, F(0), F(0))])
    if kind == "edge":
        a, h = F(12, 8), F(10, 8)
        pat = ([A, B, C], [(F(0), F(0), F(0)), (a, F(0), F(0)), (F(3, 8), h, F(0))])
        return [A, B, C, C], [pat[1][0], pat[1][1], pat[1][2], (F(3, 8), -h, F(0))], pat
    if kind == "ring":
        d = _d(rng)
        return [A, B, A, B], [(F(0), F(0), F(0)), (d, F(0), F(0)), (d, d, F(0)), (F(0), d, F(0))], \
            ([A, B, A], [(F(0), F(0), F(0)), (d, F(0), F(0)), (d, d, F(0))])
    if kind == "disjoint":
        d1, d2 = _d(rng), _d(rng) + F(3, 8)
        els, pts = [], []
        for k in range(ncopies):
            o = F(5) * k
            els += [A, B, C]
            pts += [(o, F(0), F(0)), (o + d1, F(0), F(0)), (o + d1, d2, F(0))]
        return els, pts, ([A, B, C], [(F(0), F(0), F(0)), (d1, F(0), F(0)), (d1, d2, F(0))])
    raise ValueError(kind)


KINDS = ["chain", "chain_sym", "homo", "star2", "star3", "edge", "ring", "disjoint", "ring_pbc", "thin_pair", "thin_L"]
MAXCOPIES = {"chain": 4, "chain_sym": 4, "homo": 4, "star2": 4, "star3": 4, "edge": 2, "ring": 2, "disjoint": 3, "ring_pbc": 4,
             "thin_pair": 3, "thin_L": 2}
MINCOPIES = {"thin_pair": 1, "thin_L": 1}
THIN = ("thin_pair", "thin_L")


def npat_of(kind):
    return 2 if kind in ("star2", "thin_pair") else 3


# ------------------------------------------------------------------ thin cells: a lattice vector as long as the pattern

def occurrences_by_brute_force(elems, pos, cell, pel, ppos, tol):
    """independent enumeration: the sets of DISTINCT structure atoms (each in whichever periodic image) whose mutual
    distances equal the pattern's within `tol`, pattern atom by pattern atom with matching elements.  An atom and its
    own periodic image are one and the same structure atom, so they never stand for two pattern atoms.  (Distances
    alone decide only for planar patterns - the thin-cell patterns are planar.)"""
    pos = np.array(pos, dtype=float)
    cell = np.array(cell, dtype=float)
    n, k = len(elems), len(pel)
    P = np.array([[float(x) for x in q] for q in ppos])
    pd = np.linalg.norm(P[:, None, :] - P[None, :, :], axis=2)
    sh = np.array(list(itertools.product(range(-2, 3), repeat=3)), dtype=float).dot(cell)
    allpos = (pos[None, :, :] + sh[:, None, :]).reshape(-1, 3)
    allidx = np.tile(np.arange(n), len(sh))
    allel = np.array(list(elems) * len(sh))
    found = set()
    for a in range(n):
        if elems[a] != pel[0]:
            continue
        partial = [([a], [pos[a]])]
        for i in range(1, k):
            nxt = []
            for idx, pts in partial:
                ok = (allel == pel[i]) & ~np.isin(allidx, idx)
                for j, q in enumerate(pts):
                    ok &= np.abs(np.linalg.norm(allpos - q, axis=1) - pd[i, j]) <= tol
                for c in np.nonzero(ok)[0]:
                    nxt.append((idx + [int(allidx[c])], pts + [allpos[c]]))
            partial = nxt
        for idx, _ in partial:
            found.add(tuple(sorted(idx)))
    return found


PYTH = [(F(1), F(0)), (F(0), F(1)), (F(3, 5), F(4, 5)), (F(4, 5), F(3, 5)), (F(5, 13), F(12, 13)), (F(12, 13), F(5, 13)),
        (F(8, 17), F(15, 17)), (F(7, 25), F(24, 25))]


def build_thin(rng, kind, ncopies, cell_kind=None):
    """a THIN periodic cell: one lattice vector is as long (exactly, or to within 1/64 A - less than any search
    tolerance used) as the distance D between two SAME-ELEMENT atoms of the search pattern, so every such atom of the
    structure has a periodic image of itself at a pattern distance.  The occurrences are planted in the plane
    perpendicular to the thin lattice vector:
      thin_pair : pattern A-A (D apart); 1-3 occurrences as a straight chain of 2-4 atoms (neighbouring occurrences share
                  an atom) or as pairs lying apart, each with its own in-plane direction;
      thin_L    : pattern A, A (D apart), B (at a right angle, h from the first A); one occurrence, two lying apart, or
                  a fan of two that share the corner A and the B.
    The occurrences are known by construction (`truth`: their atom sets) and CONFIRMED by an independent brute-force
    enumeration at a tolerance of 0.25 A (> 2 x the largest search tolerance): exactly these sets of distinct atoms, and
    no other, have the pattern's distances."""
    for attempt in range(200):
        A, B = rng.sample(["C", "N", "O", "S", "P"], 2)
        D = F(rng.randint(9, 32), 8)                 # 1.125 .. 4 A
        h = _d(rng)
        thin = D + rng.choice([F(0), F(0), F(0), F(1, 128), F(-1, 128), F(1, 64), F(-1, 64)])
        if kind == "thin_pair":
            pat = ([A, A], [(F(0), F(0), F(0)), (D, F(0), F(0))])
            layout = "chain" if (ncopies > 1 and rng.random() < 0.6) else "apart"
        else:
            pat = ([A, A, B], [(F(0), F(0), F(0)), (D, F(0), F(0)), (F(0), h, F(0))])
            layout = "fan" if (ncopies == 2 and rng.random() < 0.5) else "apart"
        els, pq, truth = [], [], []                   # in-plane coordinates (p, q)
        gap = float(D) + float(h) + rng.randint(24, 40) / 8.0
        if layout == "chain":
            c, s = rng.choice(PYTH)
            sg = rng.choice([1, -1])
            for i in range(ncopies + 1):
                els.append(A)
                pq.append((float(D * i * c), float(D * i * s * sg)))
            truth = [[i, i + 1] for i in range(ncopies)]
        elif layout == "fan":
            c, s = rng.choice(PYTH)
            sg = rng.choice([1, -1])
            u, v = (float(c), float(s * sg)), (float(-s * sg), float(c))
            m = rng.choice([1, -1])
            els += [A, A, A, B]
            pq += [(0.0, 0.0), (float(D) * u[0], float(D) * u[1]), (-float(D) * u[0], -float(D) * u[1]),
                   (m * float(h) * v[0], m * float(h) * v[1])]
            truth = [[0, 1, 3], [0, 2, 3]]
        else:
            for k in range(ncopies):
                c, s = rng.choice(PYTH)
                sg = rng.choice([1, -1])
                u, v = (float(c), float(s * sg)), (float(-s * sg), float(c))
                o = (gap * k, rng.randint(-8, 8) / 8.0)
                b0 = len(els)
                els += [A, A]
                pq += [o, (o[0] + float(D) * u[0], o[1] + float(D) * u[1])]
                if kind == "thin_L":
                    m = rng.choice([1, -1])
                    els.append(B)
                    pq.append((o[0] + m * float(h) * v[0], o[1] + m * float(h) * v[1]))
                truth.append(list(range(b0, len(els))))
        ext_p = max(x[0] for x in pq) - min(x[0] for x in pq)
        ext_q = max(x[1] for x in pq) - min(x[1] for x in pq)
        eb, ec = ext_p + rng.randint(40, 64) / 8.0, ext_q + rng.randint(40, 64) / 8.0
        ck = cell_kind if cell_kind in ("ortho", "tri+", "tri-") else rng.choice(["ortho", "ortho", "tri+", "tri-"])
        if ck == "ortho":
            axis = rng.randrange(3)
            edges = [eb, ec]
            edges.insert(axis, float(thin))
            cellf = np.diag(edges)
        else:
            axis = 0
            sg = 1.0 if ck == "tri+" else -1.0
            t = lambda: sg * rng.randint(2, 16) / 8.0
            cellf = np.array([[float(thin), 0, 0], [t(), eb, 0], [t(), rng.choice([1, -1]) * t(), ec]])
        cinv = np.linalg.inv(cellf)
        origin = np.array([rng.choice([0.0, 0.01, 0.5, 0.99]) if rng.random() < 0.4 else rng.random() for _ in range(3)]).dot(cellf)
        inplane = [i for i in range(3) if i != axis]
        pos = []
        for (a, b) in pq:
            v = np.zeros(3)
            v[inplane[0]], v[inplane[1]] = a, b
            fr = (v + origin).dot(cinv) % 1.0
            fr[fr >= 1.0] = 0.0
            pos.append(fr.dot(cellf))
        els = list(els)
        for _ in range(rng.randint(0, 2)):
            for att in range(40):
                v = np.array([rng.random() for _ in range(3)]).dot(cellf)
                if all(np.linalg.norm(((v - qpt).dot(cinv) - np.round((v - qpt).dot(cinv))).dot(cellf)) >= 3.2 for qpt in pos):
                    els.append(rng.choice(["F", "Cl", "Br"]))
                    pos.append(v)
                    break
        want = set(tuple(sorted(t)) for t in truth)
        if occurrences_by_brute_force(els, pos, cellf, pat[0], pat[1], 0.25) != want:
            continue
        return {"elems": els, "pos": [[float(x) for x in v] for v in pos], "cell": [[float(v) for v in row] for row in cellf],
                "pattern": pat, "truth": sorted(sorted(t) for t in truth), "layout": layout,
                "thin": {"lattice_vector": axis, "length": float(thin), "pattern_distance": float(D)}}
    raise RuntimeError("harness: no thin-cell structure with confirmed occurrences in 200 attempts")


def build_ring_pbc(rng, els, pts, pat, ncopies, cell_kind=None):
    """the chain along a cell edge whose length is exactly the chain's period; orthorhombic (any axis) or LAMMPS-triclinic
    (chain along the first lattice vector)"""
    period = float(pat[1][2][0]) * ncopies
    b, c = [rng.randint(64, 88) / 8.0 for _ in range(2)]
    cell_kind = cell_kind if cell_kind in ("ortho", "tri+", "tri-") else rng.choice(["ortho", "ortho", "tri+", "tri-"])
    if cell_kind == "ortho":
        axis = rng.randrange(3)
        edges = [b, c]
        edges.insert(axis, period)
        cellf = np.diag(edges)
    else:
        axis = 0
        sg = 1.0 if cell_kind == "tri+" else -1.0
        t = lambda: sg * rng.randint(2, 16) / 8.0
        cellf = np.array([[period, 0, 0], [t(), b, 0], [t(), rng.choice([1, -1]) * t(), c]])
    cinv = np.linalg.inv(cellf)
    origin = np.array([rng.choice([0.0, 0.01, 0.5, 0.99]) if rng.random() < 0.4 else rng.random() for _ in range(3)]).dot(cellf)
    pos = []
    for q in pts:
        v = np.zeros(3)
        v[axis] = float(q[0])
        fr = (v + origin).dot(cinv) % 1.0
        fr[fr >= 1.0] = 0.0
        pos.append(fr.dot(cellf))
    els = list(els)
    for _ in range(rng.randint(0, 2)):
        for attempt in range(40):
            v = np.array([rng.random() for _ in range(3)]).dot(cellf)
            if all(np.linalg.norm(((v - qpt).dot(cinv) - np.round((v - qpt).dot(cinv))).dot(cellf)) >= 3.2 for qpt in pos):
                els.append(rng.choice(["F", "Cl", "Br"]))
                pos.append(v)
                break
    return {"elems": els, "pos": [[float(x) for x in v] for v in pos], "cell": [[float(v) for v in row] for row in cellf], "pattern": pat}


def build(rng, kind, ncopies, cell_kind=None, pose=None):
    """place the template rigidly in a periodic cell, add bystanders. Returns dict(elems, pos, cell, pattern)"""
    if kind in THIN:
        return build_thin(rng, kind, ncopies, cell_kind)
    els, pts, pat = template(rng, kind, ncopies)
    if kind == "ring_pbc":
        return build_ring_pbc(rng, els, pts, pat, ncopies, cell_kind)
    ext = max(float(max(abs(c) for c in p)) for p in pts) * 2 + 1.0
    cell_kind = cell_kind or rng.choice(["ortho", "ortho", "tri+", "tri-", "rot"])
    while True:
        cell = fl.make_cell(rng, cell_kind, max(8.0, ext + 4.0))
        if min(fl.perp_widths(cell)) > ext + 4.0:
            break
    cellf = np.array([[float(v) for v in row] for row in cell])
    cinv = np.linalg.inv(cellf)
    R = fl.rotmat(fl.rat_quat(rng, pose or rng.choice(["random", "random", "identity", "axis90", "axis180"])))
    origin = np.array([rng.choice([0.0, 0.01, 0.5, 0.99]) if rng.random() < 0.4 else rng.random() for _ in range(3)]).dot(cellf)
    pos = []
    for p in pts:
        v = np.array([float(x) for x in fl.matvec(R, list(p))]) + origin
        fr = v.dot(cinv) % 1.0
        fr[fr >= 1.0] = 0.0
        pos.append(fr.dot(cellf))
    els = list(els)
    for _ in range(rng.randint(0, 3)):
        for attempt in range(40):
            v = np.array([rng.random() for _ in range(3)]).dot(cellf)
            ok = True
            for qpt in pos:
                dv = (v - qpt).dot(cinv)
                dv -= np.round(dv)
                if np.linalg.norm(dv.dot(cellf)) < 3.2:
                    ok = False
                    break
            if ok:
                els.append(rng.choice(["F", "Cl", "Br"]))
                pos.append(v)
                break
    return {"elems": els, "pos": [[float(x) for x in v] for v in pos], "cell": [[float(v) for v in row] for row in cellf],
            "pattern": pat}


NUDGES = [F(1, 8192), F(1, 1024), F(1, 256), F(1, 100), F(1, 64), F(1, 50), F(3, 128), F(3, 100)]


def replacement_for(rng, pat, retain, other="drop", extra=False):
    """retained search atoms verbatim; the others dropped, swapped for a new element at the same place, or NUDGED:
    the same element displaced by 1e-4 .. 0.03 A (more than the 1e-5 A identification threshold, less than the search
    tolerance) - by the documented rule such an atom is NOT common to both patterns, so the match removes the
    structure atom and inserts a displaced one"""
    pe, pp = pat
    elems, pos = [], []
    for j in range(len(pe)):
        if j in retain:
            elems.append(pe[j])
            pos.append(list(pp[j]))
        elif other == "swap":
            elems.append(rng.choice([e for e in ["Si", "Zn", "Cu", "B"] if e != pe[j]]))
            pos.append(list(pp[j]))
        elif other == "nudge":
            x = list(pp[j])
            k = rng.randrange(3)
            x[k] = x[k] + rng.choice([1, -1]) * rng.choice(NUDGES)
            elems.append(pe[j])
            pos.append(x)
    if extra:
        elems.append("Zr")
        pos.append([pp[0][0] + F(3, 8), pp[0][1] - F(9, 8), pp[0][2] + F(7, 8)])
    order = list(range(len(elems)))
    rng.shuffle(order)
    return [elems[i] for i in order], [pos[i] for i in order]


FRACTIONS = [0.0, 0.125, 0.25, 0.34, 0.4, 0.5, 0.6, 0.67, 0.75, 0.9]


def fraction_below_one(rng, ncopies):
    """a replacement fraction in [0, 1): a round value, any 64th, or one aimed at selecting k of about `ncopies` matches
    (exactly k / n, or a quarter of a match to either side), k = 0 .. n - 1 - so that none, one, some or all but one of
    the found matches are selected"""
    u = rng.random()
    if u < 0.45:
        return rng.choice(FRACTIONS)
    if u < 0.6:
        return rng.randint(0, 63) / 64.0
    n = ncopies                    # every template is found once per copy
    k = rng.randint(0, n - 1)
    return min(0.99, max(0.0, (k + rng.choice([-0.25, 0.0, 0.0, 0.25])) / n))


def make_case(rng, kind=None, ncopies=None, retain=None, other=None, extra=None, replace_all=None, ignore=None, f=None,
              empty=None, cell_kind=None):
    kind = kind or rng.choice(KINDS)
    ncopies = ncopies or rng.randint(MINCOPIES.get(kind, 2), MAXCOPIES[kind])
    st = build(rng, kind, ncopies, cell_kind=cell_kind)
    pe, pp = st["pattern"]
    if retain is None:
        retain = [j for j in range(len(pe)) if rng.random() < 0.5]
    other = other or rng.choice(["drop", "swap", "nudge"])
    extra = rng.random() < 0.3 if extra is None else extra
    relems, rpos = replacement_for(rng, st["pattern"], set(retain), other, extra)
    sj = g.structure_json(rng, st, relabel=rng.random() < 0.3)
    # bonds / angles between arbitrary atoms of the structure (also among bystanders listed AFTER the shared atoms): a
    # removal must leave every surviving term on the same physical atoms
    n = len(sj["atoms"])
    if n >= 3 and rng.random() < 0.7:
        sj["terms"]["bond"] = [{"a": rng.sample(range(n), 2), "ty": 0, "x": []} for _ in range(rng.randint(1, 4))]
        sj["terms"]["angle"] = [{"a": rng.sample(range(n), 3), "ty": 0, "x": []} for _ in range(rng.randint(0, 2))]
    pj = g.pattern_json(pe, pp)
    if rng.random() < 0.2 if empty is None else empty:
        relems, rpos = [], []          # empty replacement: pure removal, never an overlap error
    rj = g.pattern_json(relems, rpos, charges=[1000 + i for i in range(len(relems))], groups=[5] * len(relems))
    rj_src, ekind = None, "-"
    if not relems:
        # EMPTY of every kind: Atoms(), the search pattern with all atoms deleted, zero atoms + type (+ coefficient) tables
        rj, rj_src, ekind = g.empty_replacement(rng, pj, empty if isinstance(empty, str) else None)
    if f is None:
        f = 1.0 if rng.random() < 0.8 else fraction_below_one(rng, ncopies)
    inp = {"op": "replace-c07", "sj": sj, "pj": pj, "rj": rj, "atol": rng.choice([0.05, 0.05, 0.05, 0.02, 0.1]), "f": f,
           "return_num": bool(rng.random() >= 0.15), "rj_src": rj_src, "np_args": bool(rng.random() < 0.25),
           "replace_all": bool(rng.random() < 0.3 if replace_all is None else replace_all),
           "ignore": bool(rng.random() < 0.4 if ignore is None else ignore), "seed": rng.randrange(1 << 30),
           "info": {"kind": kind, "copies": ncopies, "retain": sorted(retain), "other": other, "extra": bool(extra),
                    "r_atoms": len(relems), "empty_kind": ekind}}
    if "truth" in st:
        # the occurrences of the search pattern in the structure, by construction (atom sets; confirmed by brute force)
        inp["truth"] = st["truth"]
        inp["info"].update(layout=st["layout"], thin=st["thin"])
    return inp


# ------------------------------------------------------------------ the property on the real result

def admissible_sizes(f, n):
    """how many of n found matches a fraction f selects: f x n rounded to a nearest integer (both neighbours when f x n
    lies half-way, whatever the rounding rule)"""
    x = Fraction(float(f)) * n
    lo = x.numerator // x.denominator
    frac = x - lo
    if abs(frac - F(1, 2)) < F(1, 10 ** 9):
        ks = {lo, lo + 1}
    else:
        ks = {lo + 1 if frac > F(1, 2) else lo}
    return sorted(k for k in ks if 0 <= k <= n)


def unobserved_selection(inp, out, found, shared, r_empty):
    """fraction < 1 and the call never drew its selection where the harness can see it (it stopped, or chose, in
    another way).  Which matches were selected is then unknown, but the property still bounds the outcome: the selected
    matches are SOME subset of the found ones of an admissible size.  By brute force over all such subsets:
      * the overlap error can only be right if at least one admissible selection contains two matches that remove the
        same atom (and the caller did not ask to ignore, and the replacement is not empty);
      * a returned structure can only be right if at least one admissible selection is free of double removals (or
        the caller asked to ignore, or the replacement is empty).
    Everything in between stays undecided."""
    n = len(found)
    dall = c04.removal_sets(found, shared, inp["replace_all"], r_empty)
    sizes = admissible_sizes(inp["f"], n)
    some_overlap, some_clean = False, False
    for k in sizes:
        for sub in itertools.combinations(range(n), k):
            ov = any(dall[i] & dall[j] for a, i in enumerate(sub) for j in sub[a + 1:])
            some_overlap = some_overlap or ov
            some_clean = some_clean or not ov
    obs = {"found": found, "removal_sets_of_found": [sorted(d) for d in dall], "fraction": inp["f"],
           "admissible_numbers_of_selected_matches": sizes, "ignore": inp["ignore"], "replace_all": inp["replace_all"],
           "outcome": "structure" if "ok" in out else out.get("err")}
    if out.get("err") == "overlap":
        if r_empty:
            return "the replacement is empty, yet the replacement raised the overlap error", obs
        if inp["ignore"]:
            return "the caller asked to ignore double removals, yet the replacement raised the overlap error", obs
        if not some_overlap:
            return ("with this fraction %s of the %d found matches are selected, and NO such selection contains two matches "
                    "that remove the same atom, yet the replacement raised the overlap error (matches that are not "
                    "selected do not count)" % (" or ".join(str(k) for k in sizes), n), obs)
        return "ambiguous"
    if "ok" in out and not some_clean and not inp["ignore"] and not r_empty:
        return ("every admissible selection of the found matches contains two matches that remove the same atom, yet a "
                "structure was returned instead of the overlap error", obs)
    return "ambiguous"


def by_construction(inp, out, found, shared, r_empty):
    """The occurrences of the search pattern in the structure are known BY CONSTRUCTION (inp["truth"]: sets of distinct
    atoms, confirmed by brute force when the case was generated), and the matches the call worked on are not these.
    The property is then evaluated on the true occurrences, using only what does not depend on how a symmetric pattern
    is laid onto an occurrence:
      * the selected matches are `k` of the true occurrences (k = all, or fraction x number rounded to a nearest
        integer); when no two occurrences have an atom in common no atom can be removed twice, so the overlap error
        must not be raised (nor when the caller ignores double removals or the replacement is empty);
      * in a returned structure every atom of the input appears at most once, and every atom that belongs to NO
        occurrence exactly once;
      * when no two occurrences have an atom in common, each selected occurrence loses its atoms that are only in the
        search pattern and receives the atoms only in the replacement: the atom count is N + k x (|replacement| -
        |search|), and of the atoms of the occurrences exactly (n - k) x |search| + k x (atoms common to both patterns)
        are left; a reported match count is such a k.
    Anything else stays undecided (None: the outcome is compatible with the true occurrences)."""
    sj = inp["sj"]
    T = [frozenset(t) for t in inp["truth"]]
    n, N = len(T), len(sj["atoms"])
    npat, nrel = len(inp["pj"]["atoms"]), len(inp["rj"]["atoms"])
    disjoint = all(not (T[i] & T[j]) for i in range(n) for j in range(i + 1, n))
    sizes = [n] if inp["f"] >= 1.0 else admissible_sizes(inp["f"], n)
    n_sh = 0 if (inp["replace_all"] or r_empty) else len(shared)
    obs = {"occurrences_in_the_structure_by_construction": [sorted(t) for t in T], "matches_the_call_worked_on": found,
           "thin_cell": inp["info"].get("thin"), "fraction": inp["f"], "ignore": inp["ignore"], "replace_all": inp["replace_all"],
           "outcome": "structure" if "ok" in out else out.get("err")}
    head = ("the structure holds exactly %d occurrence(s) of the search pattern (sets of distinct atoms %s; an atom and its own "
            "periodic image are one atom), " % (n, [sorted(t) for t in T]))
    # occurrences that DO share atoms: what each removes is known whatever the laying-on when the patterns have no atom in
    # common (every atom of the occurrence goes) or the whole search pattern is retained (none goes)
    dall = [set(t) for t in T] if n_sh == 0 else [set() for _ in T] if n_sh == npat else None
    some_overlap = some_clean = None
    if dall is not None:
        some_overlap = some_clean = False
        for k in sizes:
            for sub in itertools.combinations(range(n), k):
                ov = any(dall[i] & dall[j] for x, i in enumerate(sub) for j in sub[x + 1:])
                some_overlap, some_clean = some_overlap or ov, some_clean or not ov
    if "ok" not in out:
        what = "the overlap error" if out.get("err") == "overlap" else str(out.get("err"))
        if r_empty:
            return head + "the replacement is empty, yet the replacement raised " + what, obs
        if inp["ignore"]:
            return head + "the caller asked to ignore double removals, yet the replacement raised " + what, obs
        if disjoint:
            return head + "no two of them have an atom in common, so no atom would be removed twice, yet the replacement raised " + what, obs
        if some_overlap is False:
            return head + "no selection of %s of them contains two that remove the same atom, yet the replacement raised %s" % (
                " or ".join(str(k) for k in sizes), what), obs
        return None
    if some_clean is False and not inp["ignore"] and not r_empty:
        return head + ("every selection of %s of them contains two that remove the same atom, yet a structure was returned instead of "
                       "the overlap error" % " or ".join(str(k) for k in sizes)), obs
    res = out["ok"]
    count = {}
    for a in res["atoms"]:
        count[a["q"]] = count.get(a["q"], 0) + 1
    inside = set().union(*T) if T else set()
    left = 0
    for i, a in enumerate(sj["atoms"]):
        c = count.get(a["q"], 0)
        if c > 1:
            return head + "and atom %d of the input appears %d times in the result" % (i, c), dict(obs, atom=i)
        if i not in inside and c != 1:
            return head + "atom %d belongs to none of them, yet it is missing from the result" % i, dict(obs, atom=i)
        left += c if i in inside else 0
    if dall is not None and inp["f"] >= 1.0:
        removed = set().union(*dall) if dall else set()
        for i, a in enumerate(sj["atoms"]):
            if count.get(a["q"], 0) != (0 if i in removed else 1):
                return head + "all selected; atom %d %s" % (i, "is removed by one of them, yet it is still in the result" if i in removed
                                                          else "is removed by none of them, yet it is missing from the result"), dict(obs, atom=i)
        if len(res["atoms"]) != N - len(removed) + n * (nrel - n_sh):
            return head + "all selected: the atom count is not N - |removed| + M x (atoms only in the replacement)", dict(
                obs, got=len(res["atoms"]), want=N - len(removed) + n * (nrel - n_sh))
    if disjoint:
        want = sorted(set(N + k * (nrel - npat) for k in sizes))
        if len(res["atoms"]) not in want:
            return (head + "no two of them have an atom in common, so each selected occurrence loses its %d search-only atoms once "
                    "and receives the %d replacement-only atoms once: the atom count must be N + k x (|replacement| - |search|) "
                    "with k = %s selected" % (npat - n_sh, nrel - n_sh, " or ".join(str(k) for k in sizes)),
                    dict(obs, got=len(res["atoms"]), want=want))
        want_left = sorted(set((n - k) * npat + k * n_sh for k in sizes))
        if left not in want_left:
            return (head + "no two of them have an atom in common: of their atoms, the ones of the selected occurrences that are "
                    "only in the search pattern must be gone exactly once and all others still there",
                    dict(obs, atoms_of_the_occurrences_left=left, want=want_left))
        if inp.get("return_num", True) and out.get("n") is not None and out["n"] not in sizes:
            return head + "yet the reported number of replaced matches is %s" % out["n"], dict(obs, reported=out["n"], want=sizes)
    return None


def oracle_overlap(inp, out):
    """None | (text, observed) | "ambiguous" """
    sj, pj, rj = inp["sj"], inp["pj"], inp["rj"]
    if out.get("found") is None:
        return "the search inside the replacement raised", out.get("err")
    found = [tuple(t) for t in out["found"][0]]
    pel, rel = c04.elems_of(pj), c04.elems_of(rj)
    shared = g.shared_pairs(rel, [a["pos"] for a in rj["atoms"]], pel, [a["pos"] for a in pj["atoms"]])
    r_empty = not rel
    if inp.get("truth") is not None and sorted(tuple(sorted(t)) for t in found) != sorted(tuple(t) for t in inp["truth"]):
        return by_construction(inp, out, found, shared, r_empty)
    if inp["f"] < 1.0 and out.get("sample") is None:
        return unobserved_selection(inp, out, found, shared, r_empty)
    used = [tuple(u["idx"]) for u in out["used"]]
    dsets = c04.removal_sets(used, shared, inp["replace_all"], r_empty)
    k = len(used)
    overlap = any(dsets[i] & dsets[j] for i in range(k) for j in range(i + 1, k))
    expect_error = overlap and not inp["ignore"] and not r_empty
    obs = {"selected": used, "removal_sets": [sorted(d) for d in dsets], "ignore": inp["ignore"], "replace_all": inp["replace_all"],
           "outcome": "structure" if "ok" in out else out.get("err")}
    if expect_error:
        if "ok" in out:
            return "two selected matches remove the same atom, yet a structure was returned instead of the overlap error", obs
        if out.get("err") != "overlap":
            return "two selected matches remove the same atom: expected the dedicated overlap error, got %s" % out.get("err"), obs
        return None
    if "ok" not in out:
        why = ("the caller asked to ignore double removals" if (overlap and inp["ignore"]) else
               "the replacement is empty" if (overlap and r_empty) else "no atom would be removed twice")
        return "%s, yet the replacement raised %s" % (why, out.get("err")), obs
    res = out["ok"]
    if inp.get("return_num", True) and out["n"] != k:
        return "reported match count differs from the number of selected matches", {"reported": out["n"], "selected": k}
    removed = set().union(*dsets) if dsets else set()
    count = {}
    for a in res["atoms"]:
        count[a["q"]] = count.get(a["q"], 0) + 1
    for i, a in enumerate(sj["atoms"]):
        c = count.get(a["q"], 0)
        if i in removed and c != 0:
            return "an atom that a selected match removes is still in the result", dict(obs, atom=i)
        if i not in removed and c != 1:
            return "an atom that no selected match removes appears %d times in the result" % c, dict(obs, atom=i)
    n_sh = 0 if (inp["replace_all"] or r_empty) else len(shared)
    want = len(sj["atoms"]) - len(removed) + k * (len(rel) - n_sh)
    if len(res["atoms"]) != want:
        return "atom count is not N - |removed| + M x (atoms only in the replacement)", dict(obs, got=len(res["atoms"]), want=want)
    if not out["inputs_unchanged"]:
        return "the structure or a pattern handed in was modified by the call", None
    # no silent corruption: the surviving terms of the structure still join the same physical atoms (the replacement
    # patterns of this generator carry no terms, so nothing else may appear)
    where = {a["q"]: i for i, a in enumerate(res["atoms"])}
    for kind in ("bond", "angle"):
        want_terms = sorted(tuple(where[sj["atoms"][x]["q"]] for x in t["a"]) for t in sj["terms"].get(kind, [])
                            if not (set(t["a"]) & removed))
        got_terms = sorted(tuple(t["a"]) for t in res["terms"].get(kind, []))
        if want_terms != got_terms:
            return ("after the removal the %ss of the structure no longer join the same atoms" % kind,
                    dict(obs, got=got_terms, want=want_terms))
    return None


def shares(out):
    if not out.get("used"):
        return False
    used = [set(u["idx"]) for u in out["used"]]
    return any(used[i] & used[j] for i in range(len(used)) for j in range(i + 1, len(used)))


def one(inp):
    out = c04.real(inp)
    return out, oracle_overlap(inp, out)


def tags_of(inp, out):
    i = inp["info"]
    t = ["kind:" + i["kind"], "copies:%d" % i["copies"], "retain:%s" % "".join(str(j) for j in i["retain"]) if i["retain"] else "retain:none",
         "other:" + i["other"], "extra:%s" % i["extra"], "replace_all:%s" % inp["replace_all"], "ignore:%s" % inp["ignore"],
         "r_empty:%s" % (i["r_atoms"] == 0), "empty-kind:%s" % i.get("empty_kind", "-"), "f:%s" % ("1" if inp["f"] >= 1 else "<1"), "atol:%g" % inp["atol"],
         "return_num_matches:%s" % inp.get("return_num", True), "numpy-typed-args:%s" % bool(inp.get("np_args"))]
    if out.get("used") is not None:
        t.append("selected:%d" % len(out["used"]))
        t.append("share-atoms:%s" % shares(out))
    t.append("outcome:%s" % ("structure" if "ok" in out else out.get("err")))
    t.append("entry:%s" % inp.get("via", "api"))
    return t + situations(inp, out)


def situations(inp, out):
    """which of the property's situations occur: a structure atom shared by two selected matches is retained by both,
    removed by one, or removed by both"""
    if not out.get("used"):
        return []
    used = [tuple(u["idx"]) for u in out["used"]]
    pel, rel = c04.elems_of(inp["pj"]), c04.elems_of(inp["rj"])
    shared = g.shared_pairs(rel, [a["pos"] for a in inp["rj"]["atoms"]], pel, [a["pos"] for a in inp["pj"]["atoms"]])
    dsets = c04.removal_sets(used, shared, inp["replace_all"], not rel)
    seen = set()
    for i in range(len(used)):
        for j in range(i + 1, len(used)):
            for x in set(used[i]) & set(used[j]):
                seen.add(["shared-atom:retained-by-both", "shared-atom:removed-by-one", "shared-atom:removed-by-both"][
                    (x in dsets[i]) + (x in dsets[j])])
    return sorted(seen)


# ------------------------------------------------------------------ the command line entry point (mofun_cli)

def write_lmpdat(path, sj):
    """a LAMMPS data file (atom style full) of a structure without terms, written from the case alone"""
    cell = [[float(core.unq(v)) for v in row] for row in sj["cell"]]
    with open(path, "w") as f:
        f.write("c07 cli case\n\n%d atoms\n0 bonds\n0 angles\n0 dihedrals\n0 impropers\n\n%d atom types\n\n"
                % (len(sj["atoms"]), len(sj["types"]["elem"])))
        f.write("0.0 %r xlo xhi\n0.0 %r ylo yhi\n0.0 %r zlo zhi\n" % (cell[0][0], cell[1][1], cell[2][2]))
        if cell[1][0] or cell[2][0] or cell[2][1]:
            f.write("%r %r %r xy xz yz\n" % (cell[1][0], cell[2][0], cell[2][1]))
        f.write("\nMasses\n\n")
        for i, (m, lab) in enumerate(zip(sj["types"]["mass"], sj["types"]["label"])):
            f.write("%d %r   # %s\n" % (i + 1, float(core.unq(m)), lab))
        f.write("\nAtoms\n\n")
        for i, a in enumerate(sj["atoms"]):
            x, y, z = [float(core.unq(v)) for v in a["pos"]]
            f.write("%d 1 %d %r %r %r %r\n" % (i + 1, a["ty"] + 1, float(core.unq(a["q"])), x, y, z))


def write_cml(path, j):
    with open(path, "w") as f:
        f.write('<?xml version="1.0"?>\n<molecule>\n <atomArray>\n')
        for i, a in enumerate(j["atoms"]):
            x, y, z = [float(core.unq(v)) for v in a["pos"]]
            f.write('  <atom id="a%d" elementType="%s" x3="%r" y3="%r" z3="%r"/>\n' % (i + 1, j["types"]["elem"][a["ty"]], x, y, z))
        f.write(' </atomArray>\n <bondArray>\n </bondArray>\n</molecule>\n')


def read_lmpdat_atoms(path):
    """own minimal reader of the Atoms section (atom style full): [{"q": charge, "ty": type id}]"""
    atoms, section = [], None
    for line in open(path):
        line = line.split("#")[0].strip()
        if line in ("Atoms", "Masses", "Bonds", "Angles", "Dihedrals", "Impropers", "Pair Coeffs", "Bond Coeffs", "Angle Coeffs",
                    "Dihedral Coeffs", "Improper Coeffs", "Velocities"):
            section = line
            continue
        t = line.split()
        if section == "Atoms" and len(t) >= 7:
            atoms.append({"q": core.q(Fraction(t[3])), "ty": int(t[2]) - 1})
    return atoms


def cli_case(rng):
    """an ordinary C07 case that can be driven through `mofun_cli input.lmpdat output.lmpdat -f search.cml -r replace.cml`:
    LAMMPS-oriented cell, no terms, non-empty replacement, every match selected; the command line has neither the ignore
    flag nor replace-all"""
    kind = rng.choice(KINDS)
    retain = [j for j in range(npat_of(kind)) if rng.random() < 0.5]
    other = rng.choice(["drop", "swap", "nudge"])
    inp = make_case(rng, kind, rng.randint(2, min(3, MAXCOPIES[kind])), retain, other, (not retain and other == "drop") or rng.random() < 0.3,
                    False, False, 1.0, empty=False, cell_kind=rng.choice(["ortho", "ortho", "tri+", "tri-"]))
    inp["sj"]["terms"] = {k: [] for k in ("bond", "angle", "dihedral", "improper")}
    inp["return_num"] = False
    if rng.random() < 0.3:
        inp["f"] = fraction_below_one(rng, inp["info"]["copies"])          # -p / --replace-fraction
    inp["via"] = "cli"
    inp["op"] = "replace-c07-cli"
    return inp


def cli_run(inp):
    """run the replacement through the click command in-process; returns an `out` record in the shape of the API runner:
    ok = the structure that was WRITTEN (read back with the own reader) when the command exits 0 and leaves an output file;
    err = overlap when the dedicated error propagates, the exit status is non-zero and NO output file exists"""
    import random
    import shutil
    import tempfile
    import mofun.mofun as mm
    from click.testing import CliRunner
    from mofun.cli.mofun_cli import mofun_cli
    d = tempfile.mkdtemp(prefix="c07cli_")
    rec = {}
    real_find, real_sample = mm.find_pattern_in_structure, random.sample

    def find_wrap(*a, **k):
        o = real_find(*a, **k)
        if isinstance(o, tuple) and len(o) == 3:
            rec["found"] = ([[int(i) for i in t] for t in o[0]], np.array(o[1], dtype=float).tolist(),
                            [[float(x) for x in qq.as_quat()] for qq in o[2]])
        return o

    def sample_wrap(pop, k):
        o = real_sample(pop, k)
        rec["sample"] = [int(i) for i in o]
        return o
    try:
        write_lmpdat(os.path.join(d, "in.lmpdat"), inp["sj"])
        write_cml(os.path.join(d, "search.cml"), inp["pj"])
        write_cml(os.path.join(d, "replace.cml"), inp["rj"])
        outp = os.path.join(d, "out.lmpdat")
        mm.find_pattern_in_structure = find_wrap
        random.sample = sample_wrap
        random.seed(inp["seed"])
        np.random.seed(inp["seed"] % (2 ** 32))
        try:
            with core.quiet():
                res = CliRunner().invoke(mofun_cli, [os.path.join(d, "in.lmpdat"), outp, "-f", os.path.join(d, "search.cml"),
                                                     "-r", os.path.join(d, "replace.cml"), "--atol", repr(float(inp["atol"]))]
                                         + (["-p", repr(float(inp["f"]))] if inp["f"] < 1.0 else []))
        finally:
            mm.find_pattern_in_structure = real_find
            random.sample = real_sample
        exc = type(res.exception).__name__ if (res.exception is not None and not isinstance(res.exception, SystemExit)) else None
        written = os.path.exists(outp)
        out = {"found": rec.get("found"), "sample": rec.get("sample"), "n": None, "inputs_unchanged": True,
               "cli": {"exit_code": res.exit_code, "exception": exc, "output_written": written, "stdout": (res.output or "")[-200:]}}
        if exc == "AtomsShouldNotBeDeletedTwice":
            out["err"] = ("overlap" if (not written and res.exit_code != 0) else
                          "error:cli-overlap-error-but-%s" % ("an output file was written" if written else "exit status 0"))
        elif exc is not None:
            out["err"] = "error:cli-" + exc
        elif res.exit_code == 0 and written:
            out["ok"] = {"atoms": read_lmpdat_atoms(outp), "terms": {}}
        else:
            out["err"] = "error:cli-exit-%s-output-%s" % (res.exit_code, "written" if written else "missing")
        if out["found"] is not None:
            idx, pos, quats = out["found"]
            out["used"] = [{"idx": idx[i], "pos": [[core.q(x) for x in pp] for pp in pos[i]], "quat": [core.q(x) for x in quats[i]]}
                           for i in (out["sample"] if out["sample"] is not None else range(len(idx)))]
        return out
    finally:
        shutil.rmtree(d, ignore_errors=True)


def cli_one(inp):
    out = cli_run(inp)
    bad = oracle_overlap(inp, out)
    if isinstance(bad, tuple):
        obs = dict(bad[1]) if isinstance(bad[1], dict) else {"observed": bad[1]}
        obs["cli"] = out.get("cli")
        bad = ("through the command line (mofun_cli INPUT OUTPUT -f SEARCH -r REPLACE): " + bad[0]
               + ("; exit status %s, output file %s" % (out["cli"]["exit_code"], "written" if out["cli"]["output_written"] else "not written")),
               obs)
    return out, bad


def record(ctx, inp, out, bad):
    if bad == "ambiguous":
        ctx.ambiguous += 1
        bad = None
    ctx.case(inp, nontrivial=shares(out))
    for t in tags_of(inp, out):
        ctx.count(t)
    if bad:
        ctx.fail(bad[0], inp, observed=bad[1], required=REQUIRED, tags=tags_of(inp, out))


def fraction_case(rng, kind=None, ncopies=None, f=None, ignore=None):
    """only SOME of the found matches are selected (fraction < 1) on templates whose occurrences share atoms: whether the
    overlap error is due depends on the SELECTED matches alone - found matches that are not selected may overlap as
    they like"""
    kind = kind or rng.choice([k for k in KINDS if k != "disjoint"])
    ncopies = ncopies or rng.randint(2, MAXCOPIES[kind])
    npat = npat_of(kind)
    retain = [j for j in range(npat) if rng.random() < 0.35]
    f = fraction_below_one(rng, ncopies) if f is None else f
    return make_case(rng, kind, ncopies, retain, None, None, rng.random() < 0.3, rng.random() < 0.2 if ignore is None else ignore, f,
                     empty=rng.random() < 0.1)


def systematic(rng):
    out = []
    for kind in KINDS:
        for nc in range(2, min(3, MAXCOPIES[kind]) + 1):
            npat = npat_of(kind)
            for r in range(npat + 1):
                for retain in itertools.combinations(range(npat), r):
                    for other in ("drop", "swap", "nudge"):
                        for extra in (False, True):
                            for ra in (False, True):
                                for ig in (False, True):
                                    out.append(make_case(rng, kind, nc, list(retain), other, extra, ra, ig, 1.0))
    return out


def _worker(inp):
    return one(inp)


def run(ctx, oracle_only=False, scale=1):
    ctx.rule = RULE
    rng = ctx.rng
    inps = [make_case(rng) for _ in range(ctx.n(1000, 6000) * scale)]
    # the three situations of the property on the simplest carrier, every run
    for kind in ("chain", "star2", "homo", "ring", "ring_pbc"):
        for retain in ([0, 2], [0], [2], [1], []):
            if kind == "star2" and max(retain or [0]) > 1:
                continue
            for ig in (False, True):
                inps.append(make_case(rng, kind, 2, retain, "drop", retain == [], False, ig, 1.0))
                inps.append(make_case(rng, kind, 3, retain, "swap", False, False, ig, 1.0))
                inps.append(make_case(rng, kind, 2, retain, "nudge", False, False, ig, 1.0))
    # thin cells (a lattice vector as long as the distance between two same-element pattern atoms), every run: each
    # pattern x number of occurrences x what the replacement keeps x both flags, all matches selected
    for kind in THIN:
        for nc in range(1, MAXCOPIES[kind] + 1):
            for retain in ([], [0], [1], list(range(npat_of(kind)))):
                for ig in (False, True):
                    inps.append(make_case(rng, kind, nc, retain, rng.choice(["drop", "swap"]), retain == [] and rng.random() < 0.5,
                                          rng.random() < 0.25, ig, 1.0, empty=rng.random() < 0.15))
    # an EMPTY replacement of every kind on overlapping matches, both flags: never an overlap error
    for kind in ("chain", "star2", "homo", "ring", "edge"):
        for ek in ("plain", "deleted-search", "tables", "tables+coeffs"):
            for ig in (False, True):
                inps.append(make_case(rng, kind, 2, [], "drop", False, rng.random() < 0.3, ig, 1.0, empty=ek))
    # fraction < 1 on overlapping occurrences: random, and every run each carrier with exactly k of n selected, k = 0 .. n - 1
    inps += [fraction_case(rng) for _ in range(ctx.n(160, 1500) * scale)]
    for kind in ("chain", "homo", "star2", "ring", "ring_pbc", "edge"):
        for nc in range(2, MAXCOPIES[kind] + 1):
            for k in range(nc):
                inps.append(fraction_case(rng, kind, nc, k / nc, False))
    if ctx.tier != "quick":
        inps += systematic(rng)
    procs = 1 if len(inps) <= 1500 else max(1, min(8, (os.cpu_count() or 2) // 2))
    if procs > 1:
        with multiprocessing.get_context("fork").Pool(procs) as pool:
            results = pool.map(_worker, inps, chunksize=32)
    else:
        results = [_worker(i) for i in inps]
    ties = []
    for inp, (out, bad) in zip(inps, results):
        record(ctx, inp, out, bad)
        if bad is None and out.get("used") is not None:
            ties.append((inp, out))
        elif bad == "ambiguous" and not oracle_only:
            ctx.compared += 1
            ctx.disagree("replace", inp, None, None, "the selection of matches (random.sample) was not observable")
    # the same property through the command line entry point (overlapping matches must make the command FAIL with the
    # dedicated error and leave no output file; the others must write the replaced structure)
    for _ in range(ctx.n(70, 500) * scale):
        inp = cli_case(rng)
        out, bad = cli_one(inp)
        record(ctx, inp, out, bad)
    if oracle_only:
        return
    ops = [fl.replace_op(inp["sj"], inp["pj"], inp["rj"], out["used"], inp["replace_all"], inp["ignore"]) for inp, out in ties]
    models = []
    for i in range(0, len(ops), 400):
        models += ctx.lean.run(ops[i:i + 400])
    for (inp, out), m in zip(ties, models):
        impl = c04.snap(c04.impl_result(out), m, inp["sj"]["cell"], ctx)
        ctx.compare("replace", inp, impl, m, numeric_tol=1e-7)


def search(ctx):
    run(ctx, oracle_only=True, scale=4 if ctx.tier == "quick" else 1)


def replay(ctx, rec):
    inp = rec.get("input") or rec.get("correspondence", {}).get("input")
    if inp is None:
        return True
    _, bad = cli_one(inp) if inp.get("via") == "cli" else one(inp)
    return bad is None or bad == "ambiguous"
